"""Reference quantities for stochastic universal sampling (SUS), in exact rational arithmetic.

SUS with k equally spaced pointers (spacing d = sum(w)/k, one random offset in [0, d)) gives element i, whose
expected number of copies is e_i = k * w_i / sum(w), either floor(e_i) or ceil(e_i) copies, whatever the offset and
whatever the order in which the elements are laid out: a half-open interval of length e_i*d contains floor(e_i) or
ceil(e_i) points of a lattice of spacing d.  In particular an element with integer e_i gets exactly e_i copies and
an element of weight zero gets none.

``expected_counts(weights, k)``  -> list of Fractions e_i, computed on the exact binary values of the float weights.
``count_bounds(weights, k, slack, strict_integer)`` -> list of (lo, hi) admissible copy numbers.

The ``slack`` argument exists because an implementation works in floating point: a pointer that lies within
rounding noise of an interval boundary may be attributed to either neighbour, so when e_i is within ``slack`` of
an integer the admissible range is widened by one on that side.  With ``strict_integer=True`` an e_i that is an
*exact* integer (as a rational number) is nevertheless required exactly; this is sound as long as no pointer lies
within rounding noise of an interval boundary, which the caller must guarantee (offset not within ~k*n*2^-52 of an
end of [0, d); see C17's ASSUMPTIONS for the false-alarm budget with real generators).
"""
import math
from fractions import Fraction


def expected_counts(weights, k):
    w = [Fraction(float(x)) for x in weights]
    if any(x < 0 for x in w):
        raise ValueError("negative weight")
    tot = sum(w)
    if tot <= 0:
        raise ValueError("weights must have a positive sum")
    return [Fraction(int(k)) * x / tot for x in w]


def count_bounds(weights, k, slack=Fraction(0), strict_integer=True):
    slack = Fraction(slack)
    out = []
    for w, e in zip(weights, expected_counts(weights, k)):
        if float(w) == 0.0:
            out.append((0, 0))
        elif strict_integer and e.denominator == 1:
            out.append((int(e), int(e)))
        else:
            lo = max(0, math.floor(e - slack))
            hi = min(int(k), math.ceil(e + slack))
            out.append((lo, hi))
    return out


def lattice_counts(weights, k, order, frac):
    """Exact SUS by the book: copies per element when the elements are laid out in ``order`` (a permutation of the
    indices) and the first pointer sits at ``frac * d`` (``frac`` a Fraction in (0,1)); interval i is (c_{i-1}, c_i].
    Used only to test this module."""
    w = [Fraction(float(x)) for x in weights]
    tot = sum(w)
    d = tot / k
    counts = [0] * len(w)
    c = Fraction(0)
    bounds = []
    for i in order:
        bounds.append((c, c + w[i], i))
        c += w[i]
    for t in range(k):
        ptr = (Fraction(frac) + t) * d
        for lo, hi, i in bounds:
            if lo < ptr <= hi:
                counts[i] += 1
                break
    return counts


def _selftest():
    assert expected_counts([1.0, 1.0, 2.0], 8) == [2, 2, 4]
    assert expected_counts([0.5, 0.0, 1.5], 3) == [Fraction(3, 4), 0, Fraction(9, 4)]
    assert count_bounds([1.0, 1.0, 2.0], 8) == [(2, 2), (2, 2), (4, 4)]
    assert count_bounds([0.5, 0.0, 1.5], 3) == [(0, 1), (0, 0), (2, 3)]
    assert count_bounds([1.0, 1.0, 2.0], 8, Fraction(1, 10 ** 9), strict_integer=False) == [(1, 3), (1, 3), (3, 5)]
    # 0.1+0.2+0.3+0.4 is not exactly 1: expectations are within 1e-15 of 1,2,3,4 but not integers
    b = count_bounds([0.1, 0.2, 0.3, 0.4], 10, Fraction(1, 10 ** 12))
    assert all(lo <= m <= hi and hi - lo <= 2 for (lo, hi), m in zip(b, (1, 2, 3, 4)))
    assert count_bounds([1e12, 1e-12], 3)[0] == (2, 3) and count_bounds([1e12, 1e-12], 3)[1] == (0, 1)
    # by-the-book SUS stays inside the bounds for every layout and a sweep of offsets
    import itertools
    for wts, k in (([3.0, 1.0, 2.5, 0.0], 5), ([1.0, 1.0, 1.0], 2), ([0.7, 0.2, 0.1], 7), ([2.0, 1.0, 1.0], 4)):
        bnd = count_bounds(wts, k)
        for order in itertools.permutations(range(len(wts))):
            for f in (Fraction(1, 10 ** 30), Fraction(1, 1000), Fraction(1, 3), Fraction(1, 2), Fraction(999, 1000)):
                cnt = lattice_counts(wts, k, order, f)
                assert sum(cnt) == k, (wts, k, order, f, cnt)
                assert all(lo <= c <= hi for c, (lo, hi) in zip(cnt, bnd)), (wts, k, order, f, cnt, bnd)


_selftest()
