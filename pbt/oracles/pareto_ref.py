"""Reference model for Pareto dominance, the non-dominated filter and the distance-to-preference-vector transform.

Everything here is written from the textbook definitions with O(n^2) Python loops (and ``fractions.Fraction`` for the
geometry); nothing is imported from pybrops.  Used by C19 and meant to be reused by C06/C07.

Conventions
-----------
* A *point* is a sequence of real numbers (one per objective).  ``points`` is a sequence of points of equal length.
* ``dominates(a, b)`` is **maximising** Pareto dominance: ``a`` is at least as good as ``b`` in every coordinate and
  strictly better in at least one.  ``dominates_min`` is the minimising twin.
* ``weights`` (optional) multiply the coordinates before any comparison (``float(x) * float(w)``: one IEEE-754
  multiplication, the same single rounding any implementation performs, so comparisons of weighted values are exact
  statements about the values an implementation sees).  A negative weight therefore turns an objective into a
  minimising one.

Public API
----------
``dominates(a, b)``, ``dominates_min(a, b)``, ``weakly_dominates(a, b)``, ``apply_weights(points, weights)``,
``efficient_mask(points, weights=None)``, ``efficient_vectors(points, weights=None)``,
``filter_defects(points, weights, marked)``, ``nondominated_ranks(points, weights=None)``,
``constrained_dominates(obj1, cv1, obj2, cv2)``, ``minmax_scale(points, signs)``, ``vec_dist(points, signs, vec)``.
"""
import math
from fractions import Fraction


# ------------------------------------------------------------------------------------------- dominance
def dominates(a, b):
    """True iff ``a`` Pareto-dominates ``b`` when every coordinate is maximised."""
    if len(a) != len(b):
        raise ValueError("points of different dimension")
    ge_all = True
    gt_any = False
    for x, y in zip(a, b):
        if x < y:
            ge_all = False
            break
        if x > y:
            gt_any = True
    return ge_all and gt_any


def dominates_min(a, b):
    """True iff ``a`` Pareto-dominates ``b`` when every coordinate is minimised."""
    if len(a) != len(b):
        raise ValueError("points of different dimension")
    return all(x <= y for x, y in zip(a, b)) and any(x < y for x, y in zip(a, b))


def weakly_dominates(a, b):
    """True iff ``a`` is at least as good as ``b`` in every (maximised) coordinate (equal points included)."""
    return all(x >= y for x, y in zip(a, b))


def apply_weights(points, weights=None):
    """List of tuples ``float(x) * float(w)``; ``weights=None`` leaves the points unchanged (as floats)."""
    if weights is None:
        return [tuple(float(x) for x in p) for p in points]
    w = [float(x) for x in weights]
    out = []
    for p in points:
        if len(p) != len(w):
            raise ValueError("weight vector length differs from point dimension")
        out.append(tuple(float(x) * wj for x, wj in zip(p, w)))
    return out


def efficient_mask(points, weights=None):
    """``mask[i]`` is True iff no other point dominates point ``i`` in the weighted (maximised) objectives.

    Every copy of a duplicated non-dominated point is marked (the definition does not single one out).
    """
    W = apply_weights(points, weights)
    n = len(W)
    return [not any(dominates(W[j], W[i]) for j in range(n) if j != i) for i in range(n)]


def efficient_vectors(points, weights=None):
    """Set of the *weighted* coordinate tuples of the non-dominated points."""
    W = apply_weights(points, weights)
    m = efficient_mask(points, weights)
    return set(W[i] for i in range(len(W)) if m[i])


def filter_defects(points, weights, marked):
    """Compare a filter result with the definition.

    ``marked`` is a sequence of booleans (one per point).  Returns a list of ``(kind, i, j)``:

    * ``("unsound", i, j)``: point ``i`` is marked although point ``j`` dominates it;
    * ``("incomplete", i, None)``: point ``i`` is unmarked and no *marked* point equals or dominates it.

    An empty list means: every marked point is non-dominated and every unmarked point is equalled or dominated by
    a marked one (duplicates of a non-dominated point may be marked once or several times).
    """
    W = apply_weights(points, weights)
    n = len(W)
    if len(marked) != n:
        raise ValueError("mask length differs from the number of points")
    out = []
    for i in range(n):
        if marked[i]:
            for j in range(n):
                if j != i and dominates(W[j], W[i]):
                    out.append(("unsound", i, j))
                    break
        else:
            if not any(marked[j] and weakly_dominates(W[j], W[i]) for j in range(n) if j != i):
                out.append(("incomplete", i, None))
    return out


def nondominated_ranks(points, weights=None):
    """Front number (0 = non-dominated) of every point by repeated peeling."""
    W = apply_weights(points, weights)
    n = len(W)
    rank = [None] * n
    left = set(range(n))
    r = 0
    while left:
        front = [i for i in left if not any(dominates(W[j], W[i]) for j in left if j != i)]
        for i in front:
            rank[i] = r
        left -= set(front)
        r += 1
    return rank


def constrained_dominates(obj1, cv1, obj2, cv2):
    """Feasibility-first dominance for *minimised* objectives (Deb's constraint-domination with total violation).

    A solution is feasible iff its violation score is ``<= 0``.  Two feasible solutions are compared by Pareto
    dominance; otherwise the one with the smaller violation (feasible = violation 0) dominates.
    """
    f1, f2 = cv1 <= 0.0, cv2 <= 0.0
    if f1 and f2:
        return dominates_min(list(obj1), list(obj2))
    v1 = 0.0 if f1 else cv1
    v2 = 0.0 if f2 else cv2
    return v1 < v2


# ------------------------------------------------------------------------------------------- geometry
def minmax_scale(points, signs):
    """Exact (Fraction) min-max scaling of ``points * signs`` per objective to [0, 1]; zero range -> 0."""
    Y = [[Fraction(float(x)) * Fraction(float(s)) for x, s in zip(p, signs)] for p in points]
    if not Y:
        return []
    nobj = len(Y[0])
    lo = [min(y[j] for y in Y) for j in range(nobj)]
    hi = [max(y[j] for y in Y) for j in range(nobj)]
    return [[(y[j] - lo[j]) / (hi[j] - lo[j]) if hi[j] != lo[j] else Fraction(0) for j in range(nobj)] for y in Y]


def vec_dist(points, signs, vec):
    """Distance of every min-max scaled point to the line through the origin spanned by ``vec``.

    Geometric definition, evaluated with Pythagoras in exact arithmetic:  d^2 = |z|^2 - (z.v)^2 / |v|^2.
    Only the final square root is a float operation.
    """
    v = [Fraction(float(x)) for x in vec]
    vv = sum(x * x for x in v)
    if vv == 0:
        raise ValueError("preference vector is zero")
    out = []
    for z in minmax_scale(points, signs):
        zz = sum(x * x for x in z)
        zv = sum(x * y for x, y in zip(z, v))
        d2 = zz - zv * zv / vv
        if d2 < 0:            # cannot happen (Cauchy-Schwarz) in exact arithmetic
            raise AssertionError("negative squared distance")
        out.append(math.sqrt(float(d2)))
    return out


# ------------------------------------------------------------------------------------------- self-test
def _selftest():
    assert dominates((1, 1), (0, 1)) and not dominates((0, 1), (1, 1))
    assert not dominates((1, 1), (1, 1))                      # irreflexive
    assert not dominates((1, 0), (0, 1)) and not dominates((0, 1), (1, 0))
    assert dominates_min((0, 1), (1, 1)) and not dominates_min((1, 1), (0, 1)) and not dominates_min((1, 1), (1, 1))
    assert weakly_dominates((1, 1), (1, 1))
    # hand example: (2,0) (1,1) (0,2) are the front, (0,0) (1,0) dominated, duplicate (1,1) non-dominated too
    pts = [(0, 0), (2, 0), (1, 1), (1, 0), (0, 2), (1, 1)]
    assert efficient_mask(pts) == [False, True, True, False, True, True]
    assert efficient_mask(pts, (1.0, 1.0)) == [False, True, True, False, True, True]
    # minimise both: only (0,0)
    assert efficient_mask(pts, (-1.0, -1.0)) == [True, False, False, False, False, False]
    # maximise x, minimise y: (2,0) only
    assert efficient_mask(pts, (1.0, -1.0)) == [False, True, False, False, False, False]
    assert efficient_vectors(pts) == {(2.0, 0.0), (1.0, 1.0), (0.0, 2.0)}
    assert filter_defects(pts, None, [False, True, True, False, True, False]) == []       # one copy marked: fine
    assert filter_defects(pts, None, [False, True, True, False, True, True]) == []        # both copies: fine
    assert filter_defects(pts, None, [False, True, False, False, True, False]) == [("incomplete", 2, None), ("incomplete", 5, None)]
    assert filter_defects(pts, None, [False, True, True, True, True, False])[0][:2] == ("unsound", 3)
    assert nondominated_ranks(pts) == [2, 0, 0, 1, 0, 0]
    assert efficient_mask([]) == [] and efficient_mask([(3,)]) == [True]
    assert efficient_mask([(1,), (3,), (3,), (2,)]) == [False, True, True, False]
    # constraint domination
    assert constrained_dominates((0, 0), 0.0, (1, 1), -1.0) and not constrained_dominates((1, 1), 0.0, (0, 0), 0.0)
    assert constrained_dominates((9, 9), 0.0, (0, 0), 0.5) and not constrained_dominates((0, 0), 0.5, (9, 9), 0.0)
    assert constrained_dominates((9, 9), 1.0, (0, 0), 2.0) and not constrained_dominates((0, 0), 2.0, (0, 0), 2.0)
    # geometry: unit square corners against the diagonal -> sqrt(1/2); against the x axis -> y coordinate
    sq = [(0, 0), (1, 0), (0, 1), (1, 1)]
    d = vec_dist(sq, (1, 1), (1, 1))
    assert d[0] == 0.0 and d[3] == 0.0 and abs(d[1] - math.sqrt(0.5)) < 1e-15 and abs(d[2] - math.sqrt(0.5)) < 1e-15
    assert vec_dist(sq, (1, 1), (5, 0)) == [0.0, 0.0, 1.0, 1.0]
    # scaling and sign: y minimised, so (.,0) is the best y -> scaled 1
    assert minmax_scale([(10, 0), (20, 4)], (1, -1)) == [[0, 1], [1, 0]]
    # constant objective and single point -> zero coordinate, finite distance
    assert vec_dist([(1, 5), (2, 5), (3, 5)], (1, 1), (1, 1)) == [0.0, math.sqrt(0.125), math.sqrt(0.5)]
    assert vec_dist([(7, 7)], (1, 1), (1, 2)) == [0.0]
    # 3-4-5: point (3/3=1, 0, 0)... distance of (1,0,0) to (1,1,1) is sqrt(2/3)
    assert abs(vec_dist([(0, 0, 0), (1, 0, 0), (0, 1, 1)], (1, 1, 1), (1, 1, 1))[1] - math.sqrt(2.0 / 3.0)) < 1e-15


_selftest()
