"""Reference definitions of the selection criteria (property C05).

Everything here is written from the published definition of the criterion, in plain Python with exact rational
arithmetic (`fractions.Fraction`; every binary64 value converts exactly), independently of numpy's vectorised
code paths in `pybrops/breed/prot/sel/prob`.  Each latent-vector function returns ``(values, tolerances)``:
``values`` are the exactly-rounded reference numbers and ``tolerances`` a forward error bound for a *floating
point* evaluation of the same formula (``k * eps * sum|terms|``), so comparisons are neither bit-exact nor lax.

Conventions
-----------
c        list of Fractions, the *normalised* contribution of every decision element (taxon or cross), sum == 1
members  list of indices of the selected elements (subset encodings; the set-valued criteria only use this)
"""
import math
from fractions import Fraction as Fr

EPS = 2.0 ** -52


# --------------------------------------------------------------------------------------------------------------
# contributions
# --------------------------------------------------------------------------------------------------------------
def contributions(weights):
    """weights (ints or floats, non-negative, positive sum) -> exact normalised contributions."""
    w = [Fr(x) for x in weights]
    s = sum(w)
    if s <= 0:
        raise ValueError("contributions need a positive sum")
    return [x / s for x in w]


def contributions_from_subset(x, n):
    """listing of selected indices (repeats count) -> exact normalised contributions over n elements."""
    cnt = [0] * n
    for i in x:
        cnt[i] += 1
    return contributions(cnt)


def _f(x):
    return float(x)


def _abs_sum(terms):
    return float(sum(abs(t) for t in terms))


def _tol(nterms, abssum, k=8):
    """forward error bound of a length-`nterms` floating dot product whose terms have absolute sum `abssum`"""
    return k * (nterms + 4) * EPS * abssum + 1e-300


# --------------------------------------------------------------------------------------------------------------
# linear criteria: EBV, GEBV, random BV, wGEBV, gwGEBV, UC, OHV, EMBV (value table v[i][t], i = decision element)
# --------------------------------------------------------------------------------------------------------------
def linear_latent(v, c):
    """-(sum_i c_i v_it) for every trait t.  The criterion is maximised, the latent vector is minimising."""
    n = len(v)
    nt = len(v[0]) if n else 0
    out, tol = [], []
    for t in range(nt):
        terms = [c[i] * Fr(v[i][t]) for i in range(n)]
        out.append(_f(-sum(terms)))
        tol.append(_tol(n, _abs_sum(terms)))
    return out, tol


# --------------------------------------------------------------------------------------------------------------
# kinship criteria: OCS, MGR, MEH, L2 (factor C, upper triangular, K = C'C)
# --------------------------------------------------------------------------------------------------------------
def gram(C):
    """K = C'C, exact"""
    n = len(C)
    Cf = [[Fr(C[r][i]) for i in range(n)] for r in range(n)]
    return [[sum(Cf[r][i] * Cf[r][j] for r in range(n)) for j in range(n)] for i in range(n)]


def quad_form(K, c):
    n = len(K)
    return sum(c[i] * K[i][j] * c[j] for i in range(n) for j in range(n))


def _sqrt_fraction(q):
    """sqrt of a non-negative Fraction, correctly to ~1 ulp even when q is far outside float range of q itself"""
    if q == 0:
        return 0.0
    num, den = q.numerator, q.denominator
    # scale so that the integer square root carries > 64 significant bits
    shift = max(0, 140 - (num.bit_length() - den.bit_length()))
    shift += shift % 2
    r = math.isqrt((num << shift) // den)
    return float(Fr(r, 1 << (shift // 2)))


def kinship_latent(C, c):
    """sqrt(c'Kc) with K = C'C, and the error bound of evaluating ||C c||_2 in floating point."""
    n = len(C)
    K = gram(C)
    q = quad_form(K, c)
    val = _sqrt_fraction(q)
    # library side: v_r = sum_i C_ri c_i  (each with dot-product error e_r), then a 2-norm
    e2 = 0.0
    for r in range(n):
        e_r = _tol(n, _abs_sum([Fr(C[r][i]) * c[i] for i in range(n)]))
        e2 += e_r * e_r
    tol = math.sqrt(e2) + 8 * (n + 4) * EPS * val + 1e-300
    return val, tol


def ocs_latent(C, ebv, c):
    """[ sqrt(c'Kc), -(c . ebv_t) for every trait ]"""
    v, t = kinship_latent(C, c)
    lv, lt = linear_latent(ebv, c)
    return [v] + lv, [t] + lt


def mgr_latent(C, c):
    v, t = kinship_latent(C, c)
    return [v], [t]


def meh_latent(C, c):
    """library definition: -(1 - sqrt(c'Kc))"""
    v, t = kinship_latent(C, c)
    return [-(1.0 - v)], [t + 4 * EPS]


def l2_latent(Ct, c):
    """one kinship factor per trait: ||C_t c||_2"""
    out, tol = [], []
    for C in Ct:
        v, t = kinship_latent(C, c)
        out.append(v)
        tol.append(t)
    return out, tol


# --------------------------------------------------------------------------------------------------------------
# L1 distance to target frequencies: V[t][j][i] = w_jt (f_ij - tf_jt)
# --------------------------------------------------------------------------------------------------------------
def l1_latent(V, c):
    out, tol = [], []
    for Vt in V:
        tot = Fr(0)
        tl = 0.0
        for row in Vt:
            terms = [Fr(row[i]) * c[i] for i in range(len(row))]
            tot += abs(sum(terms))
            tl += _tol(len(row), _abs_sum(terms))
        out.append(_f(tot))
        tol.append(tl + 8 * (len(Vt) + 4) * EPS * _f(tot))
    return out, tol


def l1_V(mkrwt, tafreq, tfreq):
    """V[t][j][i] = mkrwt[j][t] * (tafreq[i][j] - tfreq[j][t]) (exact Fractions)"""
    n, p, nt = len(tafreq), len(mkrwt), len(mkrwt[0])
    return [[[Fr(mkrwt[j][t]) * (Fr(tafreq[i][j]) - Fr(tfreq[j][t])) for i in range(n)] for j in range(p)]
            for t in range(nt)]


# --------------------------------------------------------------------------------------------------------------
# family EBV
# --------------------------------------------------------------------------------------------------------------
def family_latent(ebv, familyid, c):
    """[ -(c . ebv_t) for t ] + [ -(share of family f) for every distinct family id in ascending order ]"""
    lv, lt = linear_latent(ebv, c)
    fams = sorted(set(familyid))
    for f in fams:
        terms = [c[i] for i in range(len(c)) if familyid[i] == f]
        lv.append(_f(-sum(terms)))
        lt.append(_tol(len(c), _abs_sum(terms)))
    return lv, lt


# --------------------------------------------------------------------------------------------------------------
# haplotype-block criteria.  haplomat[m][i][b][t] = value of block b of phase m of taxon i for trait t
# --------------------------------------------------------------------------------------------------------------
def opv_latent(H, members):
    """-ploidy * sum_b max_{phase, i in members} H[phase][i][b][t]"""
    m = len(H)
    nb = len(H[0][0])
    nt = len(H[0][0][0])
    out, tol = [], []
    for t in range(nt):
        best = [max(Fr(H[ph][i][b][t]) for ph in range(m) for i in members) for b in range(nb)]
        out.append(_f(-m * sum(best)))
        tol.append(_tol(nb, m * _abs_sum(best)))
    return out, tol


def genotype_builder_latent(H, members, nbest):
    """-(ploidy/nbest) * sum_b sum of the `nbest` largest values of  max_phase H[phase][i][b][t]  over i in members"""
    m = len(H)
    nb = len(H[0][0])
    nt = len(H[0][0][0])
    out, tol = [], []
    for t in range(nt):
        terms = []
        for b in range(nb):
            per_taxon = sorted((max(Fr(H[ph][i][b][t]) for ph in range(m)) for i in members), reverse=True)
            terms.extend(per_taxon[:nbest])
        out.append(_f(-Fr(m, nbest) * sum(terms)))
        tol.append(_tol(len(terms), float(m) / nbest * _abs_sum(terms)))
    return out, tol


def ohv_of_cross(H, parents):
    """ploidy * sum_b max_{phase, parent in cross} H (one value per trait, exact Fractions)"""
    m = len(H)
    nb = len(H[0][0])
    nt = len(H[0][0][0])
    return [m * sum(max(Fr(H[ph][i][b][t]) for ph in range(m) for i in parents) for b in range(nb))
            for t in range(nt)]


# --------------------------------------------------------------------------------------------------------------
# allele-frequency criteria of a selected set (PAFD, PAU, MOGS)
# --------------------------------------------------------------------------------------------------------------
def set_frequency(geno, ploidy, members):
    """frequency of the coded allele at every marker among the selected taxa (listing repeats count)"""
    p = len(geno[0])
    k = len(members)
    return [Fr(sum(int(geno[i][j]) for i in members), ploidy * k) for j in range(p)]


def pafd_latent(geno, ploidy, mkrwt, tfreq, members):
    """sum_j w_jt |tf_jt - p_j(x)| per trait"""
    pf = set_frequency(geno, ploidy, members)
    p, nt = len(mkrwt), len(mkrwt[0])
    out, tol = [], []
    for t in range(nt):
        terms = [Fr(mkrwt[j][t]) * abs(Fr(tfreq[j][t]) - pf[j]) for j in range(p)]
        out.append(_f(sum(terms)))
        # the selected-set frequency itself carries ~3 eps relative error in floating point
        slack = sum(abs(float(mkrwt[j][t])) for j in range(p)) * 8 * EPS
        tol.append(_tol(p, _abs_sum(terms)) + slack)
    return out, tol


def allele_unavailable(tf, pf):
    """Can the target frequency `tf` NOT be reached by unlimited selection within a set whose frequency is `pf`?

    target 0  (fix the 0 allele): impossible iff the 0 allele is absent       <=> pf == 1
    target 1  (fix the 1 allele): impossible iff the 1 allele is absent       <=> pf == 0
    0<target<1 (keep both)      : impossible iff either allele is absent      <=> pf in {0, 1}
    """
    if tf <= 0:
        return pf >= 1
    if tf >= 1:
        return pf <= 0
    return pf <= 0 or pf >= 1


def pau_latent(geno, ploidy, mkrwt, tfreq, members):
    """sum_j w_jt [target allele state of marker j unattainable within the selected set]"""
    pf = set_frequency(geno, ploidy, members)
    p, nt = len(mkrwt), len(mkrwt[0])
    out, tol = [], []
    for t in range(nt):
        terms = [Fr(mkrwt[j][t]) if allele_unavailable(Fr(tfreq[j][t]), pf[j]) else Fr(0) for j in range(p)]
        out.append(_f(sum(terms)))
        tol.append(_tol(p, _abs_sum(terms)))
    return out, tol


def mogs_latent(geno, ploidy, mkrwt, tfreq, members):
    a, at = pau_latent(geno, ploidy, mkrwt, tfreq, members)
    b, bt = pafd_latent(geno, ploidy, mkrwt, tfreq, members)
    return a + b, at + bt


# --------------------------------------------------------------------------------------------------------------
# population-level data (factory clauses).  geno[i][j] in 0..ploidy = dosage of the coded allele
# --------------------------------------------------------------------------------------------------------------
def gebv_table(geno, u, intercept):
    """intercept_t + sum_j geno_ij u_jt   (exact)"""
    n, p, nt = len(geno), len(u), len(u[0])
    return [[Fr(intercept[t]) + sum(int(geno[i][j]) * Fr(u[j][t]) for j in range(p)) for t in range(nt)]
            for i in range(n)]


def favourable_frequency(geno, ploidy, u):
    """f_jt: frequency of the allele with the favourable effect for trait t; defined as 0 where u_jt == 0"""
    n, p, nt = len(geno), len(u), len(u[0])
    tot = ploidy * n
    out = []
    for j in range(p):
        cnt = sum(int(geno[i][j]) for i in range(n))
        row = []
        for t in range(nt):
            if u[j][t] > 0:
                row.append(Fr(cnt, tot))
            elif u[j][t] < 0:
                row.append(Fr(tot - cnt, tot))
            else:
                row.append(Fr(0))
        out.append(row)
    return out


def weighted_gebv_table(geno, u, fafreq, alpha):
    """sum_j geno_ij u_jt f_jt^(-alpha); markers whose favourable frequency is 0 keep weight 1
    (documented convention of the generalised weighted criterion).  Floats (f^-alpha is irrational)."""
    n, p, nt = len(geno), len(u), len(u[0])
    out, tol = [], []
    for i in range(n):
        row, trow = [], []
        for t in range(nt):
            terms = []
            for j in range(p):
                f = float(fafreq[j][t])
                w = 1.0 if f == 0.0 else f ** (-alpha)
                terms.append(int(geno[i][j]) * float(u[j][t]) * w)
            row.append(math.fsum(terms))
            trow.append(_tol(p, math.fsum(abs(x) for x in terms), k=16))
        out.append(row)
        tol.append(trow)
    return out, tol


def molecular_coancestry_diploid(geno):
    """G_ik = 1 + (1/p) sum_j (g_ij - 1)(g_kj - 1)  (identity-by-state coancestry of diploids, 0..2 scale)"""
    n, p = len(geno), len(geno[0])
    return [[1 + Fr(sum((int(geno[i][j]) - 1) * (int(geno[k][j]) - 1) for j in range(p)), p) for k in range(n)]
            for i in range(n)]


def expected_heterozygosity(geno, ploidy, c):
    """mean over markers of 2 p_j (1 - p_j) with p_j the contribution-weighted allele frequency (diploid He)"""
    n, p = len(geno), len(geno[0])
    tot = Fr(0)
    for j in range(p):
        pj = sum(c[i] * Fr(int(geno[i][j]), ploidy) for i in range(n))
        tot += 2 * pj * (1 - pj)
    return tot / p


def haldane_r(d):
    return 0.5 * (1.0 - math.exp(-2.0 * abs(d)))


def dh_variance_inbred(h1, h2, u_t, genpos, chrom):
    """Variance of the breeding value of doubled haploids derived from the F1 of two inbred lines.

    Enumerates, for every pair of loci, the four gamete classes of the F1 with the Haldane recombination
    fraction (1/2 between chromosomes): value = 2 * sum_j u_j g_j, g_j in {h1_j, h2_j}.
    """
    p = len(h1)
    var = 0.0
    terms = []
    for j in range(p):
        for k in range(p):
            r = haldane_r(genpos[j] - genpos[k]) if chrom[j] == chrom[k] else 0.5
            if j == k:
                r = 0.0
            # joint distribution of (g_j, g_k): parental classes (1-r)/2 each, recombinant classes r/2 each
            pts = [((h1[j], h1[k]), (1 - r) / 2), ((h2[j], h2[k]), (1 - r) / 2),
                   ((h1[j], h2[k]), r / 2), ((h2[j], h1[k]), r / 2)]
            ej = sum(a * pr for (a, _), pr in pts)
            ek = sum(b * pr for (_, b), pr in pts)
            ejk = sum(a * b * pr for (a, b), pr in pts)
            terms.append(4.0 * u_t[j] * u_t[k] * (ejk - ej * ek))
    var = math.fsum(terms)
    return var, math.fsum(abs(x) for x in terms)


def selection_intensity(upper):
    """i = phi(z_{1-upper}) / upper for the standard normal (statistics.NormalDist, not scipy)"""
    from statistics import NormalDist
    nd = NormalDist()
    if upper >= 1.0:
        return 0.0
    z = nd.inv_cdf(1.0 - upper)
    return nd.pdf(z) / upper


def equal_width_blocks(genpos, nblk):
    """Block index of every marker of ONE chromosome: `nblk` equal-width bins over [first, last] genetic position.

    Returns (bins, ambiguous): `ambiguous` is True when some interior marker lies on (within 1e-9 relative of) a
    bin edge, or a bin is empty -- the caller keeps such layouts out of the comparison.
    """
    lo, hi = Fr(genpos[0]), Fr(genpos[-1])
    width = (hi - lo) / nblk
    bins, amb = [], False
    if width == 0:
        return [0] * len(genpos), nblk > 1
    for g in genpos:
        x = (Fr(g) - lo) / width
        b = int(x)                       # floor
        if b >= nblk:
            b = nblk - 1
        near = abs(x - round(x)) < Fr(1, 10 ** 7)
        if near and 0 < round(x) < nblk:
            amb = True
        bins.append(b)
    if len(set(bins)) != nblk:
        amb = True
    return bins, amb


def block_values(hap, u, bins, nblk):
    """hap[m][i][j] allele calls, u[j][t]; -> H[m][i][b][t] exact"""
    m, n, p, nt = len(hap), len(hap[0]), len(u), len(u[0])
    return [[[[sum(int(hap[ph][i][j]) * Fr(u[j][t]) for j in range(p) if bins[j] == b) for t in range(nt)]
              for b in range(nblk)] for i in range(n)] for ph in range(m)]


def cross_map(ntaxa, nparent, unique):
    """all non-decreasing (or strictly increasing when `unique`) parent tuples in lexicographic order"""
    out = []

    def rec(pref):
        if len(pref) == nparent:
            out.append(list(pref))
            return
        st = (pref[-1] + (1 if unique else 0)) if pref else 0
        for i in range(st, ntaxa):
            rec(pref + [i])
    rec([])
    return out


# --------------------------------------------------------------------------------------------------------------
# self tests on hand-computed examples (run at import; failure = harness error, never a violation)
# --------------------------------------------------------------------------------------------------------------
def _selftest():
    c = contributions([1, 0, 3])
    assert c == [Fr(1, 4), 0, Fr(3, 4)]
    assert contributions_from_subset([2, 0, 2, 2], 3) == c
    v, _ = linear_latent([[4.0, 1.0], [100.0, 100.0], [8.0, -1.0]], c)
    assert v == [-7.0, 0.5], v
    # K = C'C with C = [[1,2],[0,3]] -> K = [[1,2],[2,13]];  c = (1/2,1/2): c'Kc = 18/4 -> sqrt = 2.1213..
    C = [[1.0, 2.0], [0.0, 3.0]]
    assert gram(C) == [[1, 2], [2, 13]]
    val, tol = kinship_latent(C, contributions([1, 1]))
    assert abs(val - math.sqrt(4.5)) < 1e-15 and tol < 1e-13
    assert abs(_sqrt_fraction(Fr(1, 4)) - 0.5) == 0.0
    assert meh_latent(C, contributions([1, 0]))[0] == [0.0]      # sqrt(K_00) = 1
    # family shares
    fv, _ = family_latent([[1.0], [2.0], [3.0]], [7, 3, 7], contributions([1, 1, 2]))
    assert fv == [-2.25, -0.25, -0.75], fv
    # L1: one trait, two markers, V rows: [1,-1,0] and [2,2,2]; c = (1/2,1/2,0): |0| + |2| = 2
    assert l1_latent([[[1.0, -1.0, 0.0], [2.0, 2.0, 2.0]]], contributions([1, 1, 0]))[0] == [2.0]
    # haplotype blocks: ploidy 2, 2 taxa, 2 blocks, 1 trait
    H = [[[[1.0], [0.0]], [[0.0], [5.0]]],      # phase 0: taxon0 (1,0), taxon1 (0,5)
         [[[2.0], [-1.0]], [[0.0], [4.0]]]]     # phase 1: taxon0 (2,-1), taxon1 (0,4)
    assert opv_latent(H, [0])[0] == [-2.0 * (2 + 0)]
    assert opv_latent(H, [0, 1])[0] == [-2.0 * (2 + 5)]
    assert ohv_of_cross(H, [0, 1]) == [14]
    # genotype builder: best phase per taxon: taxon0 (2,0), taxon1 (0,5); nbest=1 -> 2+5 ; nbest=2 -> (2+0)+(5+0)
    assert genotype_builder_latent(H, [0, 1], 1)[0] == [-2.0 * 7]
    assert genotype_builder_latent(H, [0, 1], 2)[0] == [-1.0 * 7]
    # allele frequency criteria: 3 markers; selected taxa genotypes (2,0,1),(2,0,0): freq = 1, 0, 1/4
    g = [[2, 0, 1], [2, 0, 0], [0, 2, 2]]
    assert set_frequency(g, 2, [0, 1]) == [1, 0, Fr(1, 4)]
    w = [[1.0], [2.0], [4.0]]
    assert pafd_latent(g, 2, w, [[1.0], [1.0], [0.5]], [0, 1])[0] == [0 + 2.0 + 1.0]
    assert pau_latent(g, 2, w, [[1.0], [1.0], [0.5]], [0, 1])[0] == [2.0]            # marker 1: allele 1 absent
    assert pau_latent(g, 2, w, [[0.0], [0.0], [0.0]], [0, 1])[0] == [1.0]            # marker 0: allele 0 absent
    assert pau_latent(g, 2, w, [[0.5], [0.5], [0.5]], [0, 1])[0] == [3.0]
    # favourable allele frequency and weighted GEBV
    ff = favourable_frequency(g, 2, [[1.0], [-1.0], [0.0]])
    assert ff == [[Fr(4, 6)], [Fr(4, 6)], [0]]
    tab, _ = weighted_gebv_table(g, [[1.0], [-1.0], [0.0]], ff, 0.5)
    assert abs(tab[0][0] - 2 * (4 / 6) ** -0.5) < 1e-15
    assert gebv_table(g, [[1.0], [-1.0], [0.5]], [10.0]) == [[Fr(25, 2)], [12], [9]]
    # molecular coancestry: identical homozygotes -> 2, opposite homozygotes -> 0
    G = molecular_coancestry_diploid([[2, 0], [2, 0], [0, 2]])
    assert G[0][1] == 2 and G[0][2] == 0 and G[2][2] == 2
    # He of a 50/50 mix of opposite homozygotes = 1/2; K route: 1 - c'(G/2)c
    c2 = contributions([1, 0, 1])
    he = expected_heterozygosity([[2, 0], [2, 0], [0, 2]], 2, c2)
    assert he == Fr(1, 2)
    Kh = [[x / 2 for x in row] for row in G]
    assert 1 - quad_form(Kh, c2) == he
    # DH variance: one locus, u = 1, lines differ: values 0 or 2 w.p. 1/2 -> variance 1
    assert abs(dh_variance_inbred([1], [0], [1.0], [0.0], [1])[0] - 1.0) < 1e-15
    # two unlinked loci: variance adds; two completely linked loci in coupling: (0 or 4) -> 4
    assert abs(dh_variance_inbred([1, 1], [0, 0], [1.0, 1.0], [0.0, 0.0], [1, 2])[0] - 2.0) < 1e-15
    assert abs(dh_variance_inbred([1, 1], [0, 0], [1.0, 1.0], [0.3, 0.3], [1, 1])[0] - 4.0) < 1e-15
    assert abs(selection_intensity(0.1) - 1.754983) < 1e-5
    assert equal_width_blocks([0.0, 0.1, 0.6, 1.0], 2) == ([0, 0, 1, 1], False)
    assert equal_width_blocks([0.0, 0.5, 1.0], 2)[1] is True
    assert cross_map(3, 2, True) == [[0, 1], [0, 2], [1, 2]]
    assert cross_map(2, 2, False) == [[0, 0], [0, 1], [1, 1]]


_selftest()
