"""Exact reference models for the doubled-haploid (DH) cross schemes of ``pybrops.breed.prot.mate``.

Everything here is written from the *mating protocols* (``mat_meiosis`` / ``mat_mate`` / ``mat_dh`` and the
``TwoWayDHCross`` / ``ThreeWayDHCross`` / ``FourWayDHCross`` classes), not from the variance formulas:

* meiosis of one diploid individual with haplotypes (h0, h1): walk along the markers, start on h0, switch the
  phase at marker k with probability ``xoprob[k]`` (independently: no interference).  The first marker of
  every chromosome has ``xoprob = 0.5`` so the starting phase is random and chromosomes are independent.
* mate(X, Y): progeny = (gamete of X, gamete of Y);  self(X) = mate(X, X) (two independent gametes of the *same*
  individual);  DH(X): progeny = (g, g) for one gamete g of X.
* two-way   (female, male):                 F1 = mate(female, male)             -> self^nself -> DH
* three-way (recurrent, female, male):      BC = mate(recurrent, mate(female, male)) -> self^nself -> DH
* four-way  (female2, male2, female1, male1): mate(mate(female1, male1), mate(female2, male2)) -> self^nself -> DH
* dihybrid  (female, male), heterozygous parents: the two-way protocol applied to arbitrary phased parents.

Two independent enumerators are provided (plain numpy arrays in, plain numpy arrays out):

``origin_joint(scheme, r, nself)``
    two-locus *exact* enumeration with founder-haplotype labels.  Every founder haplotype ("slot") gets a label;
    an individual is a probability vector over ordered two-locus diploid genotypes whose alleles are labels
    (L**4 states; L = 2 for two-way = the classical 16-state model, 3 for three-way, 4 for four-way/dihybrid).
    The result J[a, b] = P(allele at locus 1 of the DH gamete descends from slot a and allele at locus 2 from
    slot b).  Cov(x_i, x_j) for any founder alleles follows by summation.  nself = inf is the limit.

``gamete_enum(geno, xoprob)`` and the ``*_dist`` functions
    full multi-locus enumeration of all 2**p crossover patterns (p <= ~10), for genotype *distributions*, so that
    whole cross schemes (including selfing generations for tiny p) can be enumerated without any two-locus
    reduction.

Self-tests with hand-computed values run at import; a failure raises AssertionError (harness error, exit 2).
"""
import math

import numpy

__all__ = [
    "haldane", "xoprob_from_genpos", "rmat_from_genpos",
    "gamete_enum", "point_dist", "gamete_dist", "mate_dist", "self_dist", "scheme_dh_dist", "hap_moments",
    "SCHEME_NSLOT", "scheme_slots", "origin_joint", "origin_marginal", "locus_cov", "progeny_cov", "genic_cov",
]


# =====================================================================================================================
# map helpers
# =====================================================================================================================
def haldane(d):
    """Haldane (no interference) recombination fraction for a map distance d in Morgans."""
    return 0.5 * (1.0 - math.exp(-2.0 * float(d)))


def xoprob_from_genpos(chrgrp, genpos):
    """Crossover probability vector as the mating protocols expect it: 0.5 at the first marker of every chromosome,
    Haldane(genpos[k]-genpos[k-1]) elsewhere.  Markers must be ordered by chromosome, then position."""
    p = len(genpos)
    out = numpy.empty(p, dtype=float)
    for k in range(p):
        if k == 0 or chrgrp[k] != chrgrp[k - 1]:
            out[k] = 0.5
        else:
            out[k] = haldane(abs(float(genpos[k]) - float(genpos[k - 1])))
    return out


def rmat_from_genpos(chrgrp, genpos):
    """(p,p) pairwise recombination fractions: Haldane(|d|) on one chromosome, exactly 0.5 between chromosomes."""
    p = len(genpos)
    out = numpy.empty((p, p), dtype=float)
    for i in range(p):
        for j in range(p):
            if chrgrp[i] != chrgrp[j]:
                out[i, j] = 0.5
            else:
                out[i, j] = haldane(abs(float(genpos[i]) - float(genpos[j])))
    return out


# =====================================================================================================================
# multi-locus enumeration
# =====================================================================================================================
def _merge_rows(rows, w):
    """merge duplicate rows, summing weights; drop zero-weight rows; deterministic (lexicographic) order"""
    rows = numpy.asarray(rows)
    w = numpy.asarray(w, dtype=float)
    keep = w > 0.0
    rows, w = rows[keep], w[keep]
    if len(rows) == 0:
        return rows, w
    uniq, inv = numpy.unique(rows, axis=0, return_inverse=True)
    inv = numpy.asarray(inv).reshape(-1)
    return uniq, numpy.bincount(inv, weights=w, minlength=len(uniq))


def gamete_enum(geno, xoprob):
    """All gametes of ONE diploid individual with their probabilities.

    geno   : (2, p) array, the two haplotypes (any integer allele coding)
    xoprob : (p,) crossover probabilities as used by ``mat_meiosis`` (entry k = P(phase switch at marker k))
    returns (haps (K, p), probs (K,)) with duplicates merged and sum(probs) == 1 (up to rounding).
    """
    geno = numpy.asarray(geno)
    xoprob = numpy.asarray(xoprob, dtype=float)
    assert geno.ndim == 2 and geno.shape[0] == 2 and geno.shape[1] == len(xoprob)
    p = geno.shape[1]
    assert p <= 16, "gamete_enum enumerates 2**p crossover patterns"
    pat = (numpy.arange(2 ** p)[:, None] >> numpy.arange(p)[None, :]) & 1          # (2^p, p) crossover indicators
    prob = numpy.where(pat == 1, xoprob[None, :], 1.0 - xoprob[None, :]).prod(axis=1)
    phase = numpy.cumsum(pat, axis=1) % 2                                          # phase in force AT marker k
    haps = numpy.where(phase == 0, geno[0][None, :], geno[1][None, :])
    return _merge_rows(haps, prob)


def point_dist(h0, h1):
    """genotype distribution concentrated on one individual with haplotypes h0, h1"""
    h0 = numpy.asarray(h0)
    h1 = numpy.asarray(h1)
    return numpy.concatenate([h0, h1])[None, :], numpy.array([1.0])


def _split(gd):
    rows, w = gd
    p = rows.shape[1] // 2
    return rows[:, :p], rows[:, p:], w


def gamete_dist(gd, xoprob):
    """distribution of a gamete drawn from an individual drawn from the genotype distribution gd"""
    h0, h1, w = _split(gd)
    hs, ws = [], []
    for k in range(len(w)):
        h, pr = gamete_enum(numpy.stack([h0[k], h1[k]]), xoprob)
        hs.append(h)
        ws.append(pr * w[k])
    return _merge_rows(numpy.concatenate(hs), numpy.concatenate(ws))


def mate_dist(gdx, gdy, xoprob):
    """genotype distribution of mate(X, Y) for independent X ~ gdx, Y ~ gdy"""
    hx, wx = gamete_dist(gdx, xoprob)
    hy, wy = gamete_dist(gdy, xoprob)
    rows = numpy.concatenate([numpy.repeat(hx, len(hy), axis=0), numpy.tile(hy, (len(hx), 1))], axis=1)
    return _merge_rows(rows, numpy.outer(wx, wy).reshape(-1))


def self_dist(gd, xoprob):
    """genotype distribution of self(X), X ~ gd: both gametes come from the SAME individual"""
    h0, h1, w = _split(gd)
    rs, ws = [], []
    for k in range(len(w)):
        h, pr = gamete_enum(numpy.stack([h0[k], h1[k]]), xoprob)
        rs.append(numpy.concatenate([numpy.repeat(h, len(h), axis=0), numpy.tile(h, (len(h), 1))], axis=1))
        ws.append(numpy.outer(pr, pr).reshape(-1) * w[k])
    return _merge_rows(numpy.concatenate(rs), numpy.concatenate(ws))


def scheme_dh_dist(scheme, parents, xoprob, nself=0):
    """Distribution of the haplotype carried by one DH progeny of the cross scheme.

    parents : list of (2, p) arrays in the column order of the protocol's ``xconfig``
              (two-way / dihybrid: female, male; three-way: recurrent, female, male;
              four-way: female2, male2, female1, male1)
    returns (haps (K,p), probs (K,))
    """
    pd = [point_dist(numpy.asarray(g)[0], numpy.asarray(g)[1]) for g in parents]
    if scheme in ("two", "dihybrid"):
        assert len(pd) == 2
        cur = mate_dist(pd[0], pd[1], xoprob)
    elif scheme == "three":
        assert len(pd) == 3
        f1 = mate_dist(pd[1], pd[2], xoprob)
        cur = mate_dist(pd[0], f1, xoprob)
    elif scheme == "four":
        assert len(pd) == 4
        ab = mate_dist(pd[2], pd[3], xoprob)
        cd = mate_dist(pd[0], pd[1], xoprob)
        cur = mate_dist(ab, cd, xoprob)
    else:
        raise ValueError(scheme)
    for _ in range(int(nself)):
        cur = self_dist(cur, xoprob)
    return gamete_dist(cur, xoprob)


def hap_moments(haps, probs, u):
    """mean (t,) and covariance (t,t) of the genotypic value 2 * hap @ u of a DH line (dosage = 2 * gamete)"""
    haps = numpy.asarray(haps, dtype=float)
    u = numpy.asarray(u, dtype=float)
    vals = 2.0 * (haps @ u)                      # (K,t)
    mean = probs @ vals
    dev = vals - mean[None, :]
    cov = (dev * probs[:, None]).T @ dev
    return mean, cov


# =====================================================================================================================
# exact two-locus enumeration with founder-haplotype labels
# =====================================================================================================================
SCHEME_NSLOT = {"two": 2, "three": 3, "four": 4, "dihybrid": 4}


def scheme_slots(scheme, geno, tup):
    """(L, p) allele matrix of the founder haplotype slots of a parent index tuple.

    inbred schemes: slot k = phase 0 of parent tup[k];  dihybrid: slots = (female h0, female h1, male h0, male h1)
    """
    geno = numpy.asarray(geno)
    if scheme == "dihybrid":
        f, m = tup
        return numpy.stack([geno[0, f], geno[1, f], geno[0, m], geno[1, m]]).astype(float)
    assert len(tup) == SCHEME_NSLOT[scheme]
    return numpy.stack([geno[0, k] for k in tup]).astype(float)


def _gamete_matrix(L, r):
    """G[(s0,s1), s] = P(gamete two-locus haplotype s | ordered genotype (s0, s1)); s = a*L + b"""
    H = L * L
    G = numpy.zeros((H * H, H), dtype=float)
    for s0 in range(H):
        a0, b0 = divmod(s0, L)
        for s1 in range(H):
            a1, b1 = divmod(s1, L)
            g = s0 * H + s1
            G[g, a0 * L + b0] += 0.5 * (1.0 - r)      # non-recombinant, phase 0
            G[g, a1 * L + b1] += 0.5 * (1.0 - r)      # non-recombinant, phase 1
            G[g, a0 * L + b1] += 0.5 * r              # recombinant
            G[g, a1 * L + b0] += 0.5 * r              # recombinant
    return G


def _founder(L, k0, k1):
    """point genotype distribution of a founder whose haplotypes carry labels k0 and k1 at both loci"""
    H = L * L
    P = numpy.zeros(H * H, dtype=float)
    P[(k0 * L + k0) * H + (k1 * L + k1)] = 1.0
    return P


_J_CACHE = {}


def origin_joint(scheme, r, nself, nintermate=0):
    """J[a, b] = P(locus-1 allele of a DH gamete descends from slot a, locus-2 allele from slot b).

    r is the recombination fraction between the two loci in one meiosis; nself in {0, 1, 2, ...} or inf.
    nintermate = t > 0 (only with nself == 0): before the DH step the cross progeny are randomly intermated for t
    generations in an infinite population (generation k+1 = mate(X, Y), X and Y independent draws from generation k).
    """
    r = float(r)
    key = (scheme, r, float(nself), int(nintermate))
    if key in _J_CACHE:
        return _J_CACHE[key]
    L = SCHEME_NSLOT[scheme]
    H = L * L
    G = _gamete_matrix(L, r)

    def mate(px, py):
        return numpy.outer(px @ G, py @ G).reshape(-1)

    def selfing(p):
        return numpy.einsum("g,ga,gb->ab", p, G, G).reshape(-1)

    if scheme == "two":
        cur = mate(_founder(L, 0, 0), _founder(L, 1, 1))
    elif scheme == "three":
        cur = mate(_founder(L, 0, 0), mate(_founder(L, 1, 1), _founder(L, 2, 2)))
    elif scheme == "four":
        cur = mate(mate(_founder(L, 2, 2), _founder(L, 3, 3)), mate(_founder(L, 0, 0), _founder(L, 1, 1)))
    elif scheme == "dihybrid":
        cur = mate(_founder(L, 0, 1), _founder(L, 2, 3))
    else:
        raise ValueError(scheme)
    if nself == math.inf:
        # selfing until (numerically) every individual is homozygous at both loci; the heterozygous mass shrinks
        # geometrically (a heterozygous locus stays heterozygous with probability 1/2 per generation)
        het = numpy.array([s0 != s1 for s0 in range(H) for s1 in range(H)])
        for _ in range(5000):
            if cur[het].sum() < 1e-22:
                break
            cur = selfing(cur)
        else:  # pragma: no cover
            raise AssertionError("selfing limit did not converge")
    else:
        assert nself >= 0 and int(nself) == nself
        for _ in range(int(nself)):
            cur = selfing(cur)
    if nintermate:
        assert nself == 0
        for _ in range(int(nintermate)):
            cur = mate(cur, cur)
    J = (cur @ G).reshape(L, L)
    if len(_J_CACHE) > 20000:
        _J_CACHE.clear()
    _J_CACHE[key] = J
    return J


def origin_marginal(scheme):
    """expected genome contribution of each slot (selfing does not change single-locus allele frequencies)"""
    return origin_joint(scheme, 0.5, 0).sum(axis=1)


def locus_cov(scheme, slots, rmat, nself):
    """(p,p) matrix Cov(x_i, x_j) of the 0/1.. allele indicators of one DH gamete.  slots: (L,p); rmat: (p,p)"""
    slots = numpy.asarray(slots, dtype=float)
    L, p = slots.shape
    pi = origin_marginal(scheme)
    m = pi @ slots                                   # (p,) E[x_i]
    C = numpy.empty((p, p), dtype=float)
    for i in range(p):
        for j in range(p):
            if i == j:
                exx = math.fsum(pi[a] * slots[a, i] * slots[a, i] for a in range(L))
            else:
                J = origin_joint(scheme, rmat[i, j], nself)
                exx = float(slots[:, i] @ J @ slots[:, j])
            C[i, j] = exx - m[i] * m[j]
    return C


def progeny_cov(scheme, slots, u, rmat, nself):
    """(t,t) genetic covariance matrix between traits of the DH progeny: 4 * sum_ij u_i Cov(x_i,x_j) u_j'"""
    u = numpy.asarray(u, dtype=float)
    C = locus_cov(scheme, slots, rmat, nself)
    return 4.0 * (u.T @ C @ u)


def genic_cov(scheme, slots, u):
    """(t,t) genic covariance: the same quantity with linkage ignored (Cov(x_i,x_j) := 0 for i != j)"""
    slots = numpy.asarray(slots, dtype=float)
    u = numpy.asarray(u, dtype=float)
    pi = origin_marginal(scheme)
    m = pi @ slots
    v = pi @ (slots * slots) - m * m                 # (p,) Var(x_i)
    return 4.0 * ((u * v[:, None]).T @ u)


# =====================================================================================================================
# self-tests (hand-computed values)
# =====================================================================================================================
def _selftest():
    close = lambda a, b, tol=1e-14: numpy.allclose(a, b, rtol=0.0, atol=tol)

    # --- gamete_enum: two markers, heterozygous at both: parental (1-r)/2 each, recombinant r/2 each -------------
    r = 0.1
    h, pr = gamete_enum(numpy.array([[0, 0], [1, 1]]), numpy.array([0.5, r]))
    got = {tuple(x): float(w) for x, w in zip(h.tolist(), pr)}
    assert set(got) == {(0, 0), (0, 1), (1, 0), (1, 1)}
    assert close([got[(0, 0)], got[(1, 1)], got[(0, 1)], got[(1, 0)]], [0.45, 0.45, 0.05, 0.05])
    # start phase is 0 unless the first marker switches: xoprob[0] = 0 gives only phase-0 starts
    h, pr = gamete_enum(numpy.array([[0, 0], [1, 1]]), numpy.array([0.0, r]))
    got = {tuple(x): float(w) for x, w in zip(h.tolist(), pr)}
    assert close([got[(0, 0)], got[(0, 1)]], [0.9, 0.1]) and len(got) == 2
    # homozygote: one gamete with probability 1
    h, pr = gamete_enum(numpy.array([[1, 0, 1], [1, 0, 1]]), numpy.array([0.5, 0.3, 0.5]))
    assert h.tolist() == [[1, 0, 1]] and close(pr, [1.0])

    # --- single locus, two-way: p = 1/2 -> Var(x) = 1/4; variance of 2*u*x = 4 u^2 p(1-p) = u^2 --------------------
    u = numpy.array([[3.0]])
    slots = numpy.array([[1.0], [0.0]])
    for ns in (0, 1, 4, math.inf):
        assert close(progeny_cov("two", slots, u, numpy.array([[0.0]]), ns), [[9.0]])
        assert close(genic_cov("two", slots, u), [[9.0]])
    # three-way single locus, slots (R,F,M) = (1,0,0): p = 1/2 -> 4 u^2 /4 ; (0,1,0): p = 1/4 -> 4 u^2 * 3/16
    assert close(progeny_cov("three", numpy.array([[1.0], [0.0], [0.0]]), u, numpy.array([[0.0]]), 0), [[9.0]])
    assert close(progeny_cov("three", numpy.array([[0.0], [1.0], [0.0]]), u, numpy.array([[0.0]]), 2), [[36.0 * 3 / 16]])
    assert close(origin_marginal("two"), [0.5, 0.5]) and close(origin_marginal("three"), [0.5, 0.25, 0.25])
    assert close(origin_marginal("four"), [0.25] * 4) and close(origin_marginal("dihybrid"), [0.25] * 4)

    # --- two-way J at nself = 0 and the F2 value r2 = r(3-2r)/2 ---------------------------------------------------
    J = origin_joint("two", r, 0)
    assert close(J, [[0.45, 0.05], [0.05, 0.45]])
    J = origin_joint("two", r, 1)
    assert close(J[0, 1] + J[1, 0], r * (3 - 2 * r) / 2)          # = 0.14
    # SSD limit: Haldane-Waddington R = 2r/(1+2r)
    J = origin_joint("two", r, math.inf)
    assert close(J[0, 1] + J[1, 0], 2 * r / (1 + 2 * r), 1e-13)

    # --- unlinked loci: zero covariance in every scheme, every selfing depth ---------------------------------------
    sl4 = numpy.array([[1.0, 0.0], [0.0, 1.0], [1.0, 1.0], [0.0, 0.0]])
    rm = numpy.array([[0.0, 0.5], [0.5, 0.0]])
    for sc in ("two", "three", "four", "dihybrid"):
        L = SCHEME_NSLOT[sc]
        for ns in (0, 1, 3, math.inf):
            C = locus_cov(sc, sl4[:L], rm, ns)
            assert abs(C[0, 1]) < 1e-15 and abs(C[1, 0]) < 1e-15, (sc, ns, C)
            Jm = origin_joint(sc, 0.37, ns)
            assert close(Jm.sum(), 1.0) and close(Jm.sum(1), origin_marginal(sc)) and close(Jm.sum(0), origin_marginal(sc))

    # --- fully linked loci (r = 0): gamete carries one founder segment; two-way Cov = d_i d_j / 4 ------------------
    rm0 = numpy.zeros((2, 2))
    for ns in (0, 2, math.inf):
        C = locus_cov("two", numpy.array([[1.0, 0.0], [0.0, 1.0]]), rm0, ns)          # repulsion
        assert close(C, [[0.25, -0.25], [-0.25, 0.25]])
        C = locus_cov("two", numpy.array([[1.0, 1.0], [0.0, 0.0]]), rm0, ns)          # coupling
        assert close(C, [[0.25, 0.25], [0.25, 0.25]])
        Jf = origin_joint("four", 0.0, ns)
        assert close(Jf, numpy.eye(4) * 0.25)

    # --- three-way, nself = 0, by hand: BC = (R, g), g gamete of the F1 (F,M) --------------------------------------
    J = origin_joint("three", r, 0)
    hand = numpy.array([
        [(1 - r) / 2,           r / 4,               r / 4],
        [r / 4,                 (1 - r) ** 2 / 4,    (1 - r) * r / 4],
        [r / 4,                 (1 - r) * r / 4,     (1 - r) ** 2 / 4]])
    assert close(J, hand)
    # --- four-way, nself = 0, by hand --------------------------------------------------------------------------------
    J = origin_joint("four", r, 0)
    same, pair, cross = (1 - r) ** 2 / 4, (1 - r) * r / 4, r / 8
    hand = numpy.array([[same, pair, cross, cross], [pair, same, cross, cross],
                        [cross, cross, same, pair], [cross, cross, pair, same]])
    assert close(J, hand)
    assert close(origin_joint("dihybrid", r, 0), hand)       # same pedigree one generation later
    # identical-parents sanity: R x (F x F) is the two-way cross R x F
    C3 = locus_cov("three", numpy.array([[1.0, 0.0], [0.0, 1.0], [0.0, 1.0]]), numpy.array([[0, r], [r, 0]]), 1)
    C2 = locus_cov("two", numpy.array([[1.0, 0.0], [0.0, 1.0]]), numpy.array([[0, r], [r, 0]]), 1)
    assert close(C3, C2)

    # --- multi-locus enumeration agrees with the two-locus model (3 markers, 2 chromosomes, nself 0..2) -----------
    chrgrp = [1, 1, 2]
    genpos = [0.0, 0.2, 0.1]
    xo = xoprob_from_genpos(chrgrp, genpos)
    assert close(xo, [0.5, haldane(0.2), 0.5])
    rmat = rmat_from_genpos(chrgrp, genpos)
    uu = numpy.array([[1.0, 0.5], [-2.0, 0.0], [0.7, 1.0]])
    par = [numpy.array([[1, 0, 1]] * 2), numpy.array([[0, 1, 1]] * 2), numpy.array([[0, 0, 0]] * 2),
           numpy.array([[1, 1, 0]] * 2)]
    for sc, pp in (("two", par[:2]), ("three", par[:3]), ("four", par)):
        for ns in (0, 1, 2):
            h, pr = scheme_dh_dist(sc, pp, xo, ns)
            assert close(pr.sum(), 1.0)
            _, cov = hap_moments(h, pr, uu)
            slots = numpy.stack([g[0] for g in pp]).astype(float)
            assert close(cov, progeny_cov(sc, slots, uu, rmat, ns), 1e-13), (sc, ns)
    het = [numpy.array([[1, 0, 1], [0, 1, 1]]), numpy.array([[0, 0, 0], [1, 1, 0]])]
    for ns in (0, 1, 2):
        h, pr = scheme_dh_dist("dihybrid", het, xo, ns)
        _, cov = hap_moments(h, pr, uu)
        slots = numpy.stack([het[0][0], het[0][1], het[1][0], het[1][1]]).astype(float)
        assert close(cov, progeny_cov("dihybrid", slots, uu, rmat, ns), 1e-13), ns


_selftest()
