"""Reference (loop-formula) implementations of the relationship matrices used by pybrops.

Written from the published definitions, NOT from the pybrops code.  Inputs are plain numpy / nested-list dosage
arrays ``dosage[i][j]`` = number of copies (0..ploidy) of the coded ("1") allele carried by taxon ``i`` at marker
``j``.  Nothing here imports pybrops.

Every matrix function returns ``(G, S)``:

* ``G``  numpy float64 array (n, n), each entry accumulated with ``math.fsum`` over markers (one rounding);
* ``S``  numpy float64 array (n, n), the sum of absolute values of the per-marker terms of that entry *after*
  scaling.  ``k * eps * S[i, k]`` is a forward-error bound for any reasonable floating-point evaluation of the same
  formula (k of the order of the number of markers), which is what the checks use as tolerance.

Definitions
-----------
allele frequency      p_j = sum_i x_ij / (ploidy * n)                                   (exact: ``afreq_exact``)
molecular coancestry  f_ik = 2 * mean_j P(allele drawn from i at j is identical in state to allele drawn from k at j)
                      obtained by literally enumerating the ploidy*ploidy allele pairs.  For diploids this is
                      1 + mean_j (x_ij-1)(x_kj-1); for haploids (2/m) * #matching loci.
VanRaden (method 1)   G_ik = sum_j (x_ij - ploidy p_j)(x_kj - ploidy p_j) / (ploidy * sum_j p_j (1 - p_j))
Yang (unified form)   G_ik = (1/m) sum_j (x_ij - ploidy p_j)(x_kj - ploidy p_j) / (ploidy * p_j (1 - p_j))
generalised weighted  G_ik = sum_j w_j (x_ij - ploidy p_j)(x_kj - ploidy p_j)

``p_j`` is the supplied reference frequency (scalar or per-marker) or, when ``None``, the sample frequency.
"""
import math
from fractions import Fraction

import numpy

EPS = 2.220446049250313e-16


class DomainError(ValueError):
    """The formula is undefined for this input (division by zero)."""


# ------------------------------------------------------------------------------------------------------------------
# helpers
# ------------------------------------------------------------------------------------------------------------------
def _as_int_rows(dosage, ploidy):
    rows = [[int(v) for v in r] for r in numpy.asarray(dosage).tolist()]
    if len(rows) == 0 or len(rows[0]) == 0:
        raise DomainError("empty dosage array")
    for r in rows:
        for v in r:
            if v < 0 or v > ploidy:
                raise DomainError("dosage %d outside 0..%d" % (v, ploidy))
    return rows


def afreq_exact(dosage, ploidy):
    """List of ``Fraction`` sample allele frequencies, one per marker."""
    rows = _as_int_rows(dosage, ploidy)
    n, m = len(rows), len(rows[0])
    return [Fraction(sum(rows[i][j] for i in range(n)), ploidy * n) for j in range(m)]


def afreq(dosage, ploidy):
    """Sample allele frequencies as correctly rounded floats."""
    return [float(f) for f in afreq_exact(dosage, ploidy)]


def _ref_freq(p_ref, rows, ploidy):
    """Reference frequencies as a list of python floats (the values a caller would hand to the estimator)."""
    m = len(rows[0])
    if p_ref is None:
        return afreq(rows, ploidy)
    if isinstance(p_ref, (int, float, numpy.integer, numpy.floating)):
        return [float(p_ref)] * m
    out = [float(v) for v in numpy.asarray(p_ref).tolist()]
    if len(out) != m:
        raise DomainError("reference frequency length %d != number of markers %d" % (len(out), m))
    return out


def _weights(w, m):
    if w is None:
        return [1.0] * m
    if isinstance(w, (int, float, numpy.integer, numpy.floating)):
        return [float(w)] * m
    out = [float(v) for v in numpy.asarray(w).tolist()]
    if len(out) != m:
        raise DomainError("weight length %d != number of markers %d" % (len(out), m))
    return out


def _cross(rows, ploidy, p, colscale, globalscale):
    """G_ik = globalscale * sum_j colscale_j (x_ij - ploidy p_j)(x_kj - ploidy p_j), with abs-sum companion."""
    n, m = len(rows), len(rows[0])
    G = numpy.zeros((n, n))
    S = numpy.zeros((n, n))
    dev = [[rows[i][j] - ploidy * p[j] for j in range(m)] for i in range(n)]
    for i in range(n):
        for k in range(i, n):
            terms = [colscale[j] * dev[i][j] * dev[k][j] for j in range(m)]
            g = globalscale * math.fsum(terms)
            s = abs(globalscale) * math.fsum(abs(t) for t in terms)
            G[i, k] = G[k, i] = g
            S[i, k] = S[k, i] = s
    return G, S


# ------------------------------------------------------------------------------------------------------------------
# the four estimators
# ------------------------------------------------------------------------------------------------------------------
def molecular_exact(dosage, ploidy):
    """Molecular coancestry as a nested list of ``Fraction`` (exact), by enumeration of allele pairs."""
    rows = _as_int_rows(dosage, ploidy)
    n, m = len(rows), len(rows[0])
    # the alleles an individual carries at a locus, as an explicit list
    alleles = [[[1] * rows[i][j] + [0] * (ploidy - rows[i][j]) for j in range(m)] for i in range(n)]
    out = [[None] * n for _ in range(n)]
    for i in range(n):
        for k in range(i, n):
            tot = Fraction(0)
            for j in range(m):
                same = 0
                for a in alleles[i][j]:
                    for b in alleles[k][j]:
                        if a == b:
                            same += 1
                tot += Fraction(same, ploidy * ploidy)
            out[i][k] = out[k][i] = 2 * tot / m
    return out


def molecular_from_calls_exact(calls):
    """Same, from phased 0/1 allele calls of shape (ploidy, n, m) (each chromosome copy enumerated as stored)."""
    c = numpy.asarray(calls)
    ploidy, n, m = c.shape
    c = c.tolist()
    out = [[None] * n for _ in range(n)]
    for i in range(n):
        for k in range(i, n):
            tot = Fraction(0)
            for j in range(m):
                same = 0
                for a in range(ploidy):
                    for b in range(ploidy):
                        if c[a][i][j] == c[b][k][j]:
                            same += 1
                tot += Fraction(same, ploidy * ploidy)
            out[i][k] = out[k][i] = 2 * tot / m
    return out


def molecular(dosage, ploidy):
    ex = molecular_exact(dosage, ploidy)
    n = len(ex)
    G = numpy.array([[float(ex[i][k]) for k in range(n)] for i in range(n)])
    # every per-locus term lies in [0, 2/m]; their absolute sum is at most 2
    S = numpy.full((n, n), 2.0)
    return G, S


def vanraden(dosage, ploidy, p_anc=None):
    rows = _as_int_rows(dosage, ploidy)
    p = _ref_freq(p_anc, rows, ploidy)
    if p_anc is None:
        denom = float(ploidy * sum(f * (1 - f) for f in afreq_exact(rows, ploidy)))
    else:
        denom = ploidy * math.fsum(q * (1.0 - q) for q in p)
    if not denom > 0.0:
        raise DomainError("sum p(1-p) is zero: VanRaden matrix undefined")
    return _cross(rows, ploidy, p, [1.0] * len(p), 1.0 / denom)


def yang(dosage, ploidy, p_anc=None):
    rows = _as_int_rows(dosage, ploidy)
    p = _ref_freq(p_anc, rows, ploidy)
    for q in p:
        if not (0.0 < q < 1.0):
            raise DomainError("reference frequency %r on the boundary: Yang matrix undefined" % q)
    colscale = [1.0 / (ploidy * q * (1.0 - q)) for q in p]
    return _cross(rows, ploidy, p, colscale, 1.0 / len(p))


def generalized_weighted(dosage, ploidy, mkrwt=None, afreq_ref=None):
    rows = _as_int_rows(dosage, ploidy)
    p = _ref_freq(afreq_ref, rows, ploidy)
    w = _weights(mkrwt, len(p))
    return _cross(rows, ploidy, p, w, 1.0)


# ------------------------------------------------------------------------------------------------------------------
# summaries evaluated directly on a given matrix
# ------------------------------------------------------------------------------------------------------------------
def min_eigenvalue(G):
    G = numpy.asarray(G, dtype=float)
    return float(numpy.linalg.eigvalsh(0.5 * (G + G.T)).min())


def condition_number(G):
    G = numpy.asarray(G, dtype=float)
    s = numpy.linalg.svd(G, compute_uv=False)
    if s[-1] == 0.0:
        return math.inf
    return float(s[0] / s[-1])


def min_inbreeding(G):
    """min x'Gx subject to 1'x = 1, from the KKT system (no explicit inverse): equals 1 / sum(inv(G))."""
    G = numpy.asarray(G, dtype=float)
    n = G.shape[0]
    K = numpy.zeros((n + 1, n + 1))
    K[:n, :n] = 2.0 * G
    K[:n, n] = 1.0
    K[n, :n] = 1.0
    rhs = numpy.zeros(n + 1)
    rhs[n] = 1.0
    sol = numpy.linalg.solve(K, rhs)
    x = sol[:n]
    return float(x @ G @ x)


# ------------------------------------------------------------------------------------------------------------------
# self-test on hand-computed examples (executed at import; a failure is a harness error, not a violation)
# ------------------------------------------------------------------------------------------------------------------
def _selftest():
    # two diploids, two markers: A = (2, 1), B = (0, 1)
    d = [[2, 1], [0, 1]]
    ex = molecular_exact(d, 2)
    # locus 1: A/A 1, A/B 0, B/B 1 ; locus 2 (both het): 1/2 everywhere.  f = 2 * mean
    assert ex[0][0] == Fraction(3, 2) and ex[0][1] == Fraction(1, 2) and ex[1][1] == Fraction(3, 2), ex
    # haploids (1,0,1) and (1,1,1): identical at 2 of 3 loci -> 4/3 ; self -> 2
    ex = molecular_exact([[1, 0, 1], [1, 1, 1]], 1)
    assert ex[0][1] == Fraction(4, 3) and ex[0][0] == 2 and ex[1][1] == 2, ex
    # phased enumeration agrees with dosage enumeration
    calls = numpy.array([[[1, 0], [0, 1]], [[1, 1], [0, 0]]])       # (2 phases, 2 taxa, 2 loci) -> dosages (2,1),(0,1)
    assert molecular_from_calls_exact(calls) == molecular_exact(d, 2)
    assert afreq_exact(d, 2) == [Fraction(1, 2), Fraction(1, 2)]
    # VanRaden, sample frequencies p=(1/2,1/2): Z = [[1,0],[-1,0]], denominator 2*(1/4+1/4)=1
    G, S = vanraden(d, 2)
    assert G.tolist() == [[1.0, -1.0], [-1.0, 1.0]] and S.tolist() == [[1.0, 1.0], [1.0, 1.0]], (G, S)
    # VanRaden with p_anc = 1/4: Z = [[1.5,.5],[-.5,.5]], denominator 2*2*(3/16) = 3/4
    G, S = vanraden(d, 2, 0.25)
    assert numpy.allclose(G, numpy.array([[2.5, -0.5], [-0.5, 0.5]]) / 0.75, rtol=0, atol=1e-15), G
    # Yang with p = 1/2: per-marker scale 1/(2*1/4)=2, m=2 -> G = Z Z' (same Z as above)
    G, S = yang(d, 2)
    assert G.tolist() == [[1.0, -1.0], [-1.0, 1.0]], G
    # generalised weighted, weights (2, 3), p = 1/2: only marker 1 deviates
    G, S = generalized_weighted(d, 2, [2.0, 3.0])
    assert G.tolist() == [[2.0, -2.0], [-2.0, 2.0]], G
    # boundary domains
    for bad in (lambda: vanraden([[2, 2], [2, 2]], 2), lambda: yang(d, 2, 0.0), lambda: yang([[2, 1], [2, 1]], 2)):
        try:
            bad()
        except DomainError:
            pass
        else:
            raise AssertionError("domain error expected")
    # min inbreeding of diag(2, 2) is 1 (x = (1/2, 1/2)); of [[2,1],[1,2]]: inv sum = 2/3 -> 3/2
    assert abs(min_inbreeding([[2.0, 0.0], [0.0, 2.0]]) - 1.0) < 1e-14
    assert abs(min_inbreeding([[2.0, 1.0], [1.0, 2.0]]) - 1.5) < 1e-14
    assert abs(min_eigenvalue([[2.0, 1.0], [1.0, 2.0]]) - 1.0) < 1e-14


_selftest()
