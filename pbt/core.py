"""Core types shared by the runner and the per-property check modules."""
import collections
import hashlib
import json
import random as _py_random

import numpy


class Violation(Exception):
    """The property under test does not hold for the current case."""

    def __init__(self, clause, msg=""):
        Exception.__init__(self, "%s: %s" % (clause, msg))
        self.clause = clause
        self.msg = msg


class Reject(Exception):
    """Case is outside the property's domain (counted; never a violation)."""


def case_hash(case):
    return hashlib.sha1(json.dumps(case, sort_keys=True, default=str).encode()).hexdigest()[:16]


def jsonable(x):
    """Convert numpy scalars/arrays nested in a case into plain JSON values."""
    if isinstance(x, dict):
        return {str(k): jsonable(v) for k, v in x.items()}
    if isinstance(x, (list, tuple)):
        return [jsonable(v) for v in x]
    if isinstance(x, numpy.ndarray):
        return jsonable(x.tolist())
    if isinstance(x, numpy.generic):
        return x.item()
    if isinstance(x, (bytes, bytearray)):
        return x.hex()
    return x


class Ctx:
    """Per-case context handed to a sub-check's function."""

    def __init__(self, known_keys=(), suppressed=()):
        self.known_keys = set(known_keys)      # finding keys with status "known" for this property
        self.suppressed = set(suppressed)      # clauses already reported in this run (search continues behind them)
        self.labels = []
        self.is_nontrivial = False
        self.excluded = collections.Counter()  # known-finding key -> number of clause evaluations skipped
        self.suppressed_hits = collections.Counter()
        self.notes = {}

    # classification ---------------------------------------------------------------------------------
    def label(self, name, cond=True):
        if cond:
            self.labels.append(str(name))
        return cond

    def nontrivial(self, cond=True):
        if cond:
            self.is_nontrivial = True
        return cond

    def note(self, key, value):
        self.notes[key] = value

    # oracle -----------------------------------------------------------------------------------------
    def fail(self, clause, msg=""):
        if callable(msg):
            msg = msg()
        if clause in self.suppressed:
            self.suppressed_hits[clause] += 1
            return
        raise Violation(clause, msg)

    def check(self, cond, clause, msg=""):
        if not cond:
            if callable(msg):
                msg = msg()
            self.fail(clause, msg)
        return bool(cond)

    def known(self, key, cond=True):
        """True when `cond` (an input-side signature) holds and finding `key` is listed as *known* (not fixed).

        The caller then skips exactly the clause the finding is about; the skip is counted.  For a finding
        that is not listed, or listed as fixed, this returns False and the clause is asserted.
        """
        if cond and key in self.known_keys:
            self.excluded[key] += 1
            return True
        return False


class SubCheck:
    def __init__(self, name, fn, strategy=None, quick=200, thorough=2000, rule="", cases=None,
                 shards_quick=1, shards_thorough=16, required_labels=(), doc="", shrink_s=None, max_rounds=None):
        self.name = name
        self.fn = fn
        self.strategy = strategy
        self.quick = quick              # examples per shard, quick tier
        self.thorough = thorough        # examples per shard, thorough tier
        self.rule = rule
        self.cases = cases              # callable(tier) -> iterable of cases; finite enumeration instead of a strategy
        self.shards_quick = shards_quick
        self.shards_thorough = shards_thorough
        self.required_labels = tuple(required_labels)
        self.doc = doc
        self.shrink_s = shrink_s        # seconds of shrinking per violation clause (None = runner default per tier)
        self.max_rounds = max_rounds    # search rounds behind already-recorded clauses (None = runner default)


class GlobalStreams:
    """Save / restore the process-global random streams around a case so cases cannot leak into each other."""

    def __enter__(self):
        self.py = _py_random.getstate()
        self.np = numpy.random.get_state()
        return self

    def __exit__(self, *a):
        _py_random.setstate(self.py)
        numpy.random.set_state(self.np)
        return False
