"""Shared strategies (JSON-able case fragments) and deterministic builders of pybrops objects from them."""
import math

import numpy
from hypothesis import strategies as st

from pbt import compat  # noqa: F401

from pybrops.popgen.gmat.DensePhasedGenotypeMatrix import DensePhasedGenotypeMatrix
from pybrops.popgen.gmat.DenseGenotypeMatrix import DenseGenotypeMatrix


# ----------------------------------------------------------------------------------------------------------
# variant (marker) layouts
# ----------------------------------------------------------------------------------------------------------
XO_SPECIAL = [0.0, 0.5, 1e-12, 0.25, 0.1, 0.4]


@st.composite
def xoprob_free(draw, p):
    """crossover probabilities, each entry from {0, 0.5, tiny, U(0,0.5)} -- exact 0 and 0.5 forced often"""
    out = []
    for _ in range(p):
        out.append(draw(st.one_of(st.sampled_from(XO_SPECIAL),
                                  st.floats(0.0, 0.5, allow_nan=False, allow_infinity=False))))
    return out


@st.composite
def variant_layout(draw, p, max_chr=4, xoprob="free"):
    """chromosome runs (sorted labels, possibly non-contiguous), increasing positions, optional arrays"""
    nchr = draw(st.integers(1, min(max_chr, p)))
    # run lengths >= 1 by construction: choose nchr-1 distinct cut points
    cuts = sorted(draw(st.lists(st.integers(1, p - 1), min_size=nchr - 1, max_size=nchr - 1, unique=True))) if p > 1 else []
    bounds = [0] + cuts + [p]
    runs = [bounds[i + 1] - bounds[i] for i in range(len(bounds) - 1)]
    labels = sorted(draw(st.lists(st.integers(1, 30), min_size=len(runs), max_size=len(runs), unique=True)))
    chrgrp, phypos, genpos = [], [], []
    for lab, r in zip(labels, runs):
        pos = 0
        g = 0.0
        for _ in range(r):
            pos += draw(st.integers(1, 1000))
            g += draw(st.sampled_from([0.0, 0.001, 0.01, 0.1, 0.5, 1.3]))
            chrgrp.append(lab)
            phypos.append(pos)
            genpos.append(g)
    lay = {"chrgrp": chrgrp, "phypos": phypos, "genpos": genpos}
    if xoprob == "free":
        lay["xoprob"] = draw(xoprob_free(p))
    lay["has_name"] = draw(st.booleans())
    lay["has_genpos"] = draw(st.booleans())
    lay["has_hap"] = draw(st.booleans())
    lay["has_mask"] = draw(st.booleans())
    lay["grouped"] = draw(st.booleans())
    return lay


def layout_arrays(lay):
    p = len(lay["chrgrp"])
    kw = {
        "vrnt_chrgrp": numpy.array(lay["chrgrp"], dtype="int64"),
        "vrnt_phypos": numpy.array(lay["phypos"], dtype="int64"),
    }
    if lay.get("xoprob") is not None:
        kw["vrnt_xoprob"] = numpy.array(lay["xoprob"], dtype="float64")
    if lay.get("has_genpos"):
        kw["vrnt_genpos"] = numpy.array(lay["genpos"], dtype="float64")
    if lay.get("has_name"):
        kw["vrnt_name"] = numpy.array(["m%d_%d" % (c, q) for c, q in zip(lay["chrgrp"], lay["phypos"])], dtype=object)
    if lay.get("has_hap"):
        kw["vrnt_hapgrp"] = numpy.arange(p, dtype="int64") // 2
        kw["vrnt_hapalt"] = numpy.array(["ACGT"[i % 4] for i in range(p)], dtype=object)
        kw["vrnt_hapref"] = numpy.array(["TGCA"[i % 4] for i in range(p)], dtype=object)
    if lay.get("has_mask"):
        kw["vrnt_mask"] = numpy.array([(i % 3) != 0 for i in range(p)], dtype=bool)
    return kw


# ----------------------------------------------------------------------------------------------------------
# phased genotypes
# ----------------------------------------------------------------------------------------------------------
def tagged_geno(n, p):
    """(2,n,p) int8, entry = founder haplotype id 2*taxon+phase, constant along markers (n <= 63)"""
    assert n <= 63
    ids = numpy.arange(2 * n, dtype="int8").reshape(n, 2).T     # [phase, taxon]
    return numpy.repeat(ids[:, :, None], p, axis=2).copy()


def wild_geno(n, p, cells):
    """(2,n,p) int8 from a flat list of ints (cycled), any int8 code"""
    a = numpy.zeros(2 * n * p, dtype="int64")
    if cells:
        reps = -(-a.size // len(cells))
        a = numpy.array((list(cells) * reps)[: a.size], dtype="int64")
    return a.astype("int8").reshape(2, n, p)


def build_pgmat(mat, lay, taxa_names=True, taxa_grp=None):
    n = mat.shape[1]
    kw = layout_arrays(lay)
    taxa = numpy.array(["t%03d" % i for i in range(n)], dtype=object) if taxa_names else None
    tg = numpy.array(taxa_grp, dtype="int64") if taxa_grp is not None else None
    g = DensePhasedGenotypeMatrix(mat=mat, taxa=taxa, taxa_grp=tg, **kw)
    if lay.get("grouped"):
        g.group_vrnt()
    return g


VRNT_FIELDS = ["vrnt_chrgrp", "vrnt_phypos", "vrnt_name", "vrnt_genpos", "vrnt_xoprob", "vrnt_hapgrp", "vrnt_hapalt",
               "vrnt_hapref", "vrnt_mask"]
VRNT_GRP_FIELDS = ["vrnt_chrgrp_name", "vrnt_chrgrp_stix", "vrnt_chrgrp_spix", "vrnt_chrgrp_len"]
TAXA_FIELDS = ["taxa", "taxa_grp"]
TAXA_GRP_FIELDS = ["taxa_grp_name", "taxa_grp_stix", "taxa_grp_spix", "taxa_grp_len"]


def snapshot(obj, fields):
    out = {}
    for f in fields:
        v = getattr(obj, f, None)
        out[f] = None if v is None else numpy.array(v, copy=True)
    return out


def same_array(a, b):
    if a is None or b is None:
        return a is None and b is None
    a = numpy.asarray(a)
    b = numpy.asarray(b)
    if a.shape != b.shape or a.dtype.kind != b.dtype.kind:
        return False
    if a.dtype.kind == "f":
        return bool(numpy.array_equal(a, b, equal_nan=True))
    return bool((a == b).all())


def diff_snapshot(snap, obj):
    """names of fields whose value differs from the snapshot"""
    bad = []
    for f, v in snap.items():
        if not same_array(v, getattr(obj, f, None)):
            bad.append(f)
    return bad


# ----------------------------------------------------------------------------------------------------------
# random generators consumed by pybrops, built deterministically from the case
# ----------------------------------------------------------------------------------------------------------
class ScriptedRandomState(numpy.random.RandomState):
    """RandomState whose uniform() replays Hypothesis-chosen values (passes pybrops' rng type checks).

    script: list of [kind, value]; for a request of shape (g, p) cell (i, j) takes script[(i*p+j) % len]:
      kind 0 -> 0.0 ; 1 -> thr[j] ; 2 -> nextafter(thr[j], -inf) (or 0.0) ; 3 -> nextafter(thr[j], +inf) ;
      4 -> 1 - 2**-53 ; 5 -> value (a float in [0,1))
    thr = the crossover probability vector (the thresholds the draws are compared with).
    """

    def __init__(self, script, thr):
        numpy.random.RandomState.__init__(self, 0)
        self._script = script
        self._thr = numpy.asarray(thr, dtype="float64")
        self.ncalls = 0

    def uniform(self, low=0.0, high=1.0, size=None):
        self.ncalls += 1
        if size is None:
            shape = ()
        elif isinstance(size, (int, numpy.integer)):
            shape = (int(size),)
        else:
            shape = tuple(size)
        tot = int(numpy.prod(shape)) if shape else 1
        p = shape[-1] if shape else 1
        out = numpy.empty(tot, dtype="float64")
        L = len(self._script)
        for q in range(tot):
            kind, val = self._script[q % L]
            j = q % p
            t = float(self._thr[j % len(self._thr)]) if len(self._thr) else 0.5
            if kind == 0:
                x = 0.0
            elif kind == 1:
                x = t
            elif kind == 2:
                x = float(numpy.nextafter(t, -numpy.inf)) if t > 0.0 else 0.0
            elif kind == 3:
                x = float(numpy.nextafter(t, numpy.inf))
            elif kind == 4:
                x = 1.0 - 2.0 ** -53
            else:
                x = float(val)
            if not (0.0 <= x < 1.0):
                x = min(max(x, 0.0), 1.0 - 2.0 ** -53)
            out[q] = low + (high - low) * x
        return out.reshape(shape) if shape else float(out[0])


@st.composite
def rng_spec(draw, scripted=True):
    kinds = ["default_rng", "RandomState"] + (["scripted"] if scripted else [])
    kind = draw(st.sampled_from(kinds))
    spec = {"kind": kind, "seed": draw(st.integers(0, 2 ** 32 - 1))}
    if kind == "scripted":
        spec["script"] = draw(st.lists(
            st.tuples(st.sampled_from([0, 1, 2, 3, 4, 5, 5]), st.floats(0.0, 0.999, allow_nan=False)).map(list),
            min_size=1, max_size=24))
    return spec


def build_rng(spec, thr=None):
    if spec["kind"] == "default_rng":
        return numpy.random.default_rng(spec["seed"])
    if spec["kind"] == "RandomState":
        return numpy.random.RandomState(spec["seed"])
    return ScriptedRandomState(spec["script"], thr if thr is not None else [0.5])


# ----------------------------------------------------------------------------------------------------------
# group-partition predicate (shared by C01 and C03)
# ----------------------------------------------------------------------------------------------------------
def partition_errors(labels, name, stix, spix, length):
    """Return a list of reasons why (name, stix, spix, len) is not a true contiguous partition of `labels`."""
    errs = []
    if labels is None or name is None or stix is None or spix is None or length is None:
        return ["metadata missing"]
    labels = list(numpy.asarray(labels).tolist())
    name = list(numpy.asarray(name).tolist())
    stix = list(numpy.asarray(stix).tolist())
    spix = list(numpy.asarray(spix).tolist())
    length = list(numpy.asarray(length).tolist())
    if not (len(name) == len(stix) == len(spix) == len(length)):
        return ["metadata arrays differ in length"]
    if len(labels) == 0:
        return [] if len(name) == 0 else ["groups on empty axis"]
    if sorted(set(labels)) != name:
        errs.append("names %s are not the sorted distinct labels %s" % (name, sorted(set(labels))))
    if len(name) and stix[0] != 0:
        errs.append("stix[0]=%s" % stix[0])
    if len(name) and spix[-1] != len(labels):
        errs.append("spix[-1]=%s len=%d" % (spix[-1], len(labels)))
    for g in range(len(name)):
        if length[g] != spix[g] - stix[g] or length[g] <= 0:
            errs.append("len[%d]=%s stix=%s spix=%s" % (g, length[g], stix[g], spix[g]))
        if g + 1 < len(name) and spix[g] != stix[g + 1]:
            errs.append("spix[%d]!=stix[%d]" % (g, g + 1))
        seg = labels[stix[g]:spix[g]]
        if any(x != name[g] for x in seg):
            errs.append("labels in [%s,%s) are %s, not all %s" % (stix[g], spix[g], seg, name[g]))
    return errs
