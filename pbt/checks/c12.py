"""C12 -- predicted progeny (co)variances equal the exact variance of the cross's gametes.

Oracle: ``pbt.oracles.pedigree2`` -- exhaustive enumeration of the cross schemes exactly as the mating protocols
(``pybrops/breed/prot/mate``) perform them: a two-locus label-tracking enumerator for any selfing depth (incl. the
limit) and a full multi-locus gamete enumerator; neither uses the closed-form linkage terms D1/D2 of the library.

Sub-checks
  genetic     all eight ``from_algmod``/``from_gmod``/factory entry points of the genetic variance (vmat) and progeny
              genetic covariance (pcvmat) classes, every parent index tuple, vs. the two-locus enumeration; labels,
              symmetry in exchangeable parents, zero for identical parents, ``mem`` invariance, taxa equivariance.
  multilocus  the same matrices vs. the *multi-locus* enumeration of all crossover patterns with the crossover
              probabilities the mating protocols would use (nself = 0 up to 8 markers, nself 1..2 for <= 4 markers).
  genic       genic variance classes (+ the two-way factory) vs. the enumeration with linkage ignored.
  uc          usefulness-criterion matrices of the four UC mate-selection problem classes.
  reuse       histories on ONE factory / model / genotype-matrix object: requests through every entry point interleaved
              with changes made through public setters and in-place methods; every answer vs. the enumeration for the
              objects' content at the time of the request (no stale or remembered results).
  util        ``rprob_filial``, ``cov_D1s``, ``cov_D2s``, ``cov_D1st``, ``cov_D2st`` vs. enumerated pedigrees.
  longchrom   a chromosome of 200-600 markers (optionally flanked by short ones); the number of heterozygous markers of a
              dihybrid parent / of markers at which two inbred parents differ inside ONE memory chunk is forced to values
              at and around multiples of 128 and 256 (the ranges of 8-bit counters).  Every parent tuple vs. the pairwise
              closed form  4 * sum_ij u_i Cov(x_i, x_j) u_j  whose Cov(x_i, x_j) come from the two-locus enumeration
              (one enumeration per distinct map distance; positions on a 2^-8 Morgan grid), and ``mem`` invariance.
"""
import itertools
import math
import statistics

import numpy
from hypothesis import strategies as st

from pbt import compat  # noqa: F401
from pbt.core import SubCheck
from pbt.oracles import pedigree2 as P

from pybrops.popgen.gmat.DensePhasedGenotypeMatrix import DensePhasedGenotypeMatrix
from pybrops.model.gmod.DenseAdditiveLinearGenomicModel import DenseAdditiveLinearGenomicModel
from pybrops.popgen.gmap.HaldaneMapFunction import HaldaneMapFunction
from pybrops.model.vmat import util as vutil
from pybrops.model.vmat.DenseTwoWayDHAdditiveGeneticVarianceMatrix import DenseTwoWayDHAdditiveGeneticVarianceMatrix
from pybrops.model.vmat.DenseThreeWayDHAdditiveGeneticVarianceMatrix import DenseThreeWayDHAdditiveGeneticVarianceMatrix
from pybrops.model.vmat.DenseFourWayDHAdditiveGeneticVarianceMatrix import DenseFourWayDHAdditiveGeneticVarianceMatrix
from pybrops.model.vmat.DenseDihybridDHAdditiveGeneticVarianceMatrix import DenseDihybridDHAdditiveGeneticVarianceMatrix
from pybrops.model.vmat.DenseTwoWayDHAdditiveGenicVarianceMatrix import DenseTwoWayDHAdditiveGenicVarianceMatrix
from pybrops.model.vmat.DenseThreeWayDHAdditiveGenicVarianceMatrix import DenseThreeWayDHAdditiveGenicVarianceMatrix
from pybrops.model.vmat.DenseFourWayDHAdditiveGenicVarianceMatrix import DenseFourWayDHAdditiveGenicVarianceMatrix
from pybrops.model.vmat.DenseDihybridDHAdditiveGenicVarianceMatrix import DenseDihybridDHAdditiveGenicVarianceMatrix
from pybrops.model.pcvmat.DenseTwoWayDHAdditiveProgenyGeneticCovarianceMatrix import \
    DenseTwoWayDHAdditiveProgenyGeneticCovarianceMatrix
from pybrops.model.pcvmat.DenseThreeWayDHAdditiveProgenyGeneticCovarianceMatrix import \
    DenseThreeWayDHAdditiveProgenyGeneticCovarianceMatrix
from pybrops.model.pcvmat.DenseFourWayDHAdditiveProgenyGeneticCovarianceMatrix import \
    DenseFourWayDHAdditiveProgenyGeneticCovarianceMatrix
from pybrops.model.pcvmat.DenseDihybridDHAdditiveProgenyGeneticCovarianceMatrix import \
    DenseDihybridDHAdditiveProgenyGeneticCovarianceMatrix
from pybrops.model.vmat.fcty.DenseTwoWayDHAdditiveGeneticVarianceMatrixFactory import \
    DenseTwoWayDHAdditiveGeneticVarianceMatrixFactory
from pybrops.model.vmat.fcty.DenseThreeWayDHAdditiveGeneticVarianceMatrixFactory import \
    DenseThreeWayDHAdditiveGeneticVarianceMatrixFactory
from pybrops.model.vmat.fcty.DenseFourWayDHAdditiveGeneticVarianceMatrixFactory import \
    DenseFourWayDHAdditiveGeneticVarianceMatrixFactory
from pybrops.model.vmat.fcty.DenseDihybridDHAdditiveGeneticVarianceMatrixFactory import \
    DenseDihybridDHAdditiveGeneticVarianceMatrixFactory
from pybrops.model.vmat.fcty.DenseTwoWayDHAdditiveGenicVarianceMatrixFactory import \
    DenseTwoWayDHAdditiveGenicVarianceMatrixFactory
from pybrops.breed.prot.sel.prob.UsefulnessCriterionSelectionProblem import (
    UsefulnessCriterionSubsetMateSelectionProblem, UsefulnessCriterionRealMateSelectionProblem,
    UsefulnessCriterionBinaryMateSelectionProblem, UsefulnessCriterionIntegerMateSelectionProblem)
from pybrops.breed.prot.sel.UsefulnessCriterionSelection import (
    UsefulnessCriterionSubsetSelection, UsefulnessCriterionRealSelection,
    UsefulnessCriterionBinarySelection, UsefulnessCriterionIntegerSelection)

ASSUMPTIONS = [
    "alleles are coded 0/1 per chromosome copy; two-/three-/four-way parents are inbred (both phases equal), dihybrid "
    "parents are arbitrary phased genotypes; markers are supplied sorted by chromosome and position and grouped with "
    "group_vrnt() as from_algmod requires",
    "genetic positions are in Morgans, map function = HaldaneMapFunction; crossover probabilities of the mating "
    "protocols are 0.5 at the first marker of a chromosome and Haldane(distance to the previous marker) elsewhere",
    "the progeny variance of a cross is the variance of the genotypic value of ONE doubled-haploid progeny drawn from "
    "the scheme (infinite family); nself = inf is the limit of repeated selfing",
    "every parent index tuple is in the domain, including tuples that repeat a parent (R x (F x F) is a legal "
    "ThreeWayDHCross configuration and UC problems with unique_parents=False read exactly those entries)",
    "progeny genic covariance classes (pybrops/model/pcvmat/*Genic*) are not anchors of C12 and cannot be "
    "instantiated (abstract methods missing); they are not exercised",
    "reuse: a request is answered for the content the genomic model and the genotype matrix have at the moment of the "
    "request; changes made between two requests through public setters (u_a, beta, mat, vrnt_genpos), in-place methods "
    "(reorder_taxa, sort_taxa, group_taxa, remove_taxa) or writes into the arrays these objects expose are changes of "
    "the input ('for all sets of parents and marker effects ... all matrix classes and their factories')",
    "comparison tolerance 1e-11 * S + 1e-300 with S = 4 * (sum_i |u_i^a|) * (sum_i |u_i^b|), the sum of absolute values of all terms",
    "longchrom: chromosomes of 200-600 markers are ordinary inputs (real marker panels carry thousands per chromosome); a "
    "'memory chunk' is a run of `mem` consecutive markers counted from the start of a chromosome (the whole chromosome for "
    "mem=None) -- used only to place heterozygous / differing markers, nothing is asserted about chunks; the exact value is "
    "4 * sum_ij u_i Cov(x_i,x_j) u_j' (variance of a sum), each Cov(x_i,x_j) from the two-locus enumeration at r_ij",
]

SCHEMES = ("two", "three", "four", "dihybrid")
NPARENT = {"two": 2, "three": 3, "four": 4, "dihybrid": 2}
EPGC = {"two": (0.5, 0.5), "three": (0.5, 0.25, 0.25), "four": (0.25, 0.25, 0.25, 0.25), "dihybrid": (0.5, 0.5)}

VMAT = {"two": DenseTwoWayDHAdditiveGeneticVarianceMatrix, "three": DenseThreeWayDHAdditiveGeneticVarianceMatrix,
        "four": DenseFourWayDHAdditiveGeneticVarianceMatrix, "dihybrid": DenseDihybridDHAdditiveGeneticVarianceMatrix}
PCVMAT = {"two": DenseTwoWayDHAdditiveProgenyGeneticCovarianceMatrix,
          "three": DenseThreeWayDHAdditiveProgenyGeneticCovarianceMatrix,
          "four": DenseFourWayDHAdditiveProgenyGeneticCovarianceMatrix,
          "dihybrid": DenseDihybridDHAdditiveProgenyGeneticCovarianceMatrix}
GENIC = {"two": DenseTwoWayDHAdditiveGenicVarianceMatrix, "three": DenseThreeWayDHAdditiveGenicVarianceMatrix,
         "four": DenseFourWayDHAdditiveGenicVarianceMatrix, "dihybrid": DenseDihybridDHAdditiveGenicVarianceMatrix}
FCTY = {"two": DenseTwoWayDHAdditiveGeneticVarianceMatrixFactory, "three": DenseThreeWayDHAdditiveGeneticVarianceMatrixFactory,
        "four": DenseFourWayDHAdditiveGeneticVarianceMatrixFactory,
        "dihybrid": DenseDihybridDHAdditiveGeneticVarianceMatrixFactory}
UCPROB = {"subset": UsefulnessCriterionSubsetMateSelectionProblem, "real": UsefulnessCriterionRealMateSelectionProblem,
          "binary": UsefulnessCriterionBinaryMateSelectionProblem, "integer": UsefulnessCriterionIntegerMateSelectionProblem}

UCPROT = {"subset": UsefulnessCriterionSubsetSelection, "real": UsefulnessCriterionRealSelection,
          "binary": UsefulnessCriterionBinarySelection, "integer": UsefulnessCriterionIntegerSelection}

# known findings (see /verif/known_findings.d/C12.json, /verif/proposed_fixes/F-C12-*.md)
K_DIAG = "F-C12-a"      # entries whose last two parents coincide are never computed (three-/four-way, dihybrid)
K_TRAIT = "F-C12-b"     # trait labels dropped by three-/four-way/dihybrid from_algmod
K_GENIC_DIAG = "F-C12-c"  # genic diagonal is uninitialised memory (numpy.empty)
K_GENIC_34 = "F-C12-d"  # three-/four-way genic from_algmod always raises IndexError
K_PCV_4D = "F-C12-e"    # four-way / dihybrid progeny covariance from_algmod always raise
K_UC_NAN = "F-C12-f"    # UC = NaN when a zero variance comes out as -1e-17 (effects cancelling at fully linked markers)

RTOL = 1e-11
ATOL = 1e-300          # products of denormal-range effects (|u| ~ 1e-160) lose relative precision; irrelevant otherwise


# =====================================================================================================================
# generators
# =====================================================================================================================
_eff = st.one_of(st.sampled_from([0.0, 1.0, -1.0, 0.5, -2.0, 1e-3, 1e3]),
                 st.floats(-3.0, 3.0, allow_nan=False, allow_infinity=False))
_inc = st.one_of(st.sampled_from([0.0, 0.0, 1e-9, 0.01, 0.05, 0.1, 0.25, 0.5, 1.0, 3.0, 20.0]),
                 st.floats(0.0, 1.5, allow_nan=False))
_nself = st.sampled_from([0, 0, 1, 2, 3, 5, "inf"])
_mem = st.sampled_from([1, 2, 3, None, 1024])


@st.composite
def population(draw, scheme, nmax, pmax, pmin=2, tmax=3, nmin=2):
    """case fragment: taxa, chromosome layout, genetic positions, phased alleles, effects"""
    n = draw(st.integers(nmin, nmax))
    p = draw(st.one_of(st.integers(pmin, pmax), st.integers(max(pmin, pmax - 2), pmax), st.just(pmax)))
    nchr = draw(st.integers(1, min(3, p)))
    cuts = sorted(draw(st.lists(st.integers(1, p - 1), min_size=nchr - 1, max_size=nchr - 1, unique=True))) if nchr > 1 else []
    runs = [b - a for a, b in zip([0] + cuts, cuts + [p])]
    labels = sorted(draw(st.lists(st.integers(1, 30), min_size=len(runs), max_size=len(runs), unique=True)))
    genpos = []
    for rl in runs:
        pos = draw(st.sampled_from([0.0, 0.0, 0.3, 1.7]))
        for k in range(rl):
            if k > 0:
                pos = pos + draw(_inc)
            genpos.append(pos)
    geno0, geno1 = [], []
    for i in range(n):
        how = draw(st.sampled_from(["new", "new", "new", "copy"])) if i > 0 else "new"
        if how == "copy":
            k = draw(st.integers(0, i - 1))
            geno0.append(list(geno0[k]))
            geno1.append(list(geno1[k]))
            continue
        h0 = draw(st.lists(st.integers(0, 1), min_size=p, max_size=p))
        if scheme == "dihybrid":
            kind = draw(st.sampled_from(["random", "random", "inbred", "complement"]))
            if kind == "random":
                h1 = draw(st.lists(st.integers(0, 1), min_size=p, max_size=p))
            elif kind == "inbred":
                h1 = list(h0)
            else:
                h1 = [1 - a for a in h0]
        else:
            h1 = list(h0)
        geno0.append(h0)
        geno1.append(h1)
    t = draw(st.integers(1, tmax))
    u = [[draw(_eff) for _ in range(t)] for _ in range(p)]
    if t > 1 and draw(st.integers(0, 9)) == 0:
        for row in u:
            row[0] = 0.0                      # all-zero trait column
    return {
        "scheme": scheme, "n": n, "runs": runs, "chr_labels": labels, "genpos": genpos,
        "geno0": geno0, "geno1": geno1, "u": u,
        "beta": [draw(st.sampled_from([0.0, 1.5, -7.25, 100.0])) for _ in range(t)],
        "taxa_named": draw(st.booleans()), "grouped_taxa": draw(st.booleans()), "trait_named": draw(st.booleans()),
        # the genetic map need not run in the direction of the stored (physical) marker order: a linkage group oriented
        # against the assembly, or a local inversion.  Only the pairwise distances |g_i - g_j| enter the property.
        # unit of measurement of the trait: all marker effects times a power of two (exact), so that variances of order
        # 1e-12 .. 1e-24 (and 1e+18) occur; every tolerance of the oracle is relative
        "u_unit_exp": draw(st.sampled_from([0, 0, 0, 0, -17, -20, -40, 30])),
        "genpos_order": draw(st.sampled_from(["ascending", "ascending", "descending", "shuffled", "shuffled"])),
        "genpos_seed": draw(st.integers(0, 2 ** 16)),
    }


def _nmax(scheme, big):
    return {"two": 6, "three": 5 if big else 4, "four": 4 if big else 3, "dihybrid": 6}[scheme]


@st.composite
def genetic_case(draw):
    scheme = draw(st.sampled_from(["two", "three", "three", "four", "four", "dihybrid", "dihybrid"]))
    big = draw(st.integers(0, 5)) == 0
    pop = draw(population(scheme, _nmax(scheme, big), 8 if scheme in ("two", "dihybrid") or not big else 6))
    kind = draw(st.sampled_from(["vmat", "vmat", "pcvmat"]))
    if kind == "pcvmat" and scheme in ("four", "dihybrid") and draw(st.integers(0, 3)) != 0:
        kind = "vmat"                           # those two classes cannot be built at all (F-C12-e): keep them rare
    entry = draw(st.sampled_from(["algmod", "gmod", "fcty_gmod", "fcty_algmod"] if kind == "vmat" else ["algmod", "gmod"]))
    n = pop["n"]
    pop.update({
        "kind": kind, "entry": entry, "nself": draw(_nself), "mem": draw(_mem), "mem2": draw(_mem),
        "nmating": draw(st.integers(1, 5)), "nprogeny": draw(st.integers(1, 80)),
        "perm": draw(st.one_of(st.none(), st.permutations(list(range(n))))),
    })
    return pop


@st.composite
def multilocus_case(draw):
    scheme = draw(st.sampled_from(SCHEMES))
    nself = draw(st.sampled_from([0, 0, 0, 1, 2]))
    if nself == 0:
        pmax = {"two": 8, "three": 7, "four": 5, "dihybrid": 5}[scheme]
    else:
        pmax = {"two": 4, "three": 4, "four": 3, "dihybrid": 3}[scheme] if nself == 1 else 3
    pop = draw(population(scheme, {"two": 5, "three": 4, "four": 3, "dihybrid": 4}[scheme], pmax, tmax=2))
    pop["genpos_order"] = "ascending"      # the gamete enumerator of this sub-check is a chain along the stored order
    k = NPARENT[scheme]
    pop.update({
        "kind": draw(st.sampled_from(["vmat", "vmat", "pcvmat"])) if scheme in ("two", "three") else "vmat",
        "nself": nself, "mem": draw(_mem),
        "tuples": draw(st.lists(st.lists(st.integers(0, 50), min_size=k, max_size=k), min_size=2, max_size=6)),
    })
    return pop


@st.composite
def genic_case(draw):
    scheme = draw(st.sampled_from(["two", "two", "dihybrid", "dihybrid", "three", "four"]))
    pop = draw(population(scheme, {"two": 6, "three": 3, "four": 3, "dihybrid": 6}[scheme], 8, pmin=1))
    pop.update({
        "entry": draw(st.sampled_from(["algmod", "gmod", "fcty_gmod", "fcty_algmod"] if scheme == "two" else ["algmod", "gmod"])),
        "nprogeny": draw(st.integers(1, 80)), "mem": draw(st.sampled_from([1, 2, 1000, 1024])),
    })
    return pop


def _make_cancelling(draw, pop):
    """rewrite a population so that taxa 0 and 1 differ at every marker of ONE chromosome of coincident markers whose
    effects sum to (float) zero: the cross 0 x 1 segregates, yet its genetic variance is 0 up to rounding"""
    p = len(pop["genpos"])
    pop["runs"], pop["chr_labels"] = [p], pop["chr_labels"][:1]
    pop["genpos"] = [pop["genpos"][0]] * p
    dec = [0.1, 0.2, -0.3, 0.7, -0.7, 1.1, -1.3, 0.3, -0.1, -0.2]
    t = len(pop["u"][0])
    rng = numpy.random.default_rng(draw(st.integers(0, 2 ** 31 - 1)))      # values are stored in the case
    for a in range(t):
        vals = [float(x) for x in rng.choice(dec, size=p - 1)]
        for i in range(p - 1):
            pop["u"][i][a] = vals[i]
        pop["u"][p - 1][a] = -math.fsum(vals)                              # correctly rounded: residual != 0
    pop["geno0"][0], pop["geno1"][0] = [1] * p, [1] * p
    pop["geno0"][1], pop["geno1"][1] = [0] * p, [0] * p
    pop["cancelling"] = True


@st.composite
def uc_case(draw):
    scheme = draw(st.sampled_from(SCHEMES))
    cancel = draw(st.integers(0, 4)) == 0
    pop = draw(population(scheme, {"two": 5, "three": 4, "four": 5, "dihybrid": 5}[scheme], 8 if cancel else 6,
                          pmin=6 if cancel else 2, nmin=NPARENT[scheme] if scheme != "four" else 3))
    if cancel:
        _make_cancelling(draw, pop)
    pop.update({
        "problem": draw(st.sampled_from(["subset", "real", "binary", "integer"])),
        "unique_parents": draw(st.booleans()),
        "upper_percentile": draw(st.one_of(st.sampled_from([0.1, 0.05, 0.5, 1.0, 0.01]), st.floats(1e-4, 1.0))),
        "nself": draw(st.sampled_from([0, 0, 1, 2, 4])),
        "ncross": draw(st.integers(1, 3)), "nprogeny": draw(st.integers(1, 80)),
        # route: the Problem constructor directly, or the selection protocol's problem() with the breeding-value
        # matrix every protocol call carries: none / the model's own GEBVs in the candidates' order / the same
        # GEBVs held in another taxa order (labels moved with the rows)
        "via": draw(st.sampled_from(["problem", "protocol", "protocol"])),
        "bvmat": draw(st.sampled_from(["none", "gebv", "gebv_reordered", "gebv_reordered"])),
        "bv_perm_seed": draw(st.integers(0, 2 ** 16)),
    })
    return pop


@st.composite
def util_case(draw):
    rs = draw(st.lists(st.one_of(st.sampled_from([0.0, 0.5, 1e-12, 0.25, 0.1, 0.499999]), st.floats(0.0, 0.5)),
                       min_size=1, max_size=5))
    return {"r": rs, "nself": draw(st.sampled_from([0, 1, 2, 3, 4, 6, 9, "inf"])), "t": draw(st.integers(0, 5)),
            "neg": draw(st.integers(-5, -1)), "shape2d": draw(st.booleans())}


# ---- long chromosomes: counts of heterozygous / differing markers inside one memory chunk at 8-bit counter boundaries ----
_LONG_COUNTS = (127, 128, 129, 255, 256, 257, 383, 384, 385, 511, 512, 513)
_LONG_NMAX = {"two": 4, "three": 3, "four": 3, "dihybrid": 3}
_LONG_GRID = 256                   # genetic positions are integer multiples of 1/256 Morgan (exact in binary floating point)


@st.composite
def longchrom_case(draw):
    """only sizes, counts and ONE integer seed are drawn; check_longchrom expands them deterministically (a case holds
    up to 6 x 600 alleles -- far beyond what Hypothesis can draw element by element)"""
    scheme = draw(st.sampled_from(["dihybrid", "dihybrid", "two", "three", "four"]))
    p_long = draw(st.one_of(st.integers(200, 600), st.sampled_from([256, 257, 300, 512, 513, 600])))
    mem = draw(st.sampled_from([None, 1024, 1024, 1024, 128, 256, 300, 512]))
    width = p_long if mem is None else min(mem, p_long)                # markers per chunk of the long chromosome
    counts = [c for c in _LONG_COUNTS if c <= width]
    exact = [c for c in counts if c % 256 == 0] or [c for c in counts if c % 128 == 0]
    n = draw(st.integers(2, _LONG_NMAX[scheme]))
    taxa = []
    for i in range(n):
        how = draw(st.sampled_from(["count", "count", "count", "random", "inbred_or_copy"])) if i > 0 else "count"
        taxa.append({
            "how": how,
            # number of heterozygous markers (dihybrid) / markers differing from the base parent (inbred schemes) in the chunk
            "count": draw(st.sampled_from(exact)) if draw(st.booleans()) else draw(st.sampled_from(counts)),
            "outside": draw(st.sampled_from(["same", "same", "random"])),      # the rest of the genome
            "base": draw(st.integers(0, 5)),
        })
    kind = draw(st.sampled_from(["vmat", "vmat", "pcvmat"]))
    return {
        "scheme": scheme, "kind": kind, "entry": draw(st.sampled_from(["algmod", "algmod", "gmod"])),
        "p_long": p_long, "p_before": draw(st.sampled_from([0, 0, 1, 3, 6])), "p_after": draw(st.sampled_from([0, 0, 2, 5])),
        "mem": mem, "mem2": draw(st.sampled_from([100, 100, 97, 255, 256, 64, None])),
        "chunk": draw(st.integers(0, 4)), "taxa": taxa,
        "nself": draw(st.sampled_from([0, 0, 1, 2, 3, "inf"])),
        "ntrait": draw(st.integers(1, 2)), "effects": draw(st.sampled_from(["dense", "dense", "sparse", "small_integers"])),
        "genpos_order": draw(st.sampled_from(["ascending", "ascending", "ascending", "descending", "shuffled"])),
        "nmating": draw(st.integers(1, 3)), "nprogeny": draw(st.integers(1, 80)),
        "taxa_named": draw(st.booleans()), "trait_named": draw(st.booleans()),
        "seed": draw(st.integers(0, 2 ** 31 - 1)),
    }


# ---- histories: the same factory / model / genotype objects used again after being changed through their public API ----
_VIAS_FCTY = ["fcty_gmod_plain", "fcty_gmod_plain", "fcty_gmod_plain", "fcty_gmod_mem", "fcty_algmod", "fcty_algmod",
              "cls_gmod", "cls_algmod", "uc", "uc"]
_VIAS_GENIC_FCTY = ["fcty_gmod_plain", "fcty_gmod_plain", "fcty_gmod_mem", "fcty_algmod", "cls_gmod", "cls_algmod"]
_VIAS_CLS = ["cls_gmod", "cls_algmod"]
_REUSE_NMAX = {"two": 4, "three": 3, "four": 3, "dihybrid": 4}


@st.composite
def _reuse_mod(draw, scheme, p, t, nmax, order_only=False):
    if order_only:
        name = draw(st.sampled_from(["reorder_taxa", "reorder_taxa", "reorder_taxa", "sort_taxa", "group_taxa"]))
    else:
        name = draw(st.sampled_from(["set_u", "set_u", "scale_u", "poke_u", "set_beta", "reorder_taxa", "reorder_taxa",
                                     "sort_taxa", "group_taxa", "set_mat", "poke_mat", "remove_taxa", "set_genpos", "nself"]))
    if name == "set_u":
        return [name, [[draw(_eff) for _ in range(t)] for _ in range(p)]]
    if name == "scale_u":
        return [name, draw(st.sampled_from([-1.0, 2.0, 0.5, 1e-3, 3.0]))]
    if name == "poke_u":
        return [name, draw(st.integers(0, 50)), draw(st.integers(0, 50)), draw(_eff)]
    if name == "set_beta":
        return [name, [draw(st.sampled_from([0.0, 1.5, -7.25, 100.0])) for _ in range(t)]]
    if name == "reorder_taxa":
        return [name, draw(st.lists(st.integers(0, 9), min_size=nmax, max_size=nmax))]
    if name == "set_mat":
        return [name, draw(st.integers(0, 50)), draw(st.lists(st.integers(0, 1), min_size=p, max_size=p)),
                draw(st.lists(st.integers(0, 1), min_size=p, max_size=p))]
    if name == "poke_mat":
        return [name, draw(st.integers(0, 50)), draw(st.integers(0, 50)), draw(st.booleans())]
    if name == "remove_taxa":
        return [name, draw(st.integers(0, 50))]
    if name == "set_genpos":
        return [name, draw(st.sampled_from([0.0, 0.3, 1.7])), [draw(_inc) for _ in range(p)]]
    if name == "nself":
        return [name, draw(st.sampled_from([0, 1, 2, 3]))]
    return [name]


@st.composite
def reuse_case(draw):
    family = draw(st.sampled_from(["vmat", "vmat", "vmat", "genic", "pcvmat"]))
    if family == "vmat":
        scheme = draw(st.sampled_from(["two", "two", "three", "four", "dihybrid"]))
        vias = _VIAS_FCTY
    elif family == "genic":
        scheme = draw(st.sampled_from(["two", "two", "two", "dihybrid", "three", "four"]))
        vias = _VIAS_GENIC_FCTY if scheme == "two" else _VIAS_CLS
    else:
        scheme = draw(st.sampled_from(SCHEMES))
        vias = _VIAS_CLS
    nmax = _REUSE_NMAX[scheme]
    pop = draw(population(scheme, nmax, 5 if scheme == "four" else 6, tmax=2))
    p, t = len(pop["genpos"]), len(pop["beta"])
    primary = draw(st.sampled_from(vias))
    rounds = []
    for r in range(draw(st.integers(2, 4))):
        via = primary if draw(st.integers(0, 3)) != 0 else draw(st.sampled_from(vias))
        nmods = 0 if r == 0 else draw(st.sampled_from([0, 1, 1, 1, 2, 2, 3]))
        order_only = draw(st.integers(0, 3)) == 0          # only the order of the taxa changes before this request
        rounds.append({"mods": [draw(_reuse_mod(scheme, p, t, nmax, order_only)) for _ in range(nmods)], "via": via,
                       "mem": draw(_mem)})
    pop.update({
        "family": family, "rounds": rounds, "nself": draw(st.sampled_from([0, 0, 1, 2, 3, "inf"])),
        "nmating": draw(st.integers(1, 5)), "nprogeny": draw(st.integers(1, 80)),
        "problem": draw(st.sampled_from(["subset", "real", "binary", "integer"])),
        "unique_parents": draw(st.booleans()), "upper_percentile": draw(st.sampled_from([0.1, 0.05, 0.5, 0.01])),
    })
    return pop


# =====================================================================================================================
# builders
# =====================================================================================================================
def _inf(v):
    return math.inf if v == "inf" else int(v)


class Built:
    pass


def build(case, perm=None, rmat=True):
    b = Built()
    n = case["n"]
    geno = numpy.array([case["geno0"], case["geno1"]], dtype="int8")           # (2,n,p)
    p = geno.shape[2]
    chrgrp = numpy.repeat(numpy.array(case["chr_labels"], dtype="int64"), case["runs"])
    genpos = numpy.array(case["genpos"], dtype="float64")
    order = case.get("genpos_order", "ascending")
    if order != "ascending":
        st_ = 0
        rs = numpy.random.RandomState(case.get("genpos_seed", 0))
        for rl in case["runs"]:
            seg = genpos[st_:st_ + rl].copy()
            genpos[st_:st_ + rl] = seg[::-1] if order == "descending" else seg[rs.permutation(rl)]
            st_ += rl
    phypos = numpy.arange(1, p + 1, dtype="int64") * 100
    taxa = numpy.array(["tx%02d" % i for i in range(n)], dtype=object) if case["taxa_named"] else None
    taxa_grp = numpy.array([i // 2 for i in range(n)], dtype="int64") if case["grouped_taxa"] else None
    if perm is not None:
        perm = numpy.array(perm, dtype=int)
        geno = geno[:, perm, :]
        taxa = None if taxa is None else taxa[perm]
        taxa_grp = None if taxa_grp is None else taxa_grp[perm]
    pg = DensePhasedGenotypeMatrix(mat=geno.copy(), taxa=taxa, taxa_grp=taxa_grp, vrnt_chrgrp=chrgrp.copy(),
                                   vrnt_phypos=phypos, vrnt_genpos=genpos.copy())
    pg.group_vrnt()
    u = numpy.array(case["u"], dtype="float64").reshape(p, -1) * (2.0 ** int(case.get("u_unit_exp", 0)))
    t = u.shape[1]
    trait = numpy.array(["trait%d" % k for k in range(t)], dtype=object) if case["trait_named"] else None
    alg = DenseAdditiveLinearGenomicModel(beta=numpy.array([case["beta"]], dtype="float64"), u_misc=None, u_a=u.copy(),
                                          trait=trait)
    b.geno, b.chrgrp, b.genpos, b.u, b.t, b.n, b.p = geno, chrgrp, genpos, u, t, n, p
    b.taxa, b.taxa_grp, b.trait, b.pgmat, b.algmod = taxa, taxa_grp, trait, pg, alg
    b.rmat = P.rmat_from_genpos(chrgrp, genpos) if rmat else None             # O(p^2) python loop
    b.S = 4.0 * numpy.outer(numpy.abs(u).sum(0), numpy.abs(u).sum(0))          # (t,t) sum of |terms|
    return b


def call_genetic(scheme, kind, entry, b, nmating, nprogeny, nself, mem):
    gm = HaldaneMapFunction()
    if kind == "vmat":
        cls = VMAT[scheme]
        if entry == "algmod":
            return cls, cls.from_algmod(algmod=b.algmod, pgmat=b.pgmat, nmating=nmating, nprogeny=nprogeny, nself=nself,
                                        gmapfn=gm, mem=mem)
        if entry == "gmod":
            return cls, cls.from_gmod(gmod=b.algmod, pgmat=b.pgmat, nmating=nmating, nprogeny=nprogeny, nself=nself,
                                      gmapfn=gm, mem=mem)
        if entry == "fcty_gmod":
            return cls, FCTY[scheme]().from_gmod(gmod=b.algmod, pgmat=b.pgmat, ncross=nmating, nprogeny=nprogeny,
                                                 nself=nself, gmapfn=gm, mem=mem)
        return cls, FCTY[scheme]().from_algmod(algmod=b.algmod, pgmat=b.pgmat, ncross=nmating, nprogeny=nprogeny,
                                               nself=nself, gmapfn=gm, mem=mem)
    cls = PCVMAT[scheme]
    if entry == "algmod":
        return cls, cls.from_algmod(algmod=b.algmod, pgmat=b.pgmat, ncross=nmating, nprogeny=nprogeny, nself=nself,
                                    gmapfn=gm, mem=mem)
    return cls, cls.from_gmod(gmod=b.algmod, pgmat=b.pgmat, ncross=nmating, nprogeny=nprogeny, nself=nself,
                              gmapfn=gm, mem=mem)


def _same_labels(a, b):
    if a is None or b is None:
        return a is None and b is None
    return len(a) == len(b) and all(x == y for x, y in zip(a.tolist(), b.tolist()))


def _entry(mat, tup, kind, t):
    """(t,t) view of one parent tuple: pcvmat stores the matrix, vmat only its diagonal"""
    v = numpy.asarray(mat[tuple(tup)])
    return v if kind == "pcvmat" else numpy.diag(v)


def _cmp(got, ref, S, kind):
    """largest violation of |got-ref| <= RTOL*S  (vmat: diagonal only)"""
    if kind != "pcvmat":
        ref = numpy.diag(numpy.diag(ref))
    bad = numpy.abs(got - ref) - (RTOL * S + ATOL)
    return float(bad.max()) <= 0.0 and bool(numpy.isfinite(got).all())


def _has_variance(ref, S):
    """some trait's enumerated variance is distinguishable from zero (input-side part of the F-C12-a signature)"""
    return bool((numpy.abs(numpy.diag(ref)) > RTOL * numpy.diag(S) + ATOL).any())


def _rep(scheme, tup):
    """tuple repeats the last (female, male) pair -- the entries F-C12-a is about"""
    return scheme != "two" and tup[-1] == tup[-2]


def _linked_informative(scheme, b, tup):
    """parents of the tuple differ at >= 2 markers that are linked (r < 1/2) and carry non-zero effects"""
    sl = P.scheme_slots(scheme, b.geno, tup)
    seg = [i for i in range(b.p) if sl[:, i].min() != sl[:, i].max() and numpy.any(b.u[i] != 0.0)]
    return any(b.rmat[i, j] < 0.5 for i in seg for j in seg if i < j)


def _labels_common(ctx, case, b):
    ctx.label("scheme=%s" % case["scheme"])
    maxrun = max(case["runs"])
    mem = case.get("mem")
    ctx.label("chunk_boundary_inside_chromosome", mem is not None and mem < maxrun)
    ctx.label("chunk_not_dividing_chromosome", mem is not None and mem < maxrun and maxrun % mem != 0)
    ctx.label("nself=inf", case.get("nself") == "inf")
    ctx.label("nself>0", case.get("nself") not in (0, None))
    ctx.label("multi_chromosome", len(case["runs"]) > 1)
    ctx.label("coincident_markers", any(b.rmat[i, j] == 0.0 for i in range(b.p) for j in range(i)))
    ctx.label("identical_distinct_taxa", any(numpy.array_equal(b.geno[:, i], b.geno[:, j]) for i in range(b.n) for j in range(i)))
    ctx.label("ntrait>1", b.t > 1)
    nonmono = any(b.genpos[i] > b.genpos[i + 1] and b.chrgrp[i] == b.chrgrp[i + 1] for i in range(b.p - 1))
    ctx.label("effects_in_small_units", int(case.get("u_unit_exp", 0)) <= -17)
    ctx.label("genetic_map_not_monotone_in_stored_order", nonmono)
    ctx.label("non_monotone_map_across_chunk_boundary", nonmono and mem is not None and mem < maxrun)


# =====================================================================================================================
# genetic: all tuples vs. two-locus enumeration
# =====================================================================================================================
def check_genetic(case, ctx):
    scheme, kind, entry = case["scheme"], case["kind"], case["entry"]
    nself = _inf(case["nself"])
    b = build(case)
    k = NPARENT[scheme]
    _labels_common(ctx, case, b)
    ctx.label("kind=%s" % kind)
    ctx.label("entry=%s" % entry)
    snap_g, snap_u = b.pgmat.mat.copy(), b.algmod.u_a.copy()

    unusable = kind == "pcvmat" and scheme in ("four", "dihybrid")
    try:
        cls, obj = call_genetic(scheme, kind, entry, b, case["nmating"], case["nprogeny"], nself, case["mem"])
    except (IndexError, ValueError) as e:
        # valid input: nothing may be raised.  (named clause instead of the generic exception bucket)
        if unusable and ctx.known(K_PCV_4D, True):
            ctx.label("pcvmat_class_unusable")
            return
        ctx.fail("construct.raises", "%s.%s raised %r" % (kind, scheme, e))
        return

    # ---- type, shape, labels ------------------------------------------------------------------------------------
    ctx.check(type(obj) is cls, "result.type", lambda: "%s, expected %s" % (type(obj).__name__, cls.__name__))
    shape = (b.n,) * k + ((b.t, b.t) if kind == "pcvmat" else (b.t,))
    ctx.check(obj.mat.shape == shape and obj.mat.dtype == numpy.float64, "result.shape",
              lambda: "%s %s, expected %s" % (obj.mat.shape, obj.mat.dtype, shape))
    ctx.check(_same_labels(obj.taxa, b.taxa) and _same_labels(obj.taxa_grp, b.taxa_grp), "labels.taxa",
              lambda: "taxa %r taxa_grp %r, parents %r %r" % (obj.taxa, obj.taxa_grp, b.taxa, b.taxa_grp))
    if not (scheme != "two" and b.trait is not None and ctx.known(K_TRAIT, True)):
        ctx.check(_same_labels(obj.trait, b.trait), "labels.trait",
                  lambda: "result trait %r, model trait %r" % (obj.trait, b.trait))
    ctx.check(tuple(obj.epgc) == EPGC[scheme], "epgc", lambda: str(obj.epgc))

    # ---- every parent index tuple vs. the enumeration ---------------------------------------------------------------
    nontriv = False
    nrep_nonzero = 0
    for tup in itertools.product(range(b.n), repeat=k):
        slots = P.scheme_slots(scheme, b.geno, tup)
        ref = P.progeny_cov(scheme, slots, b.u, b.rmat, nself)
        got = _entry(obj.mat, tup, kind, b.t)
        if _rep(scheme, tup) and _has_variance(ref, b.S):
            nrep_nonzero += 1
            if ctx.known(K_DIAG, True):
                continue
            ctx.check(_cmp(got, ref, b.S, kind), "value.repeated_last_pair",
                      lambda: "%s%s nself=%s: got %s, enumeration %s" % (scheme, list(tup), case["nself"], got.tolist(), ref.tolist()))
            continue
        ctx.check(_cmp(got, ref, b.S, kind), "value",
                  lambda: "%s%s nself=%s mem=%s: got %s, enumeration %s" % (scheme, list(tup), case["nself"], case["mem"], got.tolist(), ref.tolist()))
        # zero for genetically identical parents (all founder slots equal)
        if (slots == slots[0]).all():
            ctx.check(not numpy.any(got), "zero_for_identical_parents", lambda: "%s%s: %s" % (scheme, list(tup), got.tolist()))
        if not nontriv and _linked_informative(scheme, b, tup):
            nontriv = True
    ctx.label("repeated_pair_entries_with_variance", nrep_nonzero > 0)
    ctx.nontrivial(nontriv)

    # ---- symmetry in exchangeable parents -------------------------------------------------------------------------------
    m = obj.mat
    tolS = RTOL * (b.S if kind == "pcvmat" else numpy.diag(b.S)) + ATOL

    def sym(perm_axes, name, touches_pairs=False):
        mm = numpy.moveaxis(m, list(range(k)), perm_axes)          # mm[tup] = m[src], src[a] = tup[perm_axes[a]]
        d = numpy.abs(m - mm)
        for tup in itertools.product(range(b.n), repeat=k):
            if touches_pairs:
                src = tuple(tup[perm_axes[a]] for a in range(k))
                if (_rep(scheme, tup) or _rep(scheme, src)) and ctx.known(K_DIAG, True):
                    continue            # one side is an entry F-C12-a leaves at zero
            ctx.check(bool((d[tuple(tup)] <= tolS).all()), name, lambda: "%s vs permuted axes %s at %s" % (scheme, perm_axes, list(tup)))

    if scheme in ("two", "dihybrid"):
        sym([1, 0], "symmetry.female_male")
    elif scheme == "three":
        sym([0, 2, 1], "symmetry.female_male")
    else:
        sym([0, 1, 3, 2], "symmetry.female1_male1")
        sym([1, 0, 2, 3], "symmetry.female2_male2")
        sym([2, 3, 0, 1], "symmetry.pair_exchange", touches_pairs=True)
    if kind == "pcvmat":
        ctx.check(bool((numpy.abs(m - numpy.swapaxes(m, -1, -2)) <= tolS).all()), "symmetry.traits")

    # ---- memory chunking must not matter ------------------------------------------------------------------------------
    if case["mem2"] != case["mem"]:
        _, obj2 = call_genetic(scheme, kind, "algmod", b, case["nmating"], case["nprogeny"], nself, case["mem2"])
        ctx.check(bool((numpy.abs(obj2.mat - m) <= tolS).all()), "mem.invariance",
                  lambda: "mem=%s vs mem=%s: max |diff| %g" % (case["mem"], case["mem2"], numpy.abs(obj2.mat - m).max()))
        ctx.label("mem_pair_compared")

    # ---- reordering the taxa permutes the matrix --------------------------------------------------------------------
    if case["perm"] is not None:
        perm = list(case["perm"])
        bp = build(case, perm)
        _, objp = call_genetic(scheme, kind, entry, bp, case["nmating"], case["nprogeny"], nself, case["mem"])
        ix = numpy.ix_(*([perm] * k))
        ctx.check(bool((numpy.abs(objp.mat - m[ix]) <= tolS).all()), "taxa.equivariance",
                  lambda: "perm %s: max |diff| %g" % (perm, numpy.abs(objp.mat - m[ix]).max()))
        ctx.check(_same_labels(objp.taxa, bp.taxa) and _same_labels(objp.taxa_grp, bp.taxa_grp), "taxa.equivariance.labels")
        ctx.label("permuted", perm != sorted(perm))

    ctx.check(numpy.array_equal(b.pgmat.mat, snap_g) and numpy.array_equal(b.algmod.u_a, snap_u), "inputs_mutated")


# =====================================================================================================================
# multilocus: selected tuples vs. full enumeration of all crossover patterns
# =====================================================================================================================
def check_multilocus(case, ctx):
    scheme, kind = case["scheme"], case["kind"]
    nself = int(case["nself"])
    b = build(case)
    _labels_common(ctx, case, b)
    ctx.label("p=%d" % b.p)
    ctx.label("nself=%d" % nself)
    try:
        _, obj = call_genetic(scheme, kind, "algmod", b, 1, 1, nself, case["mem"])
    except (IndexError, ValueError) as e:
        ctx.fail("construct.raises", "%s.%s raised %r" % (kind, scheme, e))
        return
    xo = P.xoprob_from_genpos(b.chrgrp, b.genpos)
    nontriv = False
    for raw in case["tuples"]:
        tup = tuple(int(x) % b.n for x in raw)
        parents = [b.geno[:, i, :] for i in tup]
        haps, probs = P.scheme_dh_dist(scheme, parents, xo, nself)
        mean, cov = P.hap_moments(haps, probs, b.u)
        got = _entry(obj.mat, tup, kind, b.t)
        if _rep(scheme, tup) and _has_variance(cov, b.S):
            if ctx.known(K_DIAG, True):
                continue
            ctx.check(_cmp(got, cov, b.S, kind), "value.repeated_last_pair",
                      lambda: "%s%s nself=%d: got %s, enumeration %s" % (scheme, list(tup), nself, got.tolist(), cov.tolist()))
            continue
        ctx.check(_cmp(got, cov, b.S, kind), "value",
                  lambda: "%s%s nself=%d: got %s, full gamete enumeration %s" % (scheme, list(tup), nself, got.tolist(), cov.tolist()))
        # the mean of the progeny is the expected-genome-contribution weighted mean of the parents' genotypic values
        gv = numpy.array([(b.geno[0, i] + b.geno[1, i]).astype(float) @ b.u for i in tup])
        pm = numpy.array(EPGC[scheme]) @ gv
        ctx.check(bool((numpy.abs(mean - pm) <= 1e-12 * (1.0 + numpy.abs(b.u).sum(0))).all()), "oracle.mean_is_parental_mean",
                  lambda: "%s vs %s" % (mean.tolist(), pm.tolist()))
        nontriv = nontriv or (len(probs) > 2 and _linked_informative(scheme, b, tup))
        ctx.label("gametes>=16", len(probs) >= 16)
    ctx.nontrivial(nontriv)


# =====================================================================================================================
# genic
# =====================================================================================================================
def _pollute(shape):
    """make numpy.empty(shape) return recognisably dirty memory (freed blocks are reused by the allocator)"""
    junk = [numpy.full(shape, 1.2345e11, dtype=float) for _ in range(8)]
    del junk


def check_genic(case, ctx):
    scheme, entry = case["scheme"], case["entry"]
    b = build(case)
    k = NPARENT[scheme]
    _labels_common(ctx, case, b)
    ctx.label("entry=%s" % entry)
    cls = GENIC[scheme]
    _pollute((b.n,) * k + (b.t,))
    _pollute((b.n, b.n, b.t))
    try:
        if entry == "algmod":
            obj = cls.from_algmod(algmod=b.algmod, pgmat=b.pgmat, nprogeny=case["nprogeny"], mem=case["mem"])
        elif entry == "gmod":
            obj = cls.from_gmod(gmod=b.algmod, pgmat=b.pgmat, nprogeny=case["nprogeny"], mem=case["mem"])
        elif entry == "fcty_gmod":
            obj = DenseTwoWayDHAdditiveGenicVarianceMatrixFactory().from_gmod(gmod=b.algmod, pgmat=b.pgmat,
                                                                             nprogeny=case["nprogeny"])
        else:
            obj = DenseTwoWayDHAdditiveGenicVarianceMatrixFactory().from_algmod(algmod=b.algmod, pgmat=b.pgmat,
                                                                               nprogeny=case["nprogeny"], mem=case["mem"])
    except (IndexError, ValueError) as e:
        if scheme in ("three", "four") and ctx.known(K_GENIC_34, True):
            return
        ctx.fail("genic.construct.raises", "genic %s raised %r" % (scheme, e))
        return
    ctx.check(type(obj) is cls, "genic.result.type", lambda: type(obj).__name__)
    shape = (b.n,) * k + (b.t,)
    ctx.check(obj.mat.shape == shape, "genic.result.shape", lambda: "%s expected %s" % (obj.mat.shape, shape))
    ctx.check(_same_labels(obj.taxa, b.taxa) and _same_labels(obj.taxa_grp, b.taxa_grp) and _same_labels(obj.trait, b.trait),
              "genic.labels")
    nontriv = False
    for tup in itertools.product(range(b.n), repeat=k):
        slots = P.scheme_slots(scheme, b.geno, tup)
        ref = P.genic_cov(scheme, slots, b.u)
        got = _entry(obj.mat, tup, "vmat", b.t)
        if tup[-1] == tup[-2]:
            # two-way: identical inbred parents -> exactly no variance; others: selfed/backcross families
            if ctx.known(K_GENIC_DIAG, True):
                continue
            ctx.check(_cmp(got, ref, b.S, "vmat"), "genic.value.repeated_last_pair",
                      lambda: "%s%s: got %s, expected %s" % (scheme, list(tup), numpy.diag(got).tolist(), numpy.diag(ref).tolist()))
            continue
        ctx.check(_cmp(got, ref, b.S, "vmat"), "genic.value",
                  lambda: "%s%s: got %s, expected %s" % (scheme, list(tup), numpy.diag(got).tolist(), numpy.diag(ref).tolist()))
        # genic variance is the genetic variance of the same cross with all markers unlinked
        free = P.progeny_cov(scheme, slots, b.u, numpy.where(numpy.eye(b.p) > 0, 0.0, 0.5), 0)
        ctx.check(bool((numpy.abs(numpy.diag(free) - numpy.diag(ref)) <= RTOL * numpy.diag(b.S) + ATOL).all()), "oracle.genic_is_unlinked_genetic")
        nontriv = nontriv or numpy.diag(ref).max() > 0.0
    ctx.nontrivial(nontriv)


# =====================================================================================================================
# usefulness criterion
# =====================================================================================================================
def _intensity(pct):
    if pct >= 1.0:
        return 0.0
    nd = statistics.NormalDist()
    return nd.pdf(nd.inv_cdf(1.0 - pct)) / pct


def _uc_problem(scheme, b, fcty, gm, prob_kind, uniq, ncross, nprogeny, nself, pct):
    """(problem, expected cross map) of one UC problem class on the parents/model of ``b``; None if no cross is possible"""
    k = NPARENT[scheme]
    comb = itertools.combinations if uniq else itertools.combinations_with_replacement
    expect_xmap = [list(c) for c in comb(range(b.n), k)]
    if not expect_xmap:
        return None
    nx = len(expect_xmap)
    cls = UCPROB[prob_kind]
    if prob_kind == "subset":
        nd, ds, lo, hi = min(2, nx), numpy.arange(nx), numpy.zeros(min(2, nx)), numpy.full(min(2, nx), float(nx - 1))
    elif prob_kind == "real":
        nd, ds, lo, hi = nx, None, numpy.zeros(nx), numpy.ones(nx)
    else:
        nd, ds, lo, hi = nx, None, numpy.zeros(nx, dtype=int), numpy.ones(nx, dtype=int)
        ds = numpy.stack([lo, hi])
    pr = cls.from_pgmat_gpmod(
        nparent=k, ncross=ncross, nprogeny=nprogeny, nself=nself,
        upper_percentile=float(pct), vmatfcty=fcty, gmapfn=gm,
        unique_parents=uniq, pgmat=b.pgmat, gpmod=b.algmod, ndecn=nd, decn_space=ds, decn_space_lower=lo,
        decn_space_upper=hi, nobj=b.t)
    return pr, expect_xmap


def _uc_protocol_problem(scheme, b, fcty, gm, prob_kind, uniq, ncross, nprogeny, nself, pct, bv_kind, perm_seed):
    """the same UC problem, obtained through SelectionProtocol.problem(pgmat, gmat, ptdf, bvmat, gpmod, t_cur, t_max)"""
    k = NPARENT[scheme]
    comb = itertools.combinations if uniq else itertools.combinations_with_replacement
    expect_xmap = [list(c) for c in comb(range(b.n), k)]
    if not expect_xmap:
        return None
    prot = UCPROT[prob_kind](
        ntrait=b.t, nself=nself, upper_percentile=float(pct), vmatfcty=fcty, gmapfn=gm, unique_parents=uniq,
        ncross=min(2, len(expect_xmap)) if prob_kind == "subset" else 1, nparent=k, nmating=ncross, nprogeny=nprogeny, nobj=b.t)
    bv = None
    if bv_kind != "none":
        pg = b.pgmat
        if bv_kind == "gebv_reordered" and b.n > 1:
            perm = numpy.random.RandomState(perm_seed).permutation(b.n)
            if (perm == numpy.arange(b.n)).all():
                perm = numpy.roll(perm, 1)
            pg = b.pgmat.select_taxa(perm)
        bv = b.algmod.gebv(pg)
    pr = prot.problem(b.pgmat, b.pgmat, None, bv, b.algmod, 0, 1)
    return pr, expect_xmap


def _uc_verify(ctx, scheme, b, pr, expect_xmap, nself, pct, beta, pre="", where=""):
    """usefulness criterion of every cross of the problem vs. parental mean + i * sqrt(enumerated variance)"""
    k = NPARENT[scheme]
    nx = len(expect_xmap)
    uc = pr.ucmat
    xmap = numpy.asarray(pr.decn_space_xmap)
    ctx.check(uc.shape == (nx, b.t), pre + "uc.shape", lambda: "%s expected %s%s" % (uc.shape, (nx, b.t), where))
    ctx.check(sorted(xmap.tolist()) == sorted(expect_xmap), pre + "uc.xmap", lambda: "%s%s" % (xmap.tolist(), where))
    if uc.shape != (nx, b.t) or xmap.shape != (nx, k):
        return False
    inten = _intensity(float(pct))
    gv = numpy.array([[beta[a] + math.fsum(float(b.geno[0, i, j] + b.geno[1, i, j]) * b.u[j, a] for j in range(b.p))
                       for a in range(b.t)] for i in range(b.n)])
    epgc = EPGC[scheme]
    nontriv = False
    for row, tup in enumerate(xmap.tolist()):
        tup = tuple(tup)
        slots = P.scheme_slots(scheme, b.geno, tup)
        var = numpy.diag(P.progeny_cov(scheme, slots, b.u, b.rmat, nself))
        pmean = numpy.array([math.fsum(epgc[q] * gv[tup[q], a] for q in range(k)) for a in range(b.t)])
        tolv = RTOL * numpy.diag(b.S) + ATOL
        lo_ = pmean + inten * numpy.sqrt(numpy.maximum(var - tolv, 0.0))
        hi_ = pmean + inten * numpy.sqrt(numpy.maximum(var, 0.0) + tolv)
        slack = 1e-9 * (numpy.abs(pmean) + inten * numpy.sqrt(numpy.maximum(var, 0.0)) + numpy.abs(b.u).sum(0) + abs(max(beta, key=abs)))
        seg = [i for i in range(b.p) if slots[:, i].min() != slots[:, i].max()]
        # traits whose true variance is zero (up to rounding) although the parents differ at markers with effects:
        # the blocked sum may come out as -1e-17 and sqrt() turns the usefulness criterion into NaN (F-C12-f)
        fragile = numpy.array([bool(var[a] <= tolv[a] and any(b.u[i, a] != 0.0 for i in seg)) for a in range(b.t)])
        ok = numpy.ones(b.t, dtype=bool)
        if fragile.any():
            ctx.label("segregating_cross_with_zero_variance")
            if ctx.known(K_UC_NAN, True):
                ok = ~fragile
        inside = (uc[row] >= lo_ - slack) & (uc[row] <= hi_ + slack)
        if _rep(scheme, tup) and bool((var > tolv).any()):
            if ctx.known(K_DIAG, True):
                continue
            ctx.check(bool(inside[ok].all()), pre + "uc.value.repeated_last_pair",
                      lambda: "%s%s: uc %s expected %s (mean %s var %s i %g)%s" % (scheme, list(tup), uc[row].tolist(), (pmean + inten * numpy.sqrt(numpy.maximum(var, 0.0))).tolist(), pmean.tolist(), var.tolist(), inten, where))
            continue
        ctx.check(bool(numpy.isfinite(uc[row][ok]).all()), pre + "uc.finite", lambda: "%s%s: %s (enumerated variance %s)%s" % (scheme, list(tup), uc[row].tolist(), var.tolist(), where))
        ctx.check(bool(inside[ok].all()), pre + "uc.value",
                  lambda: "%s%s nself=%d pct=%r: uc %s expected %s (mean %s var %s i %g)%s" % (
                      scheme, list(tup), nself, pct, uc[row].tolist(),
                      (pmean + inten * numpy.sqrt(numpy.maximum(var, 0.0))).tolist(), pmean.tolist(), var.tolist(), inten, where))
        nontriv = nontriv or (inten > 0.0 and _linked_informative(scheme, b, tup))
    return nontriv


def check_uc(case, ctx):
    scheme = case["scheme"]
    nself = int(case["nself"])
    b = build(case)
    _labels_common(ctx, case, b)
    ctx.label("problem=%s" % case["problem"])
    ctx.label("unique_parents=%s" % case["unique_parents"])
    ctx.label("cancelling_effects_at_coincident_markers", bool(case.get("cancelling")))
    uniq = bool(case["unique_parents"])
    via = case.get("via", "problem")
    if float(case["upper_percentile"]) >= 1.0:
        via = "problem"                       # the protocols accept percentiles in the open interval (0,1) only
    ctx.label("via=%s" % via)
    if via == "protocol":
        ctx.label("protocol.bvmat=%s" % case["bvmat"])
        made = _uc_protocol_problem(scheme, b, FCTY[scheme](), HaldaneMapFunction(), case["problem"], uniq,
                                    case["ncross"], case["nprogeny"], nself, case["upper_percentile"], case["bvmat"],
                                    case["bv_perm_seed"])
    else:
        made = _uc_problem(scheme, b, FCTY[scheme](), HaldaneMapFunction(), case["problem"], uniq, case["ncross"],
                           case["nprogeny"], nself, case["upper_percentile"])
    if made is None:
        ctx.label("no_cross_possible")
        return
    pr, expect_xmap = made
    ctx.nontrivial(_uc_verify(ctx, scheme, b, pr, expect_xmap, nself, case["upper_percentile"], case["beta"]))


# =====================================================================================================================
# reuse: one factory / model / genotype-matrix object used several times, changed through its public API in between
# =====================================================================================================================
def _snapshot(pg, alg):
    """the inputs exactly as they are handed to the library at this moment (read through public attributes)"""
    b = Built()
    b.geno = numpy.array(pg.mat, dtype="int8", copy=True)
    b.n, b.p = b.geno.shape[1], b.geno.shape[2]
    b.chrgrp = numpy.array(pg.vrnt_chrgrp, copy=True)
    b.genpos = numpy.array(pg.vrnt_genpos, dtype="float64", copy=True)
    b.u = numpy.array(alg.u_a, dtype="float64", copy=True)
    b.t = b.u.shape[1]
    b.beta = [float(x) for x in numpy.asarray(alg.beta).reshape(-1)]
    b.taxa = None if pg.taxa is None else numpy.array(pg.taxa, copy=True)
    b.taxa_grp = None if pg.taxa_grp is None else numpy.array(pg.taxa_grp, copy=True)
    b.trait = None if alg.trait is None else numpy.array(alg.trait, copy=True)
    b.pgmat, b.algmod = pg, alg
    b.rmat = P.rmat_from_genpos(b.chrgrp, b.genpos)
    b.S = 4.0 * numpy.outer(numpy.abs(b.u).sum(0), numpy.abs(b.u).sum(0))
    return b


def _apply_mod(op, pg, alg, scheme, st_):
    """one change of the live objects through public setters / in-place methods; returns 'order' (taxa only re-ordered),
    'value' (expected matrix may change) or 'none'"""
    name = op[0]
    n, p = pg.mat.shape[1], pg.mat.shape[2]
    t = alg.u_a.shape[1]
    if name == "set_u":
        alg.u_a = numpy.array(op[1], dtype="float64").reshape(p, t)
    elif name == "scale_u":
        alg.u_a = alg.u_a * float(op[1])
    elif name == "poke_u":
        alg.u_a[int(op[1]) % p, int(op[2]) % t] = float(op[3])          # write into the array the model exposes
    elif name == "set_beta":
        alg.beta = numpy.array([op[1]], dtype="float64")
    elif name in ("reorder_taxa", "sort_taxa", "group_taxa"):
        if name == "reorder_taxa" or (pg.taxa is None and pg.taxa_grp is None):
            keys = list(op[1])[:n] if name == "reorder_taxa" else list(range(n, 0, -1))
            pg.reorder_taxa(numpy.array(sorted(range(n), key=lambda i: (keys[i], i)), dtype=int))
        elif name == "sort_taxa":
            pg.sort_taxa()
        else:
            pg.group_taxa()
        return "order"
    elif name == "set_mat":
        m = numpy.array(pg.mat, copy=True)
        i = int(op[1]) % n
        m[0, i, :] = op[2]
        m[1, i, :] = op[3] if scheme == "dihybrid" else op[2]
        pg.mat = m
    elif name == "poke_mat":
        i, j = int(op[1]) % n, int(op[2]) % p
        if scheme == "dihybrid" and op[3]:
            pg.mat[0, i, j] = 1 - pg.mat[0, i, j]
        else:
            pg.mat[:, i, j] = 1 - pg.mat[:, i, j]                       # inbred parents stay inbred
    elif name == "remove_taxa":
        if n <= 2:
            return "none"
        pg.remove_taxa(int(op[1]) % n)
    elif name == "set_genpos":
        chrgrp = pg.vrnt_chrgrp
        new, pos = [], 0.0
        for j in range(p):
            pos = float(op[1]) if (j == 0 or chrgrp[j] != chrgrp[j - 1]) else pos + float(op[2][j])
            new.append(pos)
        pg.vrnt_genpos = numpy.array(new, dtype="float64")
    elif name == "nself":
        st_["nself"] = int(op[1])
    return "value"


def _reuse_call(via, family, scheme, pg, alg, fcty, gm, case, nself, mem):
    """(kind, object) through one entry point, always with the SAME factory / map function / model / genotype objects"""
    if family == "genic":
        cls = GENIC[scheme]
        mem = 1000 if mem is None else mem          # genic classes take an integer chunk size
        if via == "fcty_gmod_plain":
            return "genic", fcty.from_gmod(alg, pg, case["nprogeny"])
        if via == "fcty_gmod_mem":
            return "genic", fcty.from_gmod(gmod=alg, pgmat=pg, nprogeny=case["nprogeny"], mem=mem)
        if via == "fcty_algmod":
            return "genic", fcty.from_algmod(algmod=alg, pgmat=pg, nprogeny=case["nprogeny"], mem=mem)
        if via == "cls_gmod":
            if scheme == "two":
                return "genic", cls.from_gmod(gmod=alg, pgmat=pg, nprogeny=case["nprogeny"])
            return "genic", cls.from_gmod(gmod=alg, pgmat=pg, nprogeny=case["nprogeny"], mem=mem)   # mem has no default there
        return "genic", cls.from_algmod(algmod=alg, pgmat=pg, nprogeny=case["nprogeny"], mem=mem)
    nm, npg = case["nmating"], case["nprogeny"]
    if family == "pcvmat":
        cls = PCVMAT[scheme]
        if via == "cls_gmod":
            return "pcvmat", cls.from_gmod(gmod=alg, pgmat=pg, ncross=nm, nprogeny=npg, nself=nself, gmapfn=gm)
        return "pcvmat", cls.from_algmod(algmod=alg, pgmat=pg, ncross=nm, nprogeny=npg, nself=nself, gmapfn=gm, mem=mem)
    cls = VMAT[scheme]
    if via == "fcty_gmod_plain":
        return "vmat", fcty.from_gmod(alg, pg, nm, npg, nself, gm)
    if via == "fcty_gmod_mem":
        return "vmat", fcty.from_gmod(gmod=alg, pgmat=pg, ncross=nm, nprogeny=npg, nself=nself, gmapfn=gm, mem=mem)
    if via == "fcty_algmod":
        return "vmat", fcty.from_algmod(algmod=alg, pgmat=pg, ncross=nm, nprogeny=npg, nself=nself, gmapfn=gm, mem=mem)
    if via == "cls_gmod":
        return "vmat", cls.from_gmod(gmod=alg, pgmat=pg, nmating=nm, nprogeny=npg, nself=nself, gmapfn=gm)
    return "vmat", cls.from_algmod(algmod=alg, pgmat=pg, nmating=nm, nprogeny=npg, nself=nself, gmapfn=gm, mem=mem)


def _reuse_verify(ctx, scheme, kind, obj, b, nself, where):
    """every entry of a freshly requested matrix vs. the enumeration for the inputs as they are NOW; returns the
    enumerated diagonals (n^k, t)"""
    k = NPARENT[scheme]
    cls = {"vmat": VMAT, "pcvmat": PCVMAT, "genic": GENIC}[kind][scheme]
    ctx.check(type(obj) is cls, "reuse.result.type", lambda: "%s, expected %s%s" % (type(obj).__name__, cls.__name__, where))
    shape = (b.n,) * k + ((b.t, b.t) if kind == "pcvmat" else (b.t,))
    okshape = obj.mat.shape == shape
    ctx.check(okshape, "reuse.result.shape", lambda: "%s, expected %s for the parents now in the genotype matrix%s" % (obj.mat.shape, shape, where))
    ctx.check(_same_labels(obj.taxa, b.taxa) and _same_labels(obj.taxa_grp, b.taxa_grp), "reuse.labels.taxa",
              lambda: "matrix taxa %r / %r, parents %r / %r%s" % (obj.taxa, obj.taxa_grp, b.taxa, b.taxa_grp, where))
    if not (kind != "genic" and scheme != "two" and b.trait is not None and ctx.known(K_TRAIT, True)):
        ctx.check(_same_labels(obj.trait, b.trait), "reuse.labels.trait", lambda: "%r vs model %r%s" % (obj.trait, b.trait, where))
    refs = []
    for tup in itertools.product(range(b.n), repeat=k):
        slots = P.scheme_slots(scheme, b.geno, tup)
        ref = P.genic_cov(scheme, slots, b.u) if kind == "genic" else P.progeny_cov(scheme, slots, b.u, b.rmat, nself)
        refs.append(numpy.diag(ref))
        if not okshape:
            continue
        got = _entry(obj.mat, tup, kind, b.t)
        if kind == "genic":
            if tup[-1] == tup[-2] and ctx.known(K_GENIC_DIAG, True):
                continue
        elif _rep(scheme, tup) and _has_variance(ref, b.S) and ctx.known(K_DIAG, True):
            continue
        ctx.check(_cmp(got, ref, b.S, kind), "reuse.value",
                  lambda: "%s %s%s nself=%s: got %s, enumeration for the current parents and effects %s%s" % (
                      kind, scheme, list(tup), nself, got.tolist(), ref.tolist(), where))
    return numpy.array(refs)


def check_reuse(case, ctx):
    scheme, family = case["scheme"], case["family"]
    b0 = build(case)
    pg, alg = b0.pgmat, b0.algmod
    gm = HaldaneMapFunction()
    fcty = None
    if family == "vmat":
        fcty = FCTY[scheme]()
    elif family == "genic" and scheme == "two":
        fcty = DenseTwoWayDHAdditiveGenicVarianceMatrixFactory()
    st_ = {"nself": _inf(case["nself"])}
    k = NPARENT[scheme]
    ctx.label("scheme=%s" % scheme)
    ctx.label("family=%s" % family)
    hist = []
    last = {}            # via -> (epoch, nself, taxa names, matrix copy, enumerated diagonals)
    epoch = 0
    nontriv = False
    for r, rnd in enumerate(case["rounds"]):
        for op in rnd["mods"]:
            eff = _apply_mod(op, pg, alg, scheme, st_)
            hist.append(op[0])
            ctx.label("mod=%s" % op[0])
            if eff == "value":
                epoch += 1
        via, nself, mem = rnd["via"], st_["nself"], rnd["mem"]
        uniq = bool(case["unique_parents"]) and pg.mat.shape[1] >= k
        if via == "uc" and nself == math.inf:
            via = "fcty_gmod_plain"
        b = _snapshot(pg, alg)
        hist.append("<%s>" % via)
        where = "   [history on the same objects: %s]" % " ".join(hist)
        ctx.label("via=%s" % via)
        try:
            if via == "uc":
                made = _uc_problem(scheme, b, fcty, gm, case["problem"], uniq, case["nmating"], case["nprogeny"], nself,
                                   case["upper_percentile"])
            else:
                kind, obj = _reuse_call(via, family, scheme, pg, alg, fcty, gm, case, nself, mem)
        except (IndexError, ValueError) as e:
            ctx.fail("reuse.construct.raises", "%s %s raised %r%s" % (family, scheme, e, where))
            return
        a = _snapshot(pg, alg)
        ctx.check(numpy.array_equal(a.geno, b.geno) and numpy.array_equal(a.u, b.u) and numpy.array_equal(a.genpos, b.genpos)
                  and _same_labels(a.taxa, b.taxa), "reuse.inputs_mutated", lambda: "inputs changed by the call%s" % where)
        if via == "uc":
            _uc_verify(ctx, scheme, b, made[0], made[1], nself, case["upper_percentile"], b.beta, pre="reuse.", where=where)
            refs = numpy.array([numpy.diag(P.progeny_cov(scheme, P.scheme_slots(scheme, b.geno, tup), b.u, b.rmat, nself))
                                for tup in itertools.product(range(b.n), repeat=k)])
            mat = None
        else:
            refs = _reuse_verify(ctx, scheme, kind, obj, b, nself, where)
            mat = numpy.array(obj.mat, copy=True)
        if via in last:
            ep0, nself0, taxa0, mat0, refs0, beta0 = last[via]
            changed = refs0.shape != refs.shape or bool((numpy.abs(refs0 - refs) > 1e-9 * (1.0 + numpy.abs(refs))).any())
            changed = changed or (via == "uc" and beta0 != b.beta)
            ctx.label("same_entry_point_again_expected_matrix_changed", changed)
            ctx.label("same_entry_point_again_%s" % via, changed)
            nontriv = nontriv or changed
            # equivariance on the SAME object: only the order of the taxa changed since the previous request
            if (ep0 == epoch and nself0 == nself and mat is not None and mat0 is not None and taxa0 is not None
                    and b.taxa is not None and mat.shape == mat0.shape):
                names0 = list(taxa0)
                src = [names0.index(x) for x in b.taxa.tolist()]
                ix = numpy.ix_(*([src] * k))
                tolS = RTOL * (b.S if kind == "pcvmat" else numpy.diag(b.S)) + ATOL
                ctx.check(bool((numpy.abs(mat - mat0[ix]) <= tolS).all()), "reuse.taxa.equivariance",
                          lambda: "max |diff| %g%s" % (numpy.abs(mat - mat0[ix]).max(), where))
                ctx.label("equivariance_on_same_object", src != sorted(src))
        last[via] = (epoch, nself, None if b.taxa is None else b.taxa.tolist(), mat, refs, b.beta)
    ctx.nontrivial(nontriv)


# =====================================================================================================================
# longchrom: hundreds of markers on one chromosome; chunk-wise counts at the boundaries of 8-bit counters
# =====================================================================================================================
def _expand_long(case):
    """the population dict of ``build`` from a longchrom case (deterministic: numpy generator seeded from the case);
    also returns the genetic positions in grid units and the index window of the targeted memory chunk"""
    rng = numpy.random.default_rng(int(case["seed"]))
    scheme = case["scheme"]
    pl, pb, pa = int(case["p_long"]), int(case["p_before"]), int(case["p_after"])
    runs = [r for r in (pb, pl, pa) if r > 0]
    p = sum(runs)
    units = []
    for rl in runs:
        start = int(rng.integers(0, 64))
        inc = rng.choice([0, 1, 1, 1, 2, 2, 3], size=rl)
        inc[0] = 0
        units.extend((start + numpy.cumsum(inc)).tolist())
    mem = case["mem"]
    width = pl if mem is None else min(int(mem), pl)
    q = int(case["chunk"]) % (pl // width)                              # a full chunk of the long chromosome
    w0 = pb + q * width
    window = numpy.arange(w0, w0 + width)
    outside = numpy.setdiff1d(numpy.arange(p), window)
    n = len(case["taxa"])
    h0 = rng.integers(0, 2, (n, p))
    h1 = h0.copy()
    for i, spec in enumerate(case["taxa"]):
        c = min(int(spec["count"]), width)
        pos = window[rng.permutation(width)[:c]]
        how = spec["how"]
        if scheme == "dihybrid":
            if how == "random":
                h1[i] = rng.integers(0, 2, p)
            elif how == "count":
                h1[i, pos] = 1 - h0[i, pos]                           # exactly c heterozygous markers in the chunk
                if spec["outside"] == "random":
                    h1[i, outside] = rng.integers(0, 2, len(outside))
            # inbred_or_copy: homozygous parent
        else:
            if i > 0 and how != "random":
                base = int(spec["base"]) % i
                h0[i] = h0[base]
                if how == "count":
                    h0[i, pos] = 1 - h0[base, pos]                    # differs from the base parent at exactly c markers of the chunk
                    if spec["outside"] == "random":
                        h0[i, outside] = rng.integers(0, 2, len(outside))
            h1[i] = h0[i]
    t = int(case["ntrait"])
    if case["effects"] == "dense":
        u = rng.normal(size=(p, t))
    elif case["effects"] == "small_integers":
        u = rng.integers(-3, 4, (p, t)).astype(float)
    else:
        u = numpy.zeros((p, t))
        k = int(rng.integers(6, 40))
        ix = numpy.concatenate([rng.choice(window, size=min(k, width), replace=False), rng.choice(p, size=3)])
        u[ix] = rng.normal(size=(len(ix), t))
    pop = {
        "scheme": scheme, "n": n, "runs": runs, "chr_labels": [3, 7, 12][:len(runs)],
        "genpos": [x / float(_LONG_GRID) for x in units],
        "geno0": h0.tolist(), "geno1": h1.tolist(), "u": u.tolist(), "beta": [1.5] * t,
        "taxa_named": bool(case["taxa_named"]), "grouped_taxa": False, "trait_named": bool(case["trait_named"]),
        "u_unit_exp": 0, "genpos_order": case["genpos_order"], "genpos_seed": int(case["seed"]) % 65536,
    }
    return pop, (w0, w0 + width)


def _chunk_counts(scheme, geno, runs, mem):
    """numbers of heterozygous markers of one parent (dihybrid) / of markers at which two parents differ (inbred
    schemes), per memory chunk of every chromosome -- the quantities the case construction controls"""
    out = []
    n = geno.shape[1]
    st_ = 0
    for rl in runs:
        step = rl if mem is None else int(mem)
        for a in range(st_, st_ + rl, step):
            sl = slice(a, min(a + step, st_ + rl))
            if scheme == "dihybrid":
                out.extend(int((geno[0, i, sl] != geno[1, i, sl]).sum()) for i in range(n))
            else:
                out.extend(int((geno[0, i, sl] != geno[0, j, sl]).sum()) for i in range(n) for j in range(i))
        st_ += rl
    return out


def _pairwise_terms(scheme, haps, u, chrgrp, units, nself):
    """K[a, b, x, y] (t,t) = sum_ij  haps[x,i] u_i  J_ab(r_ij)  haps[y,j] u_j'   for all founder slots a, b and all pairs
    of distinct haplotypes x, y of the population.  J(r) is the two-locus enumeration of the scheme
    (``pedigree2.origin_joint``), evaluated once per distinct map distance (positions are grid multiples, so the
    distances are exact small integers)."""
    L = P.SCHEME_NSLOT[scheme]
    units = numpy.asarray(units, dtype="int64")
    d = numpy.abs(units[:, None] - units[None, :])
    d[chrgrp[:, None] != chrgrp[None, :]] = -1                          # different chromosomes: r = 1/2 exactly
    vals, inv = numpy.unique(d, return_inverse=True)
    inv = inv.reshape(d.shape)
    J = numpy.stack([P.origin_joint(scheme, 0.5 if v < 0 else P.haldane(float(v) / _LONG_GRID), nself) for v in vals.tolist()])
    hu = haps[:, :, None] * u[None, :, :]                               # (nh,p,t)
    nh, t = haps.shape[0], u.shape[1]
    K = numpy.empty((L, L, nh, nh, t, t))
    for a in range(L):
        for b_ in range(L):
            Jab = J[:, a, b_][inv]                                      # (p,p)
            K[a, b_] = numpy.einsum("xit,ij,yjs->xyts", hu, Jab, hu, optimize=True)
    return K


def _long_ref(scheme, K, hu_sum, tup, hid):
    """(t,t) progeny covariance of one parent tuple from the pairwise terms: 4 * (E[g g'] - E[g] E[g]')"""
    if scheme == "dihybrid":
        f, m = tup
        sl = [hid[(0, f)], hid[(1, f)], hid[(0, m)], hid[(1, m)]]
    else:
        sl = [hid[(0, i)] for i in tup]
    L = len(sl)
    pi = P.origin_marginal(scheme)
    egg = sum(K[a, b_, sl[a], sl[b_]] for a in range(L) for b_ in range(L))
    eg = sum(pi[a] * hu_sum[sl[a]] for a in range(L))
    return 4.0 * (egg - numpy.outer(eg, eg))


def check_longchrom(case, ctx):
    scheme, kind, entry = case["scheme"], case["kind"], case["entry"]
    nself = _inf(case["nself"])
    pop, (w0, w1) = _expand_long(case)
    b = build(pop, rmat=False)
    k = NPARENT[scheme]
    mem, mem2 = case["mem"], case["mem2"]
    ctx.label("scheme=%s" % scheme)
    ctx.label("kind=%s" % kind)
    ctx.label("nself=inf", case["nself"] == "inf")
    ctx.label("nself>0", case["nself"] != 0)
    ctx.label("multi_chromosome", len(pop["runs"]) > 1)
    ctx.label("chunk_boundary_inside_chromosome", mem is not None and mem < case["p_long"])
    ctx.label("effects=%s" % case["effects"])
    counts = [c for c in _chunk_counts(scheme, b.geno, pop["runs"], mem) if c > 0]
    what = "het" if scheme == "dihybrid" else "diff"
    ctx.label("%s_count_in_chunk_multiple_of_256" % what, any(c % 256 == 0 for c in counts))
    ctx.label("%s_count_in_chunk_odd_multiple_of_128" % what, any(c % 256 == 128 for c in counts))
    ctx.label("%s_count_in_chunk_multiple_of_256_plus_minus_1" % what, any(c % 256 in (1, 255) and c > 1 for c in counts))
    ctx.label("%s_count_in_chunk_>=512" % what, any(c >= 512 for c in counts))
    snap_g, snap_u = b.pgmat.mat.copy(), b.algmod.u_a.copy()

    try:
        cls, obj = call_genetic(scheme, kind, entry, b, case["nmating"], case["nprogeny"], nself, mem)
    except (IndexError, ValueError) as e:
        ctx.fail("long.construct.raises", "%s.%s raised %r" % (kind, scheme, e))
        return
    shape = (b.n,) * k + ((b.t, b.t) if kind == "pcvmat" else (b.t,))
    ctx.check(type(obj) is cls and obj.mat.shape == shape, "long.result.shape",
              lambda: "%s %s, expected %s %s" % (type(obj).__name__, obj.mat.shape, cls.__name__, shape))
    if obj.mat.shape != shape:
        return

    # ---- distinct haplotypes of the population and their pairwise terms ----------------------------------------------
    phases = (0, 1) if scheme == "dihybrid" else (0,)
    hid, rows = {}, []
    for i in range(b.n):
        for ph in phases:
            row = b.geno[ph, i].astype(float)
            for x, r_ in enumerate(rows):
                if numpy.array_equal(r_, row):
                    hid[(ph, i)] = x
                    break
            else:
                hid[(ph, i)] = len(rows)
                rows.append(row)
    haps = numpy.array(rows)
    units = numpy.rint(b.genpos * _LONG_GRID).astype("int64")           # positions as build() laid them out (any order)
    ctx.check(bool((units / float(_LONG_GRID) == b.genpos).all()), "oracle.positions_on_grid")
    K = _pairwise_terms(scheme, haps, b.u, b.chrgrp, units, nself)
    hu_sum = haps @ b.u                                                  # (nh,t)

    # the pairwise evaluation itself, on a handful of loci, against the reference enumeration used by the other sub-checks
    sub = numpy.sort(numpy.random.default_rng(int(case["seed"]) + 1).choice(b.p, size=min(6, b.p), replace=False))
    Ks = _pairwise_terms(scheme, haps[:, sub], b.u[sub], b.chrgrp[sub], units[sub], nself)
    tup0 = tuple(range(b.n))[:k] if b.n >= k else tuple([0, 1] * k)[:k]
    ref_s = P.progeny_cov(scheme, P.scheme_slots(scheme, b.geno[:, :, sub], tup0), b.u[sub],
                          P.rmat_from_genpos(b.chrgrp[sub], b.genpos[sub]), nself)
    got_s = _long_ref(scheme, Ks, haps[:, sub] @ b.u[sub], tup0, hid)
    Ss = 4.0 * numpy.outer(numpy.abs(b.u[sub]).sum(0), numpy.abs(b.u[sub]).sum(0))
    ctx.check(bool((numpy.abs(got_s - ref_s) <= 1e-12 * Ss + ATOL).all()), "oracle.pairwise_equals_enumeration",
              lambda: "%s vs %s" % (got_s.tolist(), ref_s.tolist()))

    # ---- every parent tuple ---------------------------------------------------------------------------------------------
    nontriv = False
    for tup in itertools.product(range(b.n), repeat=k):
        ref = _long_ref(scheme, K, hu_sum, tup, hid)
        got = _entry(obj.mat, tup, kind, b.t)
        ctx.check(_cmp(got, ref, b.S, kind), "long.value",
                  lambda: "%s%s nself=%s mem=%s, %d markers (chunk %d..%d): got %s, pairwise enumeration %s" % (
                      scheme, list(tup), case["nself"], mem, b.p, w0, w1, got.tolist(), ref.tolist()))
        nontriv = nontriv or _has_variance(ref, b.S)
    ctx.nontrivial(nontriv)

    # ---- symmetry in the last two (exchangeable) parents, traits --------------------------------------------------------
    m = obj.mat
    tolS = RTOL * (b.S if kind == "pcvmat" else numpy.diag(b.S)) + ATOL
    ctx.check(bool((numpy.abs(m - numpy.swapaxes(m, k - 2, k - 1)) <= tolS).all()), "long.symmetry.female_male")
    if kind == "pcvmat":
        ctx.check(bool((numpy.abs(m - numpy.swapaxes(m, -1, -2)) <= tolS).all()), "long.symmetry.traits")

    # ---- memory chunking must not matter --------------------------------------------------------------------------------
    if mem2 != mem:
        _, obj2 = call_genetic(scheme, kind, "algmod", b, case["nmating"], case["nprogeny"], nself, mem2)
        ctx.check(bool((numpy.abs(obj2.mat - m) <= tolS).all()), "long.mem.invariance",
                  lambda: "mem=%s vs mem=%s: max |diff| %g" % (mem, mem2, numpy.abs(obj2.mat - m).max()))
    ctx.check(numpy.array_equal(b.pgmat.mat, snap_g) and numpy.array_equal(b.algmod.u_a, snap_u), "long.inputs_mutated")


# =====================================================================================================================
# util: linkage-decay terms
# =====================================================================================================================
def check_util(case, ctx):
    rs = [float(x) for x in case["r"]]
    nself = _inf(case["nself"])
    t = int(case["t"])
    arr = numpy.array(rs, dtype=float)
    if case["shape2d"]:
        arr = arr[:, None] * numpy.ones((1, 2))
    ctx.label("nself=inf", nself == math.inf)
    ctx.label("r_boundary", 0.0 in rs or 0.5 in rs)
    ctx.nontrivial(any(0.0 < r < 0.5 for r in rs))
    tol = 1e-13

    def flat(x):
        x = numpy.asarray(x, dtype=float)
        return (x[:, 0] if x.ndim == 2 else x.reshape(-1)).tolist()

    d1 = flat(vutil.cov_D1s(arr, nself))
    d2 = flat(vutil.cov_D2s(arr, nself))
    rk = flat(vutil.rprob_filial(arr, nself + 1))
    d1st = flat(vutil.cov_D1st(arr, nself, t))
    d2st = flat(vutil.cov_D2st(arr, nself, t))
    one = numpy.array([[1.0, 1.0], [0.0, 0.0], [0.0, 0.0], [0.0, 0.0]])     # only slot 0 carries the 1-alleles
    for i, r in enumerate(rs):
        J = P.origin_joint("two", r, nself)
        R = float(J[0, 1] + J[1, 0])                    # recombinant fraction among DH gametes of generation nself+1
        ctx.check(abs(rk[i] - R) <= tol, "rprob_filial", lambda: "r=%r k=%r: %r vs enumerated %r" % (r, nself + 1, rk[i], R))
        ctx.check(abs(d1[i] - (1.0 - 2.0 * R)) <= tol, "cov_D1s", lambda: "r=%r nself=%r: %r vs %r" % (r, nself, d1[i], 1 - 2 * R))
        # D2: coefficient of the within-F1 pair in a four-way cross: Cov(x_i,x_j) = (D2 + 2 D1)/16 when only one
        # founder carries the allele at both loci
        J4 = P.origin_joint("four", r, nself)
        C = float(one[:, 0] @ J4 @ one[:, 1]) - 1.0 / 16.0
        D2 = 16.0 * C - 2.0 * (1.0 - 2.0 * R)
        ctx.check(abs(d2[i] - D2) <= 16 * tol, "cov_D2s", lambda: "r=%r nself=%r: %r vs %r" % (r, nself, d2[i], D2))
        # s/t variants: selfing takes priority over intermating
        if nself > 0 or t == 0:
            ctx.check(abs(d1st[i] - (1.0 - 2.0 * R)) <= tol and abs(d2st[i] - D2) <= 16 * tol, "cov_Dst.selfing_priority",
                      lambda: "r=%r nself=%r t=%d: %r %r" % (r, nself, t, d1st[i], d2st[i]))
        else:
            Jt = P.origin_joint("two", r, 0, t)
            Rt = float(Jt[0, 1] + Jt[1, 0])
            J4t = P.origin_joint("four", r, 0, t)
            D2t = 16.0 * (float(one[:, 0] @ J4t @ one[:, 1]) - 1.0 / 16.0) - 2.0 * (1.0 - 2.0 * Rt)
            ctx.check(abs(d1st[i] - (1.0 - 2.0 * Rt)) <= tol, "cov_D1st.intermating", lambda: "r=%r t=%d: %r vs %r" % (r, t, d1st[i], 1 - 2 * Rt))
            ctx.check(abs(d2st[i] - D2t) <= 16 * tol, "cov_D2st.intermating", lambda: "r=%r t=%d: %r vs %r" % (r, t, d2st[i], D2t))
            ctx.label("intermating")
    # documented rejection of negative depths
    for fn in (vutil.cov_D1s, vutil.cov_D2s):
        try:
            fn(arr, case["neg"])
            ctx.fail("util.negative_nself_accepted", "%s(r, %d) returned" % (fn.__name__, case["neg"]))
        except ValueError:
            pass


SUBCHECKS = [
    SubCheck("genetic", check_genetic, genetic_case(), quick=150, thorough=1500, shards_quick=8,
             rule="generated (scheme, 2-6 taxa incl. identical copies, 2-8 markers on 1-3 chromosomes with coincident/"
                  "distant positions, 1-3 traits, nself in {0,1,2,3,5,inf}, mem in {1,2,3,None,1024}, vmat|pcvmat, entry "
                  "point); ALL parent index tuples compared; non-trivial = some tuple's parents differ at >= 2 linked "
                  "markers with non-zero effects",
             required_labels=("chunk_boundary_inside_chromosome", "nself=inf", "repeated_pair_entries_with_variance",
                              "kind=pcvmat", "entry=fcty_gmod", "scheme=four", "scheme=dihybrid")),
    SubCheck("multilocus", check_multilocus, multilocus_case(), quick=150, thorough=1500, shards_quick=4,
             rule="vmat/pcvmat entries of 2-6 drawn tuples vs. the full multi-locus enumeration of all crossover "
                  "patterns with protocol crossover probabilities; non-trivial = > 2 distinct gametes and linked "
                  "informative markers",
             required_labels=("nself=0", "nself=1", "nself=2", "gametes>=16", "p=8")),
    SubCheck("genic", check_genic, genic_case(), quick=200, thorough=2000, shards_quick=2,
             rule="genic classes/factory, all tuples vs. per-locus enumeration; non-trivial = some cross has genic variance",
             required_labels=("scheme=two", "scheme=dihybrid")),
    SubCheck("uc", check_uc, uc_case(), quick=150, thorough=1500, shards_quick=2,
             rule="UC problems (subset/real/binary/integer) on the four factories, unique and repeated parents; "
                  "non-trivial = selection intensity > 0 and a cross with linked informative markers",
             required_labels=("unique_parents=False", "unique_parents=True", "segregating_cross_with_zero_variance")),
    SubCheck("reuse", check_reuse, reuse_case(), quick=150, thorough=1500, shards_quick=4,
             rule="ONE factory instance, ONE map function, ONE model and ONE genotype-matrix object serve 2-4 requests "
                  "(factory.from_gmod positional / with mem / from_algmod, class from_gmod / from_algmod, UC problem); between "
                  "requests the objects are changed through public setters and in-place methods (u_a, beta, mat, vrnt_genpos, "
                  "reorder/sort/group/remove taxa, array writes, nself); every answer is compared with the enumeration for the "
                  "objects' current content; non-trivial = the same entry point is used again after the expected matrix changed",
             required_labels=("same_entry_point_again_fcty_gmod_plain", "same_entry_point_again_uc", "via=fcty_algmod",
                              "via=cls_gmod", "equivariance_on_same_object", "family=genic", "family=pcvmat")),
    SubCheck("util", check_util, util_case(), quick=500, thorough=5000, shards_quick=1,
             rule="linkage-decay helpers on scalar/array r, all depths; non-trivial = some 0 < r < 1/2",
             required_labels=("nself=inf", "intermating")),
    SubCheck("longchrom", check_longchrom, longchrom_case(), quick=25, thorough=100, shards_quick=6,
             rule="one chromosome of 200-600 markers (+ optional short ones), 2-4 taxa, positions on a 1/256 Morgan grid; the "
                  "number of heterozygous markers of a dihybrid parent / of markers at which two inbred parents differ inside "
                  "one memory chunk is set to 127..513 (at and next to multiples of 128/256); vmat|pcvmat of all four "
                  "schemes, ALL parent tuples vs. the pairwise closed form built from two-locus enumerations, symmetry, mem "
                  "invariance; non-trivial = some tuple has variance",
             required_labels=("het_count_in_chunk_multiple_of_256", "diff_count_in_chunk_multiple_of_256", "kind=pcvmat",
                              "scheme=two", "scheme=three", "scheme=four")),
]
