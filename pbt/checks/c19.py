"""C19 -- Pareto-front identification, the feasibility-first dominance predicate and the front distance transforms.

Oracles (pbt/oracles/pareto_ref.py): O(n^2) dominance from the definition; exact-rational geometry for the
distance of min-max scaled points to the preference line.  Nothing from pybrops is used to predict pybrops.

Sub-checks
----------
filter_grid     exhaustive: every ordered sequence of <= 4 points on {0,1,2}^2, all four sign patterns, both forms
filter          generated point sets (1-14 points x 1-4 objectives; grids with many ties, integers, floats,
                collinear sets, duplicates), any-sign weights, permutation and positive rescaling
dominates_grid  exhaustive: all pairs on {0,1,2}^2 x violation scores {-1,0,0.5,2}^2
dominates       generated triples: value, irreflexive, asymmetric, transitive
dist            the three distance transformations against the geometric definition, translation / permutation
                invariance, finiteness with constant objectives and one-point fronts

``numpy.empty`` / ``numpy.empty_like`` are replaced, while pybrops code runs, by an allocator that fills the new array
with NaN (floats, complex), a sentinel (integers) or True (booleans).  The contents of such an array are unspecified,
so this is one admissible behaviour of numpy; it makes "an element was read before it was written" a deterministic,
replayable function of the case instead of something that depends on what the heap happened to contain.
"""
import contextlib
import itertools
import math

import numpy
from hypothesis import strategies as st

from pbt import compat  # noqa: F401
from pbt.core import SubCheck
from pbt.oracles import pareto_ref as R

from pybrops.core.util.pareto import is_pareto_efficient
from pybrops.core.util.trans import trans_ndpt_pseudo_dist
from pybrops.breed.prot.sel.prob.trans import trans_ndpt_to_vec_dist as prob_trans_ndpt_to_vec_dist
from pybrops.breed.prot.sel.transfn import trans_ndpt_to_vec_dist as transfn_trans_ndpt_to_vec_dist
from pybrops.breed.prot.sel.SelectionProtocol import SelectionProtocol
from pybrops.opt.algo.pymoo_addon import dominates as pb_dominates

ASSUMPTIONS = [
    "filter: points and weights are finite floats (|x| <= 1e6, |w| <= 1e3); comparisons are made on float(x)*float(w), "
    "the single IEEE product the implementation also forms, so soundness/completeness are exact statements",
    "filter: a duplicate of a non-dominated point may be marked or not (the property says 'equalled or dominated by a "
    "marked one'); only the set of efficient vectors is compared across permutation / rescaling",
    "filter: rescaling factors are powers of two for float point sets (exact) and arbitrary positive factors for small "
    "integer grids (strictly monotone there), so the dominance relation is mathematically unchanged",
    "dist: objective sign vectors are +-1 (other values are documented as undefined), preference vectors are "
    "non-negative, non-zero, entries 0 or in [1e-3, 1e3]; float coordinates are 0 or 1e-6 <= |x| <= 1e6, integer "
    "coordinates (|x| <= 1000) are multiplied by a unit 2**k, -40 <= k <= 40, common to the front or chosen per "
    "objective (exact in binary64; the min-max scaling of the definition removes it exactly)",
    "dist: tolerance |d - d_ref| <= 128*eps*nobj*sqrt(nobj) (forward error of scale/dot/project/norm on data in "
    "[0,1]; derived in pbt/checks/c19.py), d_ref from exact rational arithmetic with one final sqrt",
    "dist: the translation clause is only asserted where the translation is exact in binary64 (integer grids times "
    "a power-of-two unit)",
    "dominates: minimisation, feasible iff cv <= 0 as documented; -0.0 counts as 0",
    "numpy.empty / numpy.empty_like are replaced by a NaN / sentinel / True-filling allocator while pybrops code runs "
    "(every call of the filter, dominates() and the three distance transformations); their contents are unspecified, "
    "so a result that is only right for some contents of never-written elements is not the function of the inputs "
    "the property describes",
]

EPS = 2.0 ** -52


# ====================================================================================== poisoned allocator
_real_empty = numpy.empty
_real_empty_like = numpy.empty_like
INT_SENTINEL = -(2 ** 62) + 12345


def _poison(out):
    kind = out.dtype.kind
    if kind in "fc":
        out.fill(numpy.nan)
    elif kind in "iu":
        out.fill(INT_SENTINEL if (kind == "i" and out.dtype.itemsize >= 8) else numpy.iinfo(out.dtype).max)
    elif kind == "b":
        out.fill(True)
    return out


def _poison_empty(*a, **k):
    return _poison(_real_empty(*a, **k))


def _poison_empty_like(*a, **k):
    return _poison(_real_empty_like(*a, **k))


@contextlib.contextmanager
def poisoned():
    """Run pybrops code with never-written array elements made visible (NaN / sentinel / True)."""
    numpy.empty, numpy.empty_like = _poison_empty, _poison_empty_like
    try:
        yield
    finally:
        numpy.empty, numpy.empty_like = _real_empty, _real_empty_like


def call(fn, *a, **k):
    with poisoned():
        return fn(*a, **k)


SIGN_PATTERNS = [(1.0, 1.0), (1.0, -1.0), (-1.0, 1.0), (-1.0, -1.0)]


# ====================================================================================== filter: shared clauses
def run_filter(points, wt, ctx, tag):
    """Call both forms of is_pareto_efficient on (points, wt); assert the per-call clauses; return marked list."""
    npt = len(points)
    nobj = len(wt)
    P = numpy.array(points, dtype="float64").reshape(npt, nobj)
    W = numpy.array(wt, dtype="float64")
    P0, W0 = P.copy(), W.copy()
    mask = call(is_pareto_efficient, P, W, return_mask=True)
    idx = call(is_pareto_efficient, P, W, return_mask=False)
    ctx.check(isinstance(mask, numpy.ndarray) and mask.dtype == bool and mask.shape == (npt,), tag + "mask.form",
              lambda: "mask %r" % (mask,))
    ctx.check(isinstance(idx, numpy.ndarray) and idx.ndim == 1 and idx.dtype.kind in "iu", tag + "index.form",
              lambda: "index %r" % (idx,))
    marked = [bool(x) for x in mask]
    il = [int(x) for x in idx]
    ctx.check(len(set(il)) == len(il) and all(0 <= i < npt for i in il), tag + "index.valid",
              lambda: "indices %s for %d points" % (il, npt))
    ctx.check(sorted(il) == [i for i in range(npt) if marked[i]], tag + "mask_index_agree",
              lambda: "mask %s vs indices %s for points %s wt %s" % (marked, il, points, wt))
    ctx.check(numpy.array_equal(P, P0) and numpy.array_equal(W, W0), tag + "inputs_mutated")
    defects = R.filter_defects(points, wt, marked)
    for kind, i, j in defects:
        if kind == "unsound":
            ctx.fail(tag + "soundness", "point %d %s marked efficient but dominated by point %d %s; points=%s wt=%s mask=%s"
                     % (i, points[i], j, points[j], points, wt, marked))
        else:
            ctx.fail(tag + "completeness", "point %d %s unmarked but no marked point equals or dominates it; "
                     "points=%s wt=%s mask=%s" % (i, points[i], points, wt, marked))
    return marked


def vecset(points, marked):
    return set(tuple(float(x) for x in points[i]) for i in range(len(points)) if marked[i])


# ====================================================================================== filter_grid (exhaustive)
GRID2 = [[x, y] for x in range(3) for y in range(3)]


def filter_grid_cases(tier):
    nmax = 5 if tier == "thorough" else 4
    out = []
    for n in range(0, nmax + 1):
        for seq in itertools.product(range(9), repeat=n):
            out.append({"pts": list(seq)})
    return out


def check_filter_grid(case, ctx):
    points = [list(GRID2[i]) for i in case["pts"]]
    n = len(points)
    ctx.label("npt=%d" % n)
    dup = len(set(case["pts"])) < n
    ctx.label("has_duplicates", dup)
    any_dominated = False
    for wt in SIGN_PATTERNS:
        tag = "grid."
        if n == 0:
            P = numpy.zeros((0, 2))
            m = call(is_pareto_efficient, P, numpy.array(wt), True)
            i = call(is_pareto_efficient, P, numpy.array(wt), False)
            ctx.check(m.shape == (0,) and i.shape == (0,), tag + "empty_set", "mask %r index %r" % (m, i))
            continue
        marked = run_filter(points, list(wt), ctx, tag)
        ref = R.efficient_mask(points, wt)
        any_dominated = any_dominated or not all(ref)
        refset = set(tuple(float(x) for x in points[k]) for k in range(n) if ref[k])
        ctx.check(vecset(points, marked) == refset, tag + "efficient_vector_set",
                  lambda: "points %s wt %s marked %s reference non-dominated %s" % (points, wt, marked, ref))
    ctx.label("has_dominated_point", any_dominated)
    ctx.nontrivial(any_dominated or dup)


# ====================================================================================== filter (generated)
# (the powers of two beyond 2**53 make one objective so large that differences in another one vanish in a row sum)
INT_SCALES = [0.1, 0.5, 2.0, 3.0, 7.3, 10.0, 1e-3, 1e3, 2.0 ** 55, 2.0 ** 60, 2.0 ** 60, 2.0 ** 70, 2.0 ** -60]
GEN_WEIGHTS = [1.0, -1.0, 1.0, -1.0, 0.5, -0.5, 2.0, -2.0, 1e-3, -1e-3, 1e3, -1e3, 0.37, -0.37, 0.0]
_coord_float = st.one_of(st.just(0.0),
                         st.floats(min_value=1e-6, max_value=1e6, allow_nan=False, allow_infinity=False),
                         st.floats(min_value=-1e6, max_value=-1e-6, allow_nan=False, allow_infinity=False))


@st.composite
def filter_case(draw):
    nobj = draw(st.sampled_from([1, 2, 2, 2, 3, 3, 4]))
    npt = draw(st.integers(1, 14))
    kind = draw(st.sampled_from(["grid3", "grid3", "grid5", "int", "float", "collinear"]))
    if kind == "grid3":
        pts = [[draw(st.integers(0, 2)) for _ in range(nobj)] for _ in range(npt)]
    elif kind == "grid5":
        pts = [[draw(st.integers(0, 4)) for _ in range(nobj)] for _ in range(npt)]
    elif kind == "int":
        pts = [[draw(st.integers(-50, 50)) for _ in range(nobj)] for _ in range(npt)]
    elif kind == "float":
        pts = [[draw(_coord_float) for _ in range(nobj)] for _ in range(npt)]
    else:
        base = [draw(st.integers(-5, 5)) for _ in range(nobj)]
        dirn = [draw(st.integers(-2, 2)) for _ in range(nobj)]
        pts = []
        for _ in range(npt):
            t = draw(st.integers(-4, 4))
            pts.append([b + t * d for b, d in zip(base, dirn)])
    # copies of whole points and of single coordinates (ties), interpreted relative to the shape
    ndup = draw(st.integers(0, 3))
    dups = [[draw(st.integers(0, 99)), draw(st.integers(0, 99))] for _ in range(ndup)]
    ntie = draw(st.integers(0, 3))
    ties = [[draw(st.integers(0, 99)), draw(st.integers(0, 99)), draw(st.integers(0, 9))] for _ in range(ntie)]
    wkind = draw(st.sampled_from(["ones", "signs", "signs", "general"]))
    if wkind == "ones":
        wt = [1.0] * nobj
    elif wkind == "signs":
        wt = [draw(st.sampled_from([1.0, -1.0])) for _ in range(nobj)]
    else:
        wt = [draw(st.sampled_from(GEN_WEIGHTS)) for _ in range(nobj)]
    perm = draw(st.permutations(list(range(npt))))
    if kind == "float":
        scale = [2.0 ** draw(st.one_of(st.integers(-20, 20), st.sampled_from([55, 60, 70, -60]))) for _ in range(nobj)]
    else:
        scale = [draw(st.sampled_from(INT_SCALES)) for _ in range(nobj)]
    scale_on = draw(st.sampled_from(["points", "weights"]))
    return {"nobj": nobj, "kind": kind, "pts": pts, "dups": dups, "ties": ties, "wt": wt, "perm": list(perm),
            "scale": scale, "scale_on": scale_on}


def build_points(case):
    pts = [[float(x) for x in p] for p in case["pts"]]
    n = len(pts)
    for s, d in case["dups"]:
        pts[d % n] = list(pts[s % n])
    for s, d, c in case["ties"]:
        pts[d % n][c % case["nobj"]] = pts[s % n][c % case["nobj"]]
    return pts


def check_filter(case, ctx):
    points = build_points(case)
    wt = [float(w) for w in case["wt"]]
    n, nobj = len(points), case["nobj"]
    Wp = R.apply_weights(points, wt)
    ref = R.efficient_mask(points, wt)
    ctx.label("kind=" + case["kind"])
    ctx.label("nobj=%d" % nobj)
    ctx.label("single_point", n == 1)
    ctx.label("has_duplicates", len(set(Wp)) < n)
    ctx.label("has_coordinate_tie", any(Wp[a] != Wp[b] and any(x == y for x, y in zip(Wp[a], Wp[b]))
                                        for a in range(n) for b in range(a + 1, n)))
    ctx.label("all_efficient", all(ref))
    ctx.label("has_dominated_point", not all(ref))
    ctx.label("mixed_sign_weights", any(w < 0 for w in wt) and any(w > 0 for w in wt))
    ctx.label("zero_weight", any(w == 0 for w in wt))
    ctx.label("collinear_front", case["kind"] == "collinear" and sum(ref) >= 3)
    ctx.nontrivial(n >= 3 and not all(ref) and sum(ref) >= 1)

    # efficient *vectors* are compared in the weighted objective space of the unscaled problem (with a zero
    # weight two different raw points are the same objective vector)
    marked = run_filter(points, wt, ctx, "")
    base_set = vecset(Wp, marked)
    ref_set = set(Wp[i] for i in range(n) if ref[i])
    ctx.check(base_set == ref_set, "efficient_vector_set",
              lambda: "points %s wt %s marked %s reference %s" % (points, wt, marked, ref))

    # order of points
    perm = case["perm"]
    pp = [points[i] for i in perm]
    mp = run_filter(pp, wt, ctx, "perm.")
    ctx.check(vecset([Wp[i] for i in perm], mp) == base_set, "permutation_changes_efficient_set",
              lambda: "points %s wt %s: marked %s; permuted by %s: marked %s" % (points, wt, marked, perm, mp))

    # positive rescaling of objectives
    sc = [float(s) for s in case["scale"]]
    ctx.label("rescaled_objectives_differ_by_more_than_2^53", len(sc) >= 2 and max(sc) / min(sc) >= 2.0 ** 53 and len(points) >= 2)
    if case["scale_on"] == "points":
        ps = [[x * s for x, s in zip(p, sc)] for p in points]
        ms = run_filter(ps, wt, ctx, "rescale.")
    else:
        ms = run_filter(points, [w * s for w, s in zip(wt, sc)], ctx, "rescale.")
    ctx.check(vecset(Wp, ms) == base_set, "rescaling_changes_efficient_set",
              lambda: "points %s wt %s: marked %s; objectives rescaled by %s (%s): marked %s"
              % (points, wt, marked, sc, case["scale_on"], ms))


# ====================================================================================== dominates
CVS = [-1.0, 0.0, 0.5, 2.0]


def dominates_grid_cases(tier):
    out = []
    for a in range(9):
        for b in range(9):
            for c1 in range(4):
                for c2 in range(4):
                    out.append({"a": a, "b": b, "c1": c1, "c2": c2})
    return out


def _dom(o1, c1, o2, c2):
    return call(pb_dominates, numpy.array(o1, dtype="float64"), c1, numpy.array(o2, dtype="float64"), c2)


def check_dominates_grid(case, ctx):
    o1, o2 = GRID2[case["a"]], GRID2[case["b"]]
    c1, c2 = CVS[case["c1"]], CVS[case["c2"]]
    r12 = _dom(o1, c1, o2, c2)
    r21 = _dom(o2, c2, o1, c1)
    ctx.check(isinstance(r12, (bool, numpy.bool_)), "dominates.returns_bool", repr(type(r12)))
    exp = R.constrained_dominates(o1, c1, o2, c2)
    ctx.label("both_feasible", c1 <= 0 and c2 <= 0)
    ctx.label("one_feasible", (c1 <= 0) != (c2 <= 0))
    ctx.label("both_infeasible", c1 > 0 and c2 > 0)
    ctx.nontrivial(exp or R.constrained_dominates(o2, c2, o1, c1))
    ctx.check(bool(r12) == exp, "dominates.value", "dominates(%s,%s,%s,%s)=%s expected %s" % (o1, c1, o2, c2, r12, exp))
    ctx.check(not (bool(r12) and bool(r21)), "dominates.asymmetric", "%s cv %s <-> %s cv %s" % (o1, c1, o2, c2))
    if case["a"] == case["b"] and c1 == c2:
        ctx.check(not bool(r12), "dominates.irreflexive", "%s cv %s" % (o1, c1))


_cv = st.one_of(st.sampled_from([0.0, -0.0, -1.0, 0.5, 1.0, 2.0, 1e-300, -1e-300]),
                st.floats(-10, 10, allow_nan=False))


@st.composite
def dominates_case(draw):
    nobj = draw(st.integers(1, 4))
    kind = draw(st.sampled_from(["grid", "grid", "float"]))
    el = st.integers(0, 2) if kind == "grid" else st.floats(-1e6, 1e6, allow_nan=False)
    sols = []
    for _ in range(3):
        sols.append({"obj": [draw(el) for _ in range(nobj)], "cv": draw(_cv)})
    # sometimes make solutions share objectives / violation
    share = draw(st.lists(st.sampled_from(["obj01", "obj12", "cv01", "cv12", "chain"]), max_size=2))
    return {"sols": sols, "share": share}


def check_dominates(case, ctx):
    sols = [{"obj": [float(x) for x in s["obj"]], "cv": float(s["cv"])} for s in case["sols"]]
    for sh in case["share"]:
        if sh == "obj01":
            sols[1]["obj"] = list(sols[0]["obj"])
        elif sh == "obj12":
            sols[2]["obj"] = list(sols[1]["obj"])
        elif sh == "cv01":
            sols[1]["cv"] = sols[0]["cv"]
        elif sh == "cv12":
            sols[2]["cv"] = sols[1]["cv"]
        elif sh == "chain":      # make a dominance chain 0 > 1 > 2 among feasible solutions
            sols[1]["obj"] = [x + 1.0 for x in sols[0]["obj"]]
            sols[2]["obj"] = [x + 1.0 for x in sols[1]["obj"]]
    rel = {}
    for i in range(3):
        for j in range(3):
            a, b = sols[i], sols[j]
            r = bool(_dom(a["obj"], a["cv"], b["obj"], b["cv"]))
            exp = R.constrained_dominates(a["obj"], a["cv"], b["obj"], b["cv"])
            rel[i, j] = r
            ctx.check(r == exp, "dominates.value", "dominates(%s,%s,%s,%s)=%s expected %s"
                      % (a["obj"], a["cv"], b["obj"], b["cv"], r, exp))
    nfeas = sum(1 for s in sols if s["cv"] <= 0)
    ctx.label("feasible=%d/3" % nfeas)
    ctx.label("some_dominance", any(rel.values()))
    ctx.label("chain_of_three", any(rel[i, j] and rel[j, k] for i in range(3) for j in range(3) for k in range(3)))
    ctx.nontrivial(any(rel.values()))
    for i in range(3):
        ctx.check(not rel[i, i], "dominates.irreflexive", str(sols[i]))
        for j in range(3):
            ctx.check(not (rel[i, j] and rel[j, i]), "dominates.asymmetric", "%s %s" % (sols[i], sols[j]))
            for k in range(3):
                if rel[i, j] and rel[j, k]:
                    ctx.check(rel[i, k], "dominates.transitive", "%s > %s > %s" % (sols[i], sols[j], sols[k]))


# ====================================================================================== distance transformations
VEC_ENTRIES = [0.0, 1.0, 1.0, 0.5, 2.0, 0.2, 0.8, 0.333, 1e-3, 1e3]
DIST_FUNCS = [
    ("core", trans_ndpt_pseudo_dist, False),
    ("prob", prob_trans_ndpt_to_vec_dist, True),
    ("transfn", transfn_trans_ndpt_to_vec_dist, True),
]


@st.composite
def dist_case(draw):
    nobj = draw(st.sampled_from([1, 2, 2, 2, 3, 3, 4]))
    shape = draw(st.sampled_from(["generic", "generic", "front", "front", "const_col", "const_col", "front_const",
                                  "one_point"]))
    if shape == "one_point":
        npt = 1
    elif shape in ("front", "front_const"):
        npt = draw(st.integers(4, 14))
    else:
        npt = draw(st.integers(2, 10))
    kind = draw(st.sampled_from(["grid", "int", "float"]))
    if kind == "grid":
        el = st.integers(0, 4)
    elif kind == "int":
        el = st.integers(-1000, 1000)
    else:
        el = _coord_float
    pts = [[draw(el) for _ in range(nobj)] for _ in range(npt)]
    const_cols = []
    if shape in ("const_col", "front_const"):
        const_cols = draw(st.lists(st.integers(0, nobj - 1), min_size=1, max_size=nobj, unique=True))
    signs = [draw(st.sampled_from([1.0, 1.0, -1.0])) for _ in range(nobj)]
    vkind = draw(st.sampled_from(["ones", "equal", "table", "table", "float"]))
    if vkind == "ones":
        vec = [1.0] * nobj
    elif vkind == "equal":
        vec = [draw(st.sampled_from([0.5, 2.0, 0.333, 1e-3, 1e3]))] * nobj
    elif vkind == "table":
        vec = [draw(st.sampled_from(VEC_ENTRIES)) for _ in range(nobj)]
    else:
        vec = [draw(st.floats(1e-3, 1e3, allow_nan=False)) for _ in range(nobj)]
    force = draw(st.integers(0, nobj - 1))
    if not any(v > 0 for v in vec):
        vec[force] = 1.0
    # unit of measurement of the objectives: one power of two for the whole front or one per objective
    _uexp = st.one_of(st.integers(-10, 10), st.integers(-10, 10), st.integers(-40, 40), st.integers(-40, -28),
                      st.integers(28, 40))
    if draw(st.sampled_from(["same", "same", "per_objective"])) == "same":
        unit_exp = draw(_uexp)
    else:
        unit_exp = [draw(_uexp) for _ in range(nobj)]
    shift = [draw(st.integers(-1000, 1000)) for _ in range(nobj)]
    perm = draw(st.permutations(list(range(npt))))
    return {"nobj": nobj, "shape": shape, "kind": kind, "pts": pts, "const_cols": const_cols, "signs": signs,
            "vec": vec, "unit_exp": unit_exp, "shift": shift, "perm": list(perm)}


def check_dist(case, ctx):
    nobj = case["nobj"]
    pts = [[float(x) for x in p] for p in case["pts"]]
    for c in case["const_cols"]:
        for p in pts:
            p[c] = pts[0][c]
    signs = [float(s) for s in case["signs"]]
    vec = [float(v) for v in case["vec"]]
    exact_grid = case["kind"] in ("grid", "int")
    ue = case["unit_exp"]
    ue = [int(e) for e in ue] if isinstance(ue, list) else [int(ue)] * nobj
    units = [2.0 ** e if exact_grid else 1.0 for e in ue]
    if case["shape"] in ("front", "front_const"):     # front_const: a true front on which some objective does not vary
        keep = R.efficient_mask(pts, signs)
        pts = [p for p, k in zip(pts, keep) if k]
    pts = [[x * u for x, u in zip(p, units)] for p in pts]           # exact: integers times a power of two
    npt = len(pts)
    perm = [i for i in case["perm"] if i < npt]
    const_col = any(len(set(p[j] for p in pts)) == 1 for j in range(nobj))
    vec_zero = any(v == 0.0 for v in vec)
    swap_harmless = all(s == 1.0 for s in signs) and len(set(vec)) == 1
    ctx.label("shape=" + case["shape"])
    ctx.label("kind=" + case["kind"])
    ctx.label("nobj=%d" % nobj)
    ctx.label("one_point", npt == 1)
    ctx.label("constant_objective", const_col and npt > 1)
    ctx.label("all_objectives_constant", npt > 1 and all(len(set(p[j] for p in pts)) == 1 for j in range(nobj)))
    ctx.label("has_minimised_objective", any(s < 0 for s in signs))
    ctx.label("preference_has_zero_entry", vec_zero)
    ctx.label("preference_not_diagonal", len(set(vec)) > 1)
    ctx.label("true_front_with_3+_points", case["shape"] in ("front", "front_const") and npt >= 3)
    ranges = [max(p[j] for p in pts) - min(p[j] for p in pts) for j in range(nobj)]
    ctx.label("varying_objective_with_range_below_1e-8", any(0.0 < r <= 1e-8 for r in ranges))
    ctx.label("varying_objective_with_range_above_1e8", any(r >= 1e8 for r in ranges))
    ctx.label("objectives_in_different_units", exact_grid and len(set(ue)) > 1)
    ctx.label("true_front_with_constant_objective", case["shape"] == "front_const" and npt >= 2)
    ctx.nontrivial(npt >= 2 and nobj >= 2 and not all(len(set(p[j] for p in pts)) == 1 for j in range(nobj)))

    ref = R.vec_dist(pts, signs, vec)
    tol = 128.0 * EPS * nobj * math.sqrt(nobj)
    M = numpy.array(pts, dtype="float64").reshape(npt, nobj)
    S = numpy.array(signs, dtype="float64")
    V = numpy.array(vec, dtype="float64")
    shifted = [[(x / u + t) * u for x, t, u in zip(p, case["shift"], units)] for p in pts] if exact_grid else None

    def conditioning(rows):
        """largest |value| / range over the varying objectives: how much a relative rounding error of the inputs is
        amplified by min-max scaling"""
        worst = 0.0
        for j in range(nobj):
            col = [r[j] for r in rows]
            rg = max(col) - min(col)
            if rg > 0.0:
                worst = max(worst, max(abs(c) for c in col) / rg)
        return worst

    # The sel/prob variant multiplies the points by the *preference vector* before min-max scaling (F-C19-b).  Where
    # that is harmless in exact arithmetic (all signs +1, all entries equal) it still rounds every product unless the
    # entry is a power of two, and min-max scaling amplifies that by |value|/range (a front whose objective varies by
    # one ulp can even collapse).  The tolerance of the sel variants therefore carries the conditioning of the input.
    vec_exact = all(v > 0.0 and math.frexp(v)[0] == 0.5 for v in vec)
    base_tol = tol

    for name, fn, is_sel_variant in DIST_FUNCS:
        tag = "dist.%s." % name
        extra = 0.0 if (vec_exact or not is_sel_variant) else 4.0 * EPS
        tol = base_tol + extra * conditioning(pts)
        M1, S1, V1 = M.copy(), S.copy(), V.copy()
        out = call(fn, M1, S1, V1)
        ctx.check(isinstance(out, numpy.ndarray) and out.shape == (npt,), tag + "shape", lambda: repr(out))
        ctx.check(numpy.array_equal(M1, M) and numpy.array_equal(S1, S) and numpy.array_equal(V1, V),
                  tag + "inputs_mutated")
        got = [float(x) for x in out]
        # known findings, input-side signatures ---------------------------------------------------------
        b_active = is_sel_variant and ctx.known("F-C19-b", not swap_harmless)
        a_sig = const_col or (b_active and vec_zero)
        if is_sel_variant and ctx.known("F-C19-a", a_sig):
            continue        # NaN expected for this input; nothing further can be said about the values
        # ---------------------------------------------------------------------------------------------------
        # asserted whatever F-C19-b says about the roles of the two weight arguments
        ctx.label("finiteness_asserted_with_constant_objective_for_" + name, const_col and npt > 1)
        if not ctx.check(all(math.isfinite(x) for x in got), tag + "finite",
                         lambda: "%s(mat=%s, signs=%s, vec=%s) = %s" % (name, pts, signs, vec, got)):
            continue        # (already reported in this run) the value clauses below are moot for NaN output
        ctx.check(all(x >= 0.0 for x in got), tag + "nonnegative", lambda: str(got))
        if not b_active:
            ctx.label("definition_asserted_for_" + name)
            bad = [i for i in range(npt) if not abs(got[i] - ref[i]) <= tol]
            ctx.check(not bad, tag + "geometric_definition",
                      lambda: "%s(mat=%s, signs=%s, vec=%s) = %s; definition gives %s (tol %.2g)"
                      % (name, pts, signs, vec, got, ref, tol))
        # translation of the whole front (exact in binary64 for grid kinds)
        if shifted is not None:
            M2 = numpy.array(shifted, dtype="float64").reshape(npt, nobj)
            o2 = [float(x) for x in call(fn, M2, S.copy(), V.copy())]
            tol2 = tol + extra * conditioning(shifted)
            ctx.check(all(abs(x - y) <= tol2 for x, y in zip(got, o2)), tag + "translation_invariance",
                      lambda: "%s: %s -> %s after translating by %s*%s (mat=%s signs=%s vec=%s)"
                      % (name, got, o2, case["shift"], units, pts, signs, vec))
        # order of points
        if npt > 1:
            o3 = [float(x) for x in call(fn, M[perm].copy(), S.copy(), V.copy())]
            ctx.check(all(abs(o3[k] - got[perm[k]]) <= tol for k in range(npt)), tag + "permutation_equivariance",
                      lambda: "%s: %s vs %s under %s" % (name, got, o3, perm))


def check_default_is_prob_variant(case, ctx):
    """The default ndset_trans of every selection protocol is the sel/prob/trans.py variant (anchors l.604-609)."""
    import inspect
    src = inspect.getsource(SelectionProtocol.ndset_trans.fset)
    ctx.nontrivial(True)
    ctx.check("trans_ndpt_to_vec_dist" in src, "default_ndset_trans.is_vec_dist")
    import pybrops.breed.prot.sel.SelectionProtocol as mod
    ctx.check(mod.trans_ndpt_to_vec_dist is prob_trans_ndpt_to_vec_dist, "default_ndset_trans.is_prob_variant")


SUBCHECKS = [
    SubCheck("filter_grid", check_filter_grid, cases=filter_grid_cases, shards_quick=4, shards_thorough=16,
             rule="exhaustive: all ordered sequences of 0..4 points (thorough: 0..5) on {0,1,2}^2, each under the 4 "
                  "sign patterns, mask and index form; non-trivial = contains a dominated or duplicated point",
             required_labels=("has_duplicates", "has_dominated_point")),
    SubCheck("filter", check_filter, filter_case(), quick=2500, thorough=6000, shards_quick=4,
             rule="generated sets (1-14 points, 1-4 objectives; 3/5-level grids, integers, floats, collinear sets; "
                  "forced duplicates and single-coordinate ties), weights ones/signs/general incl. 0, permutation, "
                  "positive rescaling; non-trivial = >=3 points with at least one dominated point",
             required_labels=("single_point", "has_duplicates", "has_coordinate_tie", "collinear_front",
                              "mixed_sign_weights", "has_dominated_point", "rescaled_objectives_differ_by_more_than_2^53")),
    SubCheck("dominates_grid", check_dominates_grid, cases=dominates_grid_cases, shards_quick=1, shards_thorough=1,
             rule="exhaustive: ordered pairs on {0,1,2}^2 x cv in {-1,0,0.5,2}^2; non-trivial = one dominates the other",
             required_labels=("both_feasible", "one_feasible", "both_infeasible")),
    SubCheck("dominates", check_dominates, dominates_case(), quick=2000, thorough=10000, shards_quick=2,
             rule="generated triples of (objectives, violation) with shared objectives/violations and forced chains; "
                  "non-trivial = at least one dominance among the three",
             required_labels=("chain_of_three", "feasible=3/3", "feasible=0/3")),
    SubCheck("dist", check_dist, dist_case(), quick=2500, thorough=6000, shards_quick=4,
             rule="generated fronts (generic sets, true non-dominated fronts, forced constant objectives on generic "
                  "sets and on true fronts, one point; units 2**-40..2**40, common or per objective) x sign vector x "
                  "preference vector, three implementations, "
                  "numpy.empty poisoned; non-trivial = >=2 points, >=2 objectives, not all objectives constant",
             required_labels=("one_point", "constant_objective", "true_front_with_constant_objective",
                              "finiteness_asserted_with_constant_objective_for_core",
                              "finiteness_asserted_with_constant_objective_for_prob",
                              "finiteness_asserted_with_constant_objective_for_transfn", "has_minimised_objective",
                              "varying_objective_with_range_below_1e-8", "varying_objective_with_range_above_1e8",
                              "objectives_in_different_units",
                              "preference_has_zero_entry", "true_front_with_3+_points", "definition_asserted_for_core",
                              "definition_asserted_for_prob", "definition_asserted_for_transfn")),
]
