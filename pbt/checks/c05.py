"""C05 -- selection objectives mean what they say in every decision encoding.

Sub-checks
----------
inventory      every concrete class found in pybrops.breed.prot.sel.prob at run time is either covered by a
               criterion handler below or excluded with a printed reason (a new, unknown class is a violation)
ctor_<crit>    constructor-level clauses on harness-made data: definition (oracle: pbt/oracles/problem_defs.py,
               exact rational arithmetic), agreement of the subset / integer / binary / real encodings,
               listing-order and rescaling invariance, evalfn = weights x transformations(latent), evaluate()
               row-wise equal to evalfn, nlatent = len(latent); real-encoded vectors come in units of 2**-100 .. 2**100
               (totals ~1e-37 .. ~1e+37) in every sub-check that builds a real-encoding class
hist_<crit>    histories on one problem object per encoding: built, verified, then re-declared through public setters (subset
               size ndecn, single data attributes, all data, number of candidates, weights, transformations and their kwargs,
               decision-space arrays) and verified after every assignment with a decision vector of the size THEN declared
               against the definition on the data THEN declared; every factory-made problem gets a short history of the same kind
               (clauses <crit>.history.* and <crit>.factory.history.*)
fact_<group>   factory clauses: problems built from a population hold that population's data in its taxon order; every
               factory of every class is called with three distinct recording transformations (own kwargs each) and weights,
               and evalfn of the factory-made problem = declared weights x declared transformations(latent, **declared kwargs)
fact_hap_large / fact_uc_large
               the same factory clauses on sizes across the library's memory-chunk boundary (the factories hard-wire
               chunks of 1024 cross configurations / 1024 markers of a linkage group): populations made from a drawn seed
"""
import inspect
import importlib
import math
import os
import pkgutil
from fractions import Fraction as Fr

import numpy
from hypothesis import strategies as st

from pbt import compat  # noqa: F401
from pbt.core import SubCheck
from pbt.oracles import problem_defs as D

import pybrops.breed.prot.sel.prob as _probpkg
from pybrops.breed.prot.sel.prob.SelectionProblem import SelectionProblem
from pybrops.breed.prot.sel.prob.SubsetSelectionProblem import SubsetSelectionProblem
from pybrops.breed.prot.sel.prob.IntegerSelectionProblem import IntegerSelectionProblem
from pybrops.breed.prot.sel.prob.BinarySelectionProblem import BinarySelectionProblem
from pybrops.breed.prot.sel.prob.RealSelectionProblem import RealSelectionProblem
from pybrops.breed.prot.sel.prob.MateSelectionProblem import MateSelectionProblem
from pybrops.breed.prot.sel.prob import trans as _trans

EPS = D.EPS

ASSUMPTIONS = [
    "a subset decision vector lists DISTINCT members (a subset); repeated members are expressed with the integer encoding",
    "integer / binary / real decision vectors have a positive sum (at least one selected element); the all-zero vector (0/0) has no "
    "defined value and is not generated",
    "real contribution vectors: non-negative entries, totals between ~1e-37 and ~1e+37 (small-integer counts times scale * 2**pow, "
    "pow = -100..100, exact in binary floating point; free vectors of [0,1]^n times a factor of the same range) - far from the "
    "underflow of 1/total; nine real-encoding classes are known to stop normalising below a total of 1e-10 (finding F-C05-i, explicit "
    "class list NEAR_ZERO_TOTAL_FALLBACK): for them the value clauses are skipped below that total, for every other class they are asserted",
    "kinship criteria receive an upper-triangular factor C; the criterion is defined through K = C'C (OCS/MGR/L2: sqrt(c'Kc); "
    "MEH: the library's own latent form -(1 - sqrt(c'Kc)))",
    "GenotypeBuilder: 1 <= nbestfndr <= number of selected taxa",
    "weighted GEBV: markers whose favourable-allele frequency is 0 keep weight 1 (the documented convention of the "
    "generalised weighted criterion, which the WeightedGenomicSelection protocol itself uses with alpha = 1/2)",
    "UC factory: inbred parents, nself = 0, Haldane map function (the two-way DH variance formula's own domain)",
    "haplotype-block factories: layouts with a marker on an interior bin edge or with an empty bin are kept out (C18's subject)",
    "transformations handed to factories accept **kwargs (like every transformation shipped in trans.py) and are pure functions",
    "histories: a problem is re-declared only by assignment to its public properties, in an order every setter accepts (size of the "
    "decision space, then the space, then the data); the clauses are asserted for complete re-declarations only (after the number of "
    "latent variables changed, the transformations and weights are re-declared for it before the problem is used); arrays and "
    "dictionaries held by a problem are never edited in place (whether a problem copies its inputs is not part of the property)",
    "fact_hap_large / fact_uc_large: fixed size lists; the seeds of their populations are derived from VERIF_SEED and stored in the case",
]

# ----------------------------------------------------------------------------------------------------------------
# inventory of the concrete classes, taken from the package at import time
# ----------------------------------------------------------------------------------------------------------------
EXCLUDED = {
    "RealLookAheadGeneralizedWeightedGenomicSelectionProblem":
        "latent function is a Monte-Carlo breeding simulation driven by the global numpy stream; no closed definition",
    "MultiObjectiveGenomicSubsetMatingProblem":
        "latentfn raises Exception('implement extraction of parents from xmap') unconditionally (unfinished upstream)",
}

# module name -> criterion key
MODULE_CRIT = {
    "EstimatedBreedingValueSelectionProblem": "EBV",
    "GenomicEstimatedBreedingValueSelectionProblem": "GEBV",
    "RandomSelectionProblem": "Random",
    "WeightedGenomicSelectionProblem": "WGS",
    "GeneralizedWeightedGenomicEstimatedBreedingValueSelectionProblem": "GWGEBV",
    "FamilyEstimatedBreedingValueSelectionProblem": "Family",
    "OptimalContributionSelectionProblem": "OCS",
    "MeanGenomicRelationshipSelectionProblem": "MGR",
    "MeanExpectedHeterozygositySelectionProblem": "MEH",
    "L1NormGenomicSelectionProblem": "L1",
    "L2NormGenomicSelectionProblem": "L2",
    "OptimalHaploidValueSelectionProblem": "OHV",
    "OptimalPopulationValueSelectionProblem": "OPV",
    "GenotypeBuilderSelectionProblem": "GB",
    "PopulationAlleleFrequencyDistanceSelectionProblem": "PAFD",
    "PopulationAlleleUnavailabilitySelectionProblem": "PAU",
    "MultiObjectiveGenomicSelectionProblem": "MOGS",
    "UsefulnessCriterionSelectionProblem": "UC",
    "ExpectedMaximumBreedingValueSelectionProblem": "EMBV",
}
ORDER = ["EBV", "GEBV", "Random", "WGS", "GWGEBV", "Family", "OCS", "MGR", "MEH", "L1", "L2", "OHV", "OPV", "GB",
         "PAFD", "PAU", "MOGS", "UC", "EMBV"]


def _encoding(cls):
    for name, base in (("subset", SubsetSelectionProblem), ("integer", IntegerSelectionProblem),
                       ("binary", BinarySelectionProblem), ("real", RealSelectionProblem)):
        if issubclass(cls, base):
            return name
    return None


def discover():
    """[(module, classname, class)] of every concrete SelectionProblem defined in the package (not only __all__)."""
    found = []
    for m in sorted(pkgutil.iter_modules(_probpkg.__path__), key=lambda m: m.name):
        mod = importlib.import_module(_probpkg.__name__ + "." + m.name)
        for name, obj in sorted(vars(mod).items()):
            if (inspect.isclass(obj) and obj.__module__ == mod.__name__ and issubclass(obj, SelectionProblem)
                    and not inspect.isabstract(obj)):
                found.append((m.name, name, obj))
    return found


INVENTORY = discover()
CLASSES = {}          # crit -> {encoding: class}
UNHANDLED = []
for _mod, _name, _cls in INVENTORY:
    if _name in EXCLUDED:
        continue
    _crit = MODULE_CRIT.get(_mod)
    _enc = _encoding(_cls)
    if _crit is None or _enc is None or _enc in CLASSES.get(_crit, {}):
        UNHANDLED.append(_name)
        continue
    CLASSES.setdefault(_crit, {})[_enc] = _cls


def inventory_cases(tier):
    return [{"module": m, "cls": n} for (m, n, _c) in INVENTORY]


def check_inventory(case, ctx):
    name = case["cls"]
    if name in EXCLUDED:
        ctx.label("excluded:%s: %s" % (name, EXCLUDED[name]))
        return
    ctx.check(name not in UNHANDLED, "inventory.unhandled_class",
              "concrete problem class %s (module %s) has no criterion handler and no exclusion reason" % (name, case["module"]))
    crit = MODULE_CRIT[case["module"]]
    ctx.label("covered:%s:%s" % (crit, name))
    ctx.nontrivial(True)


# ----------------------------------------------------------------------------------------------------------------
# small strategies (JSON-able values only)
# ----------------------------------------------------------------------------------------------------------------
def _num():
    return st.one_of(st.integers(-6, 6).map(float),
                     st.floats(-50.0, 50.0, allow_nan=False, allow_infinity=False, width=64),
                     st.sampled_from([0.0, 1.0, -1.0, 0.5, 1e-3, 1e3]))


def _pos():
    return st.one_of(st.integers(1, 6).map(float), st.floats(0.01, 20.0, allow_nan=False, allow_infinity=False),
                     st.sampled_from([1.0, 0.5, 2.0, 1e-3, 3.0, 7.0]))


def _table(draw, nrow, ncol, elem=None, const_ok=True):
    elem = elem or _num()
    kind = draw(st.sampled_from(["free", "free", "free", "const"])) if const_ok else "free"
    if kind == "const":
        row = [draw(elem) for _ in range(ncol)]
        return [list(row) for _ in range(nrow)]
    return [[draw(elem) for _ in range(ncol)] for _ in range(nrow)]


def _triu(draw, n):
    """upper-triangular factor with a strictly positive diagonal (what a Cholesky factor looks like), any signs above"""
    return [[(draw(_pos()) if i == j else (draw(_num()) if j > i else 0.0)) for j in range(n)] for i in range(n)]


def _pow2():
    """exponent e of a power-of-two factor 2**e for real contribution vectors (exact in binary floating point, so the rational
    definition of the rescaled vector is the definition of the original one): whole range -100..100, with weight on totals below
    the 1e-10 ~ 2**-33.2 where a 'sum ~ 0' fallback would sit, and on the neighbourhood of that threshold"""
    return st.one_of(st.just(0), st.integers(-100, 100), st.integers(-100, -34), st.integers(-44, -28),
                     st.sampled_from([-100, -90, -70, -50, -40, -37, -36, -35, -34, -33, -30, 40, 100]))


def _pow2_some():
    """the same, two thirds of the time 0: for the sub-checks whose ONLY real-encoded vector is scale * 2**pow * counts (histories,
    factories) - there a tiny total replaces the ordinary one, and for the classes of finding F-C05-i it is a skipped comparison"""
    return st.one_of(st.just(0), st.just(0), _pow2())


def real_factor(dec):
    """factor that turns the drawn integer counts into the real-encoded vector: scale * 2**pow (cases recorded before `pow` existed: scale)"""
    return float(dec["scale"]) * 2.0 ** int(dec.get("pow", 0))


@st.composite
def _decision(draw, nd, force_binary=False, kmin=1):
    mode = "binary" if force_binary else draw(st.sampled_from(["binary", "binary", "counts"]))
    hi = 1 if mode == "binary" else 3
    cnt = [draw(st.integers(0, hi)) for _ in range(nd)]
    # by construction: at least kmin selected elements (usually 2 or 3, so that averaging is really exercised)
    kmin = min(nd, max(kmin, draw(st.sampled_from([1, 2, 2, 3, 3]))))
    need = kmin - sum(1 for c in cnt if c > 0)
    start = draw(st.integers(0, nd - 1))
    j = start
    while need > 0:
        if cnt[j % nd] == 0:
            cnt[j % nd] = 1
            need -= 1
        j += 1
    xreal = [draw(st.one_of(st.floats(0.0, 1.0, allow_nan=False), st.sampled_from([0.0, 0.0, 1.0, 0.25]))) for _ in range(nd)]
    if sum(xreal) < 1e-3:
        xreal[start] = 1.0
    return {"mode": mode, "cnt": cnt,
            "perm": draw(st.integers(0, 10 ** 6)), "perm2": draw(st.integers(0, 10 ** 6)),
            "scale": draw(st.one_of(st.floats(1e-3, 1e3, allow_nan=False), st.sampled_from([1.0, 0.1, 3.0, 1e-6, 1e6]))),
            "xreal": xreal,
            "scale2": draw(st.one_of(st.floats(1e-3, 1e3, allow_nan=False), st.sampled_from([0.5, 2.0, 3.0, 1e-5]))),
            "pow": draw(_pow2_some()), "pow1": draw(_pow2()), "pow2": draw(_pow2())}


@st.composite
def _transforms(draw, nlatent):
    def affine(nout):
        return {"kind": "affine", "n": nout,
                "A": [[draw(st.integers(-3, 3)) for _ in range(nlatent)] for _ in range(nout)],
                "b": [draw(st.sampled_from([0.0, 1.0, -2.5, 10.0])) for _ in range(nout)],
                "d": draw(st.sampled_from([0.0, 0.0, 1.0, -0.5])),
                "kw": draw(st.sampled_from([None, {}, {"tag": 7}]))}
    okind = draw(st.sampled_from(["default", "identity", "sum", "dot", "affine", "affine"]))
    if okind in ("default", "identity"):
        obj = {"kind": okind, "n": nlatent}
    elif okind == "sum":
        obj = {"kind": "sum", "n": 1}
    elif okind == "dot":
        obj = {"kind": "dot", "n": 1, "w": [draw(_num()) for _ in range(nlatent)]}
    else:
        obj = affine(draw(st.integers(1, 3)))

    def cv(allow_sumeq):
        k = draw(st.sampled_from(["none", "none", "affine"] + (["sumeq"] if allow_sumeq else [])))
        if k == "none":
            return {"kind": "none", "n": 0}
        if k == "sumeq":
            return {"kind": "sumeq", "n": 1, "target": draw(st.sampled_from([1.0, 0.0, 3.0]))}
        return affine(draw(st.integers(1, 2)))
    ineq, eq = cv(False), cv(True)

    def wt(n):
        k = draw(st.sampled_from(["none", "scalar", "array", "array"]))
        if k == "none" or (n == 0 and k == "array" and draw(st.booleans())):
            return None
        if k == "scalar":
            return draw(st.sampled_from([1.0, -1.0, 2.0, -0.5, 0.0]))
        return [draw(st.sampled_from([1.0, -1.0, 2.0, -3.0, 0.5, 0.0])) for _ in range(n)]
    return {"obj": obj, "ineq": ineq, "eq": eq, "obj_wt": wt(obj["n"]), "ineq_wt": wt(ineq["n"]), "eq_wt": wt(eq["n"]),
            "elementwise": draw(st.booleans())}


# transformations for the factory-level clause: three DIFFERENT recording closures, each with its OWN kwargs (the value of a
# closure depends on its "shift" keyword), library transformations that read kwargs, and weights that differ between the roles.
# Matrices / weight vectors are drawn for NLAT_MAX latent variables and cut (cyclically) to the problem's nlatent inside fn.
NLAT_MAX = 6


@st.composite
def _fact_transforms(draw):
    def kw(role):
        k = draw(st.sampled_from(["own", "own", "own", "empty", "none"]))
        if k == "own":
            return {"who": role, "shift": draw(st.sampled_from([0.5, -1.0, 2.0, 3.0, -4.5, 6.0, 10.0]))}
        return {} if k == "empty" else None

    def affine(role, nout):
        return {"kind": "affine", "n": nout,
                "A": [[draw(st.integers(-3, 3)) for _ in range(NLAT_MAX)] for _ in range(nout)],
                "b": [draw(st.sampled_from([0.0, 1.0, -2.5, 10.0])) for _ in range(nout)],
                "d": draw(st.sampled_from([0.0, 0.0, 1.0, -0.5])), "kw": kw(role)}
    okind = draw(st.sampled_from(["default", "dot", "affine", "affine", "affine"]))
    if okind == "default":
        obj = {"kind": "default", "n": None}            # n = nlatent, filled in by fact_tr
    elif okind == "dot":
        obj = {"kind": "dot", "n": 1, "w": [draw(_num()) for _ in range(NLAT_MAX)]}
    else:
        obj = affine("obj", draw(st.integers(1, 3)))
    ikind = draw(st.sampled_from(["none", "affine", "affine", "affine"]))
    ineq = affine("ineq", draw(st.integers(1, 2))) if ikind == "affine" else {"kind": "none", "n": 0}
    ekind = draw(st.sampled_from(["none", "affine", "affine", "affine", "sumeq"]))
    if ekind == "affine":
        eq = affine("eq", draw(st.integers(1, 2)))
    elif ekind == "sumeq":
        eq = {"kind": "sumeq", "n": 1, "target": draw(st.sampled_from([1.0, 0.0, 3.0, 6.0]))}
    else:
        eq = {"kind": "none", "n": 0}

    def wt(nmax):
        k = draw(st.sampled_from(["none", "scalar", "array", "array", "array"]))
        if k == "none":
            return None
        if k == "scalar":
            return draw(st.sampled_from([-1.0, 2.0, -0.5, 1.0, 4.0]))
        return [draw(st.sampled_from([1.0, -1.0, 2.0, -3.0, 0.5, 1.5, 4.0])) for _ in range(nmax)]
    return {"obj": obj, "ineq": ineq, "eq": eq, "obj_wt": wt(NLAT_MAX), "ineq_wt": wt(2), "eq_wt": wt(2)}


def fact_tr(ftr, nlat, legacy_wt=None):
    """the drawn factory transformation spec cut to a problem with `nlat` latent variables (same layout as `_transforms`).
    Replays recorded before this clause existed have no spec: they get default transformations and the weights used then."""
    if ftr is None:
        return {"obj": {"kind": "default", "n": nlat}, "ineq": {"kind": "none", "n": 0}, "eq": {"kind": "none", "n": 0},
                "obj_wt": None if legacy_wt is None else [float(v) for v in legacy_wt], "ineq_wt": None, "eq_wt": None,
                "elementwise": True}
    out = {"elementwise": True}
    for role in ("obj", "ineq", "eq"):
        spec = dict(ftr[role])
        if spec["kind"] == "default":
            spec["n"] = nlat
        elif spec["kind"] == "dot":
            spec["w"] = [spec["w"][j % NLAT_MAX] for j in range(nlat)]
        elif spec["kind"] == "affine":
            spec["A"] = [[row[j % NLAT_MAX] for j in range(nlat)] for row in spec["A"]]
        out[role] = spec
        w = ftr[role + "_wt"]
        out[role + "_wt"] = [w[j % len(w)] for j in range(spec["n"])] if isinstance(w, list) else w
    return out


def fact_labels(ctx, tr):
    ctx.label("fact_obj:" + tr["obj"]["kind"])
    ctx.label("fact_ineqcv:" + tr["ineq"]["kind"])
    ctx.label("fact_eqcv:" + tr["eq"]["kind"])
    kws = [tr[r].get("kw") or {} for r in ("ineq", "eq") if tr[r]["kind"] == "affine"]
    ctx.label("fact_distinct_constraint_kwargs", len(kws) == 2 and kws[0] != kws[1])
    ctx.label("fact_eq_reads_kwargs", tr["eq"]["kind"] == "sumeq" or bool(tr["eq"].get("kw")))


def factory_eval(ctx, crit, enc, fname, prob, rec, tr, x):
    """a problem built by factory `fname` with the declared weights / transformations / kwargs reports exactly
    weights x transformations(latent, **kwargs): the factory forwards every one of the twelve arguments to the right place"""
    w = tr["obj_wt"]
    if isinstance(w, list):
        ctx.check(numpy.array_equal(prob.obj_wt, _np(w)), crit + ".factory.forwards_weights",
                  lambda: "%s %s %s: obj_wt=%s, given %s" % (crit, enc, fname, prob.obj_wt, w))
    check_eval(ctx, crit, enc, prob, rec, tr, [("factory", x)], pre=crit + ".factory.", what=fname + " of ")
    factory_history(ctx, crit, enc, fname, prob, rec, tr, x)


# ----------------------------------------------------------------------------------------------------------------
# criterion handlers: data strategy, constructor kwargs, oracle
# ----------------------------------------------------------------------------------------------------------------
LINEAR_ARG = {"EBV": "ebv", "GEBV": "gebv", "Random": "rbv", "WGS": "wgebv", "GWGEBV": "gwgebv", "OHV": "ohvmat",
              "UC": "ucmat", "EMBV": "embv"}
MATE = {"OHV", "UC", "EMBV"}
SETVALUED = {"OPV", "GB", "PAFD", "PAU", "MOGS"}


def _draw_size(draw, crit, ndmax=9, several=False):
    """number of decision elements (taxa, or cross configurations of a drawn small cross map) -> (nd, {"xmap": ...} or {});
    `several`: at least two of them"""
    if crit in MATE:
        ntaxa = draw(st.integers(2, 4))
        unique = draw(st.booleans())
        xmap = D.cross_map(ntaxa, 2, unique and not (several and ntaxa == 2))
        return len(xmap), {"xmap": xmap}
    return draw(st.integers(2, ndmax)), {}


def _draw_data(draw, crit, nd, t, data, like=None):
    """criterion data for `nd` decision elements and `t` traits, added to `data` -> (nd, nlatent).
    `like`: an earlier data set of the same criterion whose marker number / ploidy are kept (single attributes of it get replaced)"""
    if crit in LINEAR_ARG:
        data["v"] = _table(draw, nd, t)
        nlat = t
    elif crit == "Family":
        data["v"] = _table(draw, nd, t)
        nf = draw(st.integers(1, min(4, nd)))
        labels = draw(st.permutations([3, 11, 5, 7, 2]))[:nf]
        data["fam"] = [labels[draw(st.integers(0, nf - 1))] for _ in range(nd)]
        nlat = t + len(set(data["fam"]))
    elif crit == "OCS":
        data["C"] = _triu(draw, nd)
        data["v"] = _table(draw, nd, t)
        nlat = 1 + t
    elif crit in ("MGR", "MEH"):
        data["C"] = _triu(draw, nd)
        nlat = 1
    elif crit == "L2":
        nd = min(nd, 6)
        data["Ct"] = [_triu(draw, nd) for _ in range(t)]
        nlat = t
    elif crit == "L1":
        p = draw(st.integers(1, 5))
        data["V"] = [[[draw(_num()) for _ in range(nd)] for _ in range(p)] for _ in range(t)]
        nlat = t
    elif crit in ("OPV", "GB"):
        m = draw(st.sampled_from([2, 2, 1, 4]))
        nb = draw(st.integers(1, 4))
        nd = min(nd, 7)
        data["H"] = [[[[draw(_num()) for _ in range(t)] for _ in range(nb)] for _ in range(nd)] for _ in range(m)]
        nlat = t
    elif crit in ("PAFD", "PAU", "MOGS"):
        ploidy = int(like["ploidy"]) if like else draw(st.sampled_from([2, 2, 1, 4]))
        p = len(like["mkrwt"]) if like else draw(st.integers(1, 6))
        cols = []
        for _ in range(p):
            k = draw(st.sampled_from(["all0", "allmax", "free", "free", "hom"]))
            if k == "all0":
                cols.append([0] * nd)
            elif k == "allmax":
                cols.append([ploidy] * nd)
            elif k == "hom":
                cols.append([draw(st.sampled_from([0, ploidy])) for _ in range(nd)])
            else:
                cols.append([draw(st.integers(0, ploidy)) for _ in range(nd)])
        data["geno"] = [[cols[j][i] for j in range(p)] for i in range(nd)]
        data["ploidy"] = ploidy
        data["mkrwt"] = [[draw(st.sampled_from([1.0, 0.5, 2.0, 0.0, 3.25])) for _ in range(t)] for _ in range(p)]
        data["tfreq"] = [[draw(st.sampled_from([0.0, 1.0, 0.5, 0.25, 1.0, 0.0])) for _ in range(t)] for _ in range(p)]
        nlat = 2 * t if crit == "MOGS" else t
    else:
        raise AssertionError(crit)
    return nd, nlat


@st.composite
def ctor_case(draw, crit):
    t = draw(st.integers(1, 3))
    nd, data = _draw_size(draw, crit)
    nd, nlat = _draw_data(draw, crit, nd, t, data)
    dec = draw(_decision(nd, force_binary=(crit in SETVALUED), kmin=1))
    if crit == "GB":
        k = sum(1 for c in dec["cnt"] if c > 0)
        data["nbest"] = draw(st.integers(1, k))
    return {"crit": crit, "nd": nd, "t": t, "nlatent": nlat, "data": data, "dec": dec,
            "tr": draw(_transforms(nlat))}


def _np(x, dtype=float):
    return numpy.array(x, dtype=dtype)


def data_kwargs(crit, data):
    """criterion-specific constructor arguments (fresh arrays every call)"""
    if crit in LINEAR_ARG:
        kw = {LINEAR_ARG[crit]: _np(data["v"])}
    elif crit == "Family":
        kw = {"ebv": _np(data["v"]), "familyid": _np(data["fam"], int)}
    elif crit == "OCS":
        kw = {"ebv": _np(data["v"]), "C": _np(data["C"])}
    elif crit in ("MGR", "MEH"):
        kw = {"C": _np(data["C"])}
    elif crit == "L2":
        kw = {"C": _np(data["Ct"])}
    elif crit == "L1":
        kw = {"V": _np(data["V"])}
    elif crit == "OPV":
        kw = {"haplomat": _np(data["H"])}
    elif crit == "GB":
        kw = {"haplomat": _np(data["H"]), "nbestfndr": int(data["nbest"])}
    elif crit in ("PAFD", "PAU", "MOGS"):
        kw = {"geno": _np(data["geno"], "int8"), "ploidy": int(data["ploidy"]), "mkrwt": _np(data["mkrwt"]),
              "tfreq": _np(data["tfreq"])}
    else:
        raise AssertionError(crit)
    if crit in MATE:
        kw["decn_space_xmap"] = _np(data["xmap"], int)
    return kw


def oracle(crit, data, c, members):
    if crit in LINEAR_ARG:
        return D.linear_latent(data["v"], c)
    if crit == "Family":
        return D.family_latent(data["v"], data["fam"], c)
    if crit == "OCS":
        return D.ocs_latent(data["C"], data["v"], c)
    if crit == "MGR":
        return D.mgr_latent(data["C"], c)
    if crit == "MEH":
        return D.meh_latent(data["C"], c)
    if crit == "L2":
        return D.l2_latent(data["Ct"], c)
    if crit == "L1":
        return D.l1_latent(data["V"], c)
    if crit == "OPV":
        return D.opv_latent(data["H"], members)
    if crit == "GB":
        return D.genotype_builder_latent(data["H"], members, data["nbest"])
    if crit == "PAFD":
        return D.pafd_latent(data["geno"], data["ploidy"], data["mkrwt"], data["tfreq"], members)
    if crit == "PAU":
        return D.pau_latent(data["geno"], data["ploidy"], data["mkrwt"], data["tfreq"], members)
    if crit == "MOGS":
        return D.mogs_latent(data["geno"], data["ploidy"], data["mkrwt"], data["tfreq"], members)
    raise AssertionError(crit)


# ----------------------------------------------------------------------------------------------------------------
# transformation closures that record what they were given
# ----------------------------------------------------------------------------------------------------------------
class Recorder:
    def __init__(self):
        self.calls = []


def make_trans(spec, rec, role):
    """-> (callable or None, kwargs or None)"""
    k = spec["kind"]
    if k in ("default", "none"):
        return None, None
    if k == "identity":
        return _trans.trans_identity, None
    if k == "sum":
        return _trans.trans_sum, None
    if k == "dot":
        return _trans.trans_dot, {"latentvec_wt": _np(spec["w"])}
    if k == "sumeq":
        return _trans.trans_decnvec_sum_eq, {"decnvec_sum": spec["target"]}
    A, b, d = _np(spec["A"]).reshape(spec["n"], -1), _np(spec["b"]), float(spec["d"])

    def fn(decnvec, latentvec, **kwargs):
        rec.calls.append((role, numpy.array(decnvec, copy=True), numpy.array(latentvec, copy=True), dict(kwargs)))
        return affine_value(A, b, d, decnvec, latentvec) + float(kwargs.get("shift", 0.0))
    return fn, spec["kw"]


def affine_value(A, b, d, decnvec, latentvec):
    return A.dot(numpy.asarray(latentvec, dtype=float)) + b + d * float(numpy.asarray(decnvec).sum())


def _wt_arg(w):
    if w is None or isinstance(w, float):
        return w
    return _np(w)


def _wt_vec(w, n):
    if w is None:
        return [1.0] * n
    if isinstance(w, float):
        return [w] * n
    return list(w)


def common_kwargs(tr, rec):
    kw = {}
    for role, key, nkey in (("obj", "obj", "nobj"), ("ineq", "ineqcv", "nineqcv"), ("eq", "eqcv", "neqcv")):
        fn, fkw = make_trans(tr[role], rec, role)
        kw[nkey] = int(tr[role]["n"])
        kw[key + "_wt"] = _wt_arg(tr[role + "_wt"])
        kw[key + "_trans"] = fn
        kw[key + "_trans_kwargs"] = fkw
    if not tr["elementwise"]:
        kw["elementwise"] = False
    return kw


def expected_part(spec, wt, x, lat):
    """expected weighted transformation of the latent vector `lat` -> (values, tolerances or None for exact)"""
    n = spec["n"]
    w = _wt_vec(wt, n)
    k = spec["kind"]
    if k == "none":
        return [], None
    if k in ("default", "identity"):
        return [w[i] * float(lat[i]) for i in range(n)], None
    if k == "sum":
        s = math.fsum(float(v) for v in lat)
        a = math.fsum(abs(float(v)) for v in lat)
        return [w[0] * s], [abs(w[0]) * 4 * (len(lat) + 2) * EPS * a + 1e-300]
    if k == "dot":
        terms = [float(spec["w"][i]) * float(lat[i]) for i in range(len(lat))]
        return [w[0] * math.fsum(terms)], [abs(w[0]) * 4 * (len(lat) + 2) * EPS * math.fsum(abs(v) for v in terms) + 1e-300]
    if k == "sumeq":
        s = math.fsum(float(v) for v in x)
        a = math.fsum(abs(float(v)) for v in x) + abs(spec["target"])
        return [w[0] * abs(s - spec["target"])], [abs(w[0]) * 4 * (len(x) + 2) * EPS * a + 1e-300]
    A, b, d = _np(spec["A"]).reshape(n, -1), _np(spec["b"]), float(spec["d"])
    r = affine_value(A, b, d, x, lat) + float((spec.get("kw") or {}).get("shift", 0.0))
    return [w[i] * float(r[i]) for i in range(n)], None


def _close_vec(a, ref, tol):
    if len(a) != len(ref):
        return False
    for i in range(len(ref)):
        x = float(a[i])
        if not math.isfinite(x) and math.isfinite(ref[i]):
            return False
        if tol is None:
            if not (x == ref[i] or (x != x and ref[i] != ref[i])):
                return False
        elif not abs(x - ref[i]) <= tol[i]:
            return False
    return True


def _brief(x):
    """decision vector for a message: in full when short, as (index, value) pairs of its non-zero entries when long"""
    x = numpy.asarray(x)
    if x.size <= 40:
        return x.tolist()
    nz = numpy.flatnonzero(x)
    return "len %d, non-zero %s" % (x.size, [(int(i), x[i].item()) for i in nz[:40]])


def _perm(seed, k):
    return [int(i) for i in numpy.random.default_rng(seed).permutation(k)]


# ----------------------------------------------------------------------------------------------------------------
# known finding F-C05-i: real-encoding classes that stop normalising when the total of the vector is below 1e-10
# ----------------------------------------------------------------------------------------------------------------
# `xsum = xsum if abs(xsum) >= 1e-10 else 1.0` in latentfn: a contribution vector of the declared space [lower, upper]^n whose total
# lies in (0, 1e-10) is used unnormalised, so the value depends on the scale of the vector, differs from the other encodings and from
# the definition.  EXPLICIT list of the real-encoding classes that have the fallback on the unchanged tree (probe of 2026-10-04: each
# class, x = 2**e * counts, e = -20..-300).  The five real-encoding classes that are NOT listed (family, L1, L2, optimal haploid value,
# usefulness criterion) normalise every positive total and are asserted in full; a class that acquires the fallback later is reported
# because it is not listed.  (The integer / binary classes of the listed criteria carry the same line; their totals are >= 1.)
NEAR_ZERO_TOTAL_FALLBACK = frozenset([
    "EstimatedBreedingValueRealSelectionProblem",
    "GenomicEstimatedBreedingValueRealSelectionProblem",
    "RandomRealSelectionProblem",
    "WeightedGenomicRealSelectionProblem",
    "GeneralizedWeightedGenomicEstimatedBreedingValueRealSelectionProblem",
    "OptimalContributionRealSelectionProblem",
    "MeanGenomicRelationshipRealSelectionProblem",
    "MeanExpectedHeterozygosityRealSelectionProblem",
    "ExpectedMaximumBreedingValueRealSelectionProblem",
])
NEAR_ZERO_TOTAL = 1e-10 * (1.0 + 1e-9)      # input-side signature: total of the vector below the library's threshold (the margin covers
                                            # the last-place difference between the exact total and numpy's pairwise sum)


def real_total(x):
    return math.fsum(float(v) for v in x)


def near_zero_known(ctx, crit, enc, x):
    """True = skip the clauses that compare latentfn(x) of this REAL-encoded vector with the definition / another scale / another encoding"""
    if enc != "real":
        return False
    cls = CLASSES[crit]["real"]
    return ctx.known("F-C05-i", real_total(x) < NEAR_ZERO_TOTAL and cls.__name__ in NEAR_ZERO_TOTAL_FALLBACK)


def real_labels(ctx, x, pre="real"):
    s = real_total(x)
    ctx.label(pre + "_total<1e-10", s < 1e-10)
    ctx.label(pre + "_total<1e-20", s < 1e-20)
    ctx.label(pre + "_total>1e+10", s > 1e10)


# ----------------------------------------------------------------------------------------------------------------
# the constructor-level check
# ----------------------------------------------------------------------------------------------------------------
def build(crit, enc, case, rec, ndecn):
    cls = CLASSES[crit][enc]
    nd = case["nd"]
    kw = data_kwargs(crit, case["data"])
    kw.update(common_kwargs(case["tr"], rec))
    if enc == "subset":
        kw.update(ndecn=ndecn, decn_space=numpy.arange(nd), decn_space_lower=numpy.repeat(0, ndecn),
                  decn_space_upper=numpy.repeat(nd - 1, ndecn))
    elif enc == "integer":
        kw.update(ndecn=nd, decn_space=numpy.stack([numpy.repeat(0, nd), numpy.repeat(3, nd)]),
                  decn_space_lower=numpy.repeat(0, nd), decn_space_upper=numpy.repeat(3, nd))
    elif enc == "binary":
        kw.update(ndecn=nd, decn_space=numpy.stack([numpy.repeat(0, nd), numpy.repeat(1, nd)]),
                  decn_space_lower=numpy.repeat(0, nd), decn_space_upper=numpy.repeat(1, nd))
    else:
        kw.update(ndecn=nd, decn_space=numpy.stack([numpy.repeat(0.0, nd), numpy.repeat(1.0, nd)]),
                  decn_space_lower=numpy.repeat(0.0, nd), decn_space_upper=numpy.repeat(1.0, nd))
    return cls(**kw)


def check_ctor(case, ctx):
    crit, nd, data, dec, tr = case["crit"], case["nd"], case["data"], case["dec"], case["tr"]
    encs = CLASSES.get(crit, {})
    cnt = [int(v) for v in dec["cnt"]]
    members = [i for i in range(nd) if cnt[i] > 0]
    k = len(members)
    binary_mode = max(cnt) <= 1
    c = D.contributions(cnt)
    ref, tol = oracle(crit, data, c, members)
    nlat = case["nlatent"]
    assert len(ref) == nlat

    ctx.label("crit:" + crit)
    ctx.label("mode:" + ("binary" if binary_mode else "counts"))
    ctx.label("k=1", k == 1)
    ctx.label("obj_trans:" + tr["obj"]["kind"])
    ctx.label("ineqcv:" + tr["ineq"]["kind"])
    ctx.label("eqcv:" + tr["eq"]["kind"])
    ctx.label("elementwise" if tr["elementwise"] else "vectorised_evaluate")
    wts = _wt_vec(tr["obj_wt"], tr["obj"]["n"]) + _wt_vec(tr["ineq_wt"], tr["ineq"]["n"]) + _wt_vec(tr["eq_wt"], tr["eq"]["n"])
    ctx.label("negative_weight", any(w < 0 for w in wts))
    flat = numpy.array(ref)
    ctx.nontrivial(k >= 2 and any(w != 1.0 for w in wts) and bool(numpy.any(flat != 0.0)))

    # decision vectors of one and the same contribution vector, per encoding
    vectors = {}           # enc -> list of (tag, x)
    if "integer" in encs:
        vectors["integer"] = [("counts", numpy.array(cnt, dtype=int)), ("counts_x3", 3 * numpy.array(cnt, dtype=int))]
    if "real" in encs:
        s = float(dec["scale"])
        vectors["real"] = [("scaled", numpy.array([s * v for v in cnt], dtype=float))]
        if dec.get("pow1", 0):
            # the same counts in units of 2**pow1 (exact): the same rational contributions, totals from ~1e-30 to ~1e+31
            vectors["real"].append(("counts_x2^%d" % dec["pow1"], numpy.array([2.0 ** int(dec["pow1"]) * v for v in cnt], dtype=float)))
            real_labels(ctx, vectors["real"][-1][1])
    if binary_mode and "binary" in encs:
        vectors["binary"] = [("indicator", numpy.array(cnt, dtype=int))]
    if binary_mode and "subset" in encs:
        p1 = _perm(dec["perm"], k)
        p2 = _perm(dec["perm2"], k)
        vectors["subset"] = [("listing", numpy.array([members[i] for i in p1], dtype=int)),
                             ("relisted", numpy.array([members[i] for i in p2], dtype=int)),
                             ("sorted", numpy.array(members, dtype=int))]
    for e in encs:
        ctx.label("enc:" + e, e in vectors)

    lat_by_enc = {}
    for enc, vecs in vectors.items():
        rec = Recorder()
        prob = build(crit, enc, case, rec, ndecn=k)
        for tag, x in vecs:
            x0 = x.copy()
            lat = prob.latentfn(x)
            ctx.check(isinstance(lat, numpy.ndarray) and lat.ndim == 1 and len(lat) == nlat, crit + ".latent.shape",
                      lambda: "%s %s: latent %r, expected length %d" % (enc, tag, getattr(lat, "shape", None), nlat))
            nz = near_zero_known(ctx, crit, enc, x)
            if not nz and not (crit == "PAU" and ctx.known("F-C05-b", pau_signature(data, members))):
                ctx.check(_close_vec(lat, ref, tol), "%s.definition.%s" % (crit, enc),
                          lambda: "%s x=%s: latent %s, definition %s (tol %s)" % (tag, x.tolist(), lat.tolist(), ref, tol))
            ctx.check(numpy.array_equal(x, x0), crit + ".latentfn_mutated_x")
            if not nz:
                lat_by_enc.setdefault(enc, []).append((tag, x, lat))
        # declared number of latent variables
        if not ctx.known("F-C05-d", crit in ("PAFD", "PAU")):
            ctx.check(int(prob.nlatent) == nlat, crit + ".nlatent",
                      lambda: "%s: nlatent=%r but the latent vector has %d entries" % (enc, prob.nlatent, nlat))
        check_eval(ctx, crit, enc, prob, rec, tr, vecs)

    # encoding agreement (metamorphic, relative to the integer / first available encoding)
    flatl = [(enc, tag, lat) for enc, lst in lat_by_enc.items() for (tag, _x, lat) in lst]
    base = flatl[0]
    for enc, tag, lat in flatl[1:]:
        ok = all(abs(float(lat[i]) - float(base[2][i])) <= 2 * tol[i] for i in range(nlat))
        clause = (crit + ".subset_order_invariance") if (enc == "subset" and base[0] == "subset") else (crit + ".encoding_agreement")
        ctx.check(ok, clause, lambda: "%s/%s gives %s but %s/%s gives %s" % (base[0], base[1], base[2].tolist(), enc, tag, lat.tolist()))
    if "subset" in lat_by_enc:
        l0 = lat_by_enc["subset"][0][2]
        for tag, _x, lat in lat_by_enc["subset"][1:]:
            ctx.check(all(abs(float(lat[i]) - float(l0[i])) <= 2 * tol[i] for i in range(nlat)), crit + ".subset_order_invariance",
                      lambda: "listing order changes the value: %s vs %s" % (l0.tolist(), lat.tolist()))

    # arbitrary real contributions: definition and invariance under positive rescaling
    if "real" in encs:
        xr = numpy.array([float(v) for v in dec["xreal"]], dtype=float)
        cr = D.contributions([float(v) for v in xr])
        rref, rtol = oracle(crit, data, cr, [i for i in range(nd) if xr[i] > 0])
        rec = Recorder()
        prob = build(crit, "real", case, rec, ndecn=k)
        lat1 = prob.latentfn(xr)
        ctx.check(_close_vec(lat1, rref, rtol), crit + ".definition.real",
                  lambda: "free real x=%s: latent %s, definition %s (tol %s)" % (xr.tolist(), lat1.tolist(), rref, rtol))
        f2 = float(dec["scale2"]) * 2.0 ** int(dec.get("pow2", 0))          # rescaling factors from ~1e-35 to ~1e+33
        x2 = xr * f2
        real_labels(ctx, x2, "rescaled")
        ctx.label("rescaling_factor<2^-40", f2 < 2.0 ** -40)
        ctx.label("rescaling_factor>2^40", f2 > 2.0 ** 40)
        c2 = D.contributions([float(v) for v in x2])
        # the rescaled vector is a slightly different rational point; compare both to their own definition and to each other
        r2, t2 = oracle(crit, data, c2, [i for i in range(nd) if x2[i] > 0])
        lat2 = prob.latentfn(x2)
        if not near_zero_known(ctx, crit, "real", x2):
            ctx.check(_close_vec(lat2, r2, t2), crit + ".definition.real",
                      lambda: "rescaled real x=%s: latent %s, definition %s" % (x2.tolist(), lat2.tolist(), r2))
            slack = [rtol[i] + t2[i] + abs(rref[i] - r2[i]) for i in range(nlat)]
            ctx.check(all(abs(float(lat1[i]) - float(lat2[i])) <= slack[i] for i in range(nlat)), crit + ".rescaling_invariance",
                      lambda: "x -> %r x changes the latent vector: %s vs %s" % (f2, lat1.tolist(), lat2.tolist()))
        ctx.label("real_free_vector")


def check_eval(ctx, crit, enc, prob, rec, tr, vecs, pre="", what=""):
    """evalfn = weights x transformations(latent); evaluate() row-wise equals evalfn.
    `pre` prefixes the clause names (constructor level: none; factory level: "<crit>.factory.")"""
    rows = []
    for tag, x in vecs:
        lat = prob.latentfn(x)
        del rec.calls[:]
        out = prob.evalfn(x)
        ctx.check(isinstance(out, tuple) and len(out) == 3, pre + "evalfn.returns_triple")
        calls = list(rec.calls)
        for role, cx, clat, ckw in calls:
            spec = tr[role]
            ctx.check(numpy.array_equal(cx, x), pre + "evalfn.transformation_receives_x",
                      lambda: "%s transformation got x=%s instead of %s" % (role, cx.tolist(), x.tolist()))
            ctx.check(clat.shape == lat.shape and numpy.array_equal(clat, lat, equal_nan=True), pre + "evalfn.transformation_receives_latent",
                      lambda: "%s transformation got %s, latentfn(x)=%s" % (role, clat.tolist(), lat.tolist()))
            ctx.check(ckw == (spec.get("kw") or {}), pre + "evalfn.transformation_kwargs",
                      lambda: "%s%s %s: %s transformation got kwargs %r, declared %r" % (what, crit, enc, role, ckw, spec.get("kw")))
        n_aff = sum(1 for r in ("obj", "ineq", "eq") if tr[r]["kind"] == "affine")
        # informational: calling a declared transformation more than once (e.g. for caching) would not break the property
        ctx.label("info:transformation_called_other_than_once", len(calls) != n_aff)
        for j, (role, wkey) in enumerate((("obj", "obj_wt"), ("ineq", "ineq_wt"), ("eq", "eq_wt"))):
            exp, etol = expected_part(tr[role], tr[wkey], x, lat)
            got = numpy.asarray(out[j])
            ctx.check(got.ndim == 1 and len(got) == tr[role]["n"], pre + "evalfn.%s.length" % role,
                      lambda: "%s has shape %s, declared %d" % (role, got.shape, tr[role]["n"]))
            ctx.check(_close_vec(got, exp, etol), pre + "evalfn.%s.value" % role,
                      lambda: "%s%s %s/%s x=%s: %s part is %s, weights x transformation(latent) = %s (latent %s, weights %r, spec %r)"
                      % (what, crit, enc, tag, _brief(x), role, got.tolist(), exp, lat.tolist(), tr[wkey], tr[role]))
        rows.append(out)
    # pymoo entry point
    X = numpy.stack([x for _t, x in vecs] + [vecs[0][1]])
    res = prob.evaluate(X, return_as_dictionary=True)
    for key, j, role in (("F", 0, "obj"), ("G", 1, "ineq"), ("H", 2, "eq")):
        n = tr[role]["n"]
        if n == 0:
            ctx.check(res.get(key) is None or numpy.size(res.get(key)) == 0, pre + "evaluate.empty_part_reported", "%s=%r" % (key, res.get(key)))
            continue
        M = res.get(key)
        ok = M is not None and numpy.asarray(M).shape == (len(X), n)
        ctx.check(ok, pre + "evaluate.shape", lambda: "%s has shape %r, expected (%d,%d)" % (key, None if M is None else numpy.asarray(M).shape, len(X), n))
        for i in range(len(X)):
            src = rows[i] if i < len(rows) else rows[0]
            ctx.check(numpy.array_equal(numpy.asarray(M)[i], numpy.asarray(src[j]), equal_nan=True), pre + "evaluate.row_equals_evalfn",
                      lambda: "row %d of %s: %s, evalfn gives %s" % (i, key, numpy.asarray(M)[i].tolist(), numpy.asarray(src[j]).tolist()))


# ----------------------------------------------------------------------------------------------------------------
# histories: a problem is built, used, re-declared through its public setters, used again
# ----------------------------------------------------------------------------------------------------------------
# The property is quantified over the decision vectors of the DECLARED decision space and over the declared weights,
# transformations and data; all of these are public attributes with setters (ndecn / decn_space* in
# pybrops.opt.prob.Problem, weights there too, transformations and their kwargs in SelectionProblem, the criterion data in
# the criterion's mixin).  After any sequence of assignments that leaves the problem in a consistent state, the clauses
# hold for the values in force at the time of the call.  Only assignments through setters are made (arrays or dictionaries
# the problem holds are never edited in place: whether a problem copies what it is given is not part of the property).
PROP_NAME = dict(LINEAR_ARG, WGS="gwgebv")          # name of the settable property (WGS: constructor argument `wgebv`)
FREQ = {"PAFD", "PAU", "MOGS"}


def crit_attrs(crit):
    """[(settable data attribute, keys of the harness' data model it carries)] in an order the setters accept"""
    if crit in LINEAR_ARG:
        return [(PROP_NAME[crit], ["v"])]
    return {"Family": [("ebv", ["v"]), ("familyid", ["fam"])],
            "OCS": [("ebv", ["v"]), ("C", ["C"])],
            "MGR": [("C", ["C"])], "MEH": [("C", ["C"])], "L2": [("C", ["Ct"])], "L1": [("V", ["V"])],
            "OPV": [("haplomat", ["H"])], "GB": [("haplomat", ["H"]), ("nbestfndr", ["nbest"])],
            "PAFD": [("ploidy", ["ploidy"]), ("geno", ["geno"]), ("mkrwt", ["mkrwt"]), ("tfreq", ["tfreq"])],
            "PAU": [("ploidy", ["ploidy"]), ("geno", ["geno"]), ("mkrwt", ["mkrwt"]), ("tfreq", ["tfreq"])],
            "MOGS": [("ploidy", ["ploidy"]), ("geno", ["geno"]), ("mkrwt", ["mkrwt"]), ("tfreq", ["tfreq"])]}[crit]


def attr_value(crit, data, name):
    """fresh value for the data attribute `name` from the data model"""
    if name == "nbestfndr":
        return int(data["nbest"])
    if name == "ploidy":
        return int(data["ploidy"])
    if name == "decn_space_xmap":
        return _np(data["xmap"], int)
    key = dict(crit_attrs(crit))[name][0]
    return _np(data[key], {"geno": "int8", "fam": int}.get(key, float))


def nlat_of(crit, data):
    if crit in LINEAR_ARG:
        return len(data["v"][0])
    if crit == "Family":
        return len(data["v"][0]) + len(set(data["fam"]))
    if crit == "OCS":
        return 1 + len(data["v"][0])
    if crit in ("MGR", "MEH"):
        return 1
    if crit == "L2":
        return len(data["Ct"])
    if crit == "L1":
        return len(data["V"])
    if crit in ("OPV", "GB"):
        return len(data["H"][0][0][0])
    return (2 if crit == "MOGS" else 1) * len(data["mkrwt"][0])


def _hist_decision():
    return st.fixed_dictionaries({
        "perm": st.integers(0, 10 ** 6), "cnt": st.lists(st.integers(1, 3), min_size=6, max_size=6),
        "counts": st.booleans(), "nbest_raw": st.integers(0, 10),
        "scale": st.one_of(st.floats(1e-3, 1e3, allow_nan=False), st.sampled_from([1.0, 0.1, 3.0, 1e-6, 1e6])),
        "pow": _pow2_some()})


HIST_OPS = ["ndecn", "ndecn", "ndecn", "attr", "attr", "attr", "data_all", "data_all", "resize", "resize", "wt", "wt", "kwargs", "kwargs",
            "trans", "decn_space", "bounds", "elementwise"]


@st.composite
def hist_case(draw, crit):
    t = draw(st.integers(1, 3))
    nd, data = _draw_size(draw, crit, ndmax=6, several=True)
    nd, _nlat = _draw_data(draw, crit, nd, t, data)
    names = [a for a, _k in crit_attrs(crit) if a != "ploidy"]
    ops, ndata = [], 0
    cur = {"nd": nd, "t": t, "data": data}
    # the kinds of the operations, the roles and the attribute they address are the digits of two integers drawn from wide ranges,
    # offset by the other wide-range integers of the case (small enumerations drawn one by one, and single integers too, come
    # out strongly correlated between the examples of a short run: the engine makes new examples by copying parts of old ones)
    nops = draw(st.integers(1, 4))
    decs = [draw(_hist_decision()) for _ in range(nops + 1)]
    k_raw = draw(st.integers(0, 50))
    salt = sum(d["perm"] for d in decs) + k_raw
    mix, mix2 = draw(st.integers(0, len(HIST_OPS) ** 4 - 1)) + salt, draw(st.integers(0, 12 ** 4 - 1)) + salt
    for i in range(nops):
        kind = HIST_OPS[(mix // len(HIST_OPS) ** i) % len(HIST_OPS)]
        if i == 0 and salt % 2 == 0 and "subset" in CLASSES.get(crit, {}):
            kind = "ndecn"                                   # half of the histories start by declaring another subset size
        sel = (mix2 // 12 ** i) % 12
        if kind in ("attr", "data_all", "resize") and ndata >= 2:
            kind = "ndecn"                                   # at most two drawn data sets per history (size of the case)
        if kind == "ndecn":
            op = {"op": "ndecn", "raw": draw(st.integers(0, 50)), "bounds": draw(st.booleans())}
        elif kind == "attr":
            name = names[sel % len(names)]
            if name == "nbestfndr":
                op = {"op": "attr", "name": name, "raw": draw(st.integers(0, 10))}
            else:
                alt = {}
                _draw_data(draw, crit, cur["nd"], cur["t"], alt, like=cur["data"] if crit in FREQ else None)
                keys = dict(crit_attrs(crit))[name]
                op = {"op": "attr", "name": name, "data": {k: alt[k] for k in keys}}
                cur["data"] = dict(cur["data"], **op["data"])
                ndata += 1
        elif kind == "data_all":
            t2 = draw(st.integers(1, 3))
            alt = {"xmap": cur["data"]["xmap"]} if crit in MATE else {}
            _draw_data(draw, crit, cur["nd"], t2, alt)
            op = {"op": "data_all", "data": alt}
            cur.update(t=t2, data=alt)
            ndata += 1
        elif kind == "resize":
            t2 = draw(st.integers(1, 3))
            nd2, alt = _draw_size(draw, crit, ndmax=6, several=True)
            nd2, _n = _draw_data(draw, crit, nd2, t2, alt)
            op = {"op": "resize", "nd": nd2, "data": alt}
            cur.update(nd=nd2, t=t2, data=alt)
            ndata += 1
        elif kind == "wt":
            w = draw(st.sampled_from(["none", "scalar", "array", "array"]))
            op = {"op": "wt", "role": ["obj", "obj", "ineq", "eq"][sel % 4],
                  "wt": None if w == "none" else (draw(st.sampled_from([-1.0, 2.0, -0.5, 4.0])) if w == "scalar" else
                                                  [draw(st.sampled_from([1.0, -1.0, 2.0, -3.0, 0.5, 1.5, 4.0])) for _ in range(NLAT_MAX)])}
        elif kind == "kwargs":
            op = {"op": "kwargs", "role": ["obj", "ineq", "eq"][sel % 3],
                  "kw": draw(st.sampled_from(["own", "own", "empty", "none"])),
                  "shift": draw(st.sampled_from([0.25, -2.0, 5.0, 7.5, -8.0])),
                  "w": [draw(_num()) for _ in range(NLAT_MAX)], "target": draw(st.sampled_from([2.0, 0.0, 5.0]))}
        elif kind == "trans":
            op = {"op": "trans", "ftr": draw(_fact_transforms())}
        else:
            op = {"op": kind, "raw": draw(st.integers(0, 10 ** 6))}
        ops.append(op)
    return {"crit": crit, "nd": nd, "t": t, "data": data, "ftr": draw(_fact_transforms()), "k_raw": k_raw, "ops": ops, "decs": decs}


def _pick_k(raw, nd):
    """number of selected elements: usually 2 or 3 (so that averaging is exercised), never more than nd"""
    return min(nd, [2, 3, 1, 2, 3, 1 + raw % nd][raw % 6])


def _space_values(enc, nd, k, raw=0):
    """legal values for decn_space / decn_space_lower / decn_space_upper of a problem over nd elements (subset: k of them).
    `raw` varies what is free to vary (order of the candidate listing; integer / real upper bounds)"""
    if enc == "subset":
        cand = numpy.arange(nd) if raw == 0 else numpy.array(_perm(raw, nd), dtype=int)
        return cand, numpy.repeat(0, k), numpy.repeat(nd - 1, k)
    if enc == "integer":
        hi = 3 + raw % 3
        return numpy.stack([numpy.repeat(0, nd), numpy.repeat(hi, nd)]), numpy.repeat(0, nd), numpy.repeat(hi, nd)
    if enc == "binary":
        return numpy.stack([numpy.repeat(0, nd), numpy.repeat(1, nd)]), numpy.repeat(0, nd), numpy.repeat(1, nd)
    hi = 1.0 + float(raw % 2)
    return numpy.stack([numpy.repeat(0.0, nd), numpy.repeat(hi, nd)]), numpy.repeat(0.0, nd), numpy.repeat(hi, nd)


ROLE_KEY = {"obj": ("obj", "nobj"), "ineq": ("ineqcv", "nineqcv"), "eq": ("eqcv", "neqcv")}


class History:
    """one problem object, the harness' model of what has been declared on it (data, transformations, sizes), the
    operations that re-declare something through public setters, and the verification of the clauses against the model"""

    def __init__(self, ctx, crit, enc, prob, rec, data, tr, nd, k, pre, what="", ftr=None):
        self.ctx, self.crit, self.enc, self.prob, self.rec = ctx, crit, enc, prob, rec
        self.data, self.tr, self.ftr, self.nd, self.k = dict(data), tr, ftr, nd, k
        self.pre, self.what = pre, what
        self.nlat = nlat_of(crit, data)
        self.done = []

    # ---- re-declaration of the transformations -------------------------------------------------------------------
    def declare_role(self, role, only=None):
        key, nkey = ROLE_KEY[role]
        fn, fkw = make_trans(self.tr[role], self.rec, role)
        vals = [(nkey, int(self.tr[role]["n"])), (key + "_wt", _wt_arg(self.tr[role + "_wt"])), (key + "_trans", fn), (key + "_trans_kwargs", fkw)]
        for name, v in vals:
            if only is None or name.endswith(only):
                setattr(self.prob, name, v)

    def recut(self):
        self.tr = fact_tr(self.ftr, self.nlat)

    def data_changed(self):
        """after a data assignment: a different number of latent variables needs the transformations re-declared for it"""
        n = nlat_of(self.crit, self.data)
        if n != self.nlat:
            self.nlat = n
            self.recut()
            for role in ROLE_KEY:
                self.declare_role(role)
            self.ctx.label("hist:nlatent_changed")
        if self.crit == "GB" and int(self.data["nbest"]) > self.k:
            self.set_nbest(0)

    def set_nbest(self, raw):
        self.data["nbest"] = 1 + raw % self.k
        self.prob.nbestfndr = int(self.data["nbest"])

    def assign(self, names):
        for name, _keys in crit_attrs(self.crit):
            if name in names:
                setattr(self.prob, name, attr_value(self.crit, self.data, name))

    # ---- operations ------------------------------------------------------------------------------------------------
    def apply(self, op):
        kind, prob, enc = op["op"], self.prob, self.enc
        did = kind
        if kind == "ndecn":
            if enc != "subset" or self.nd < 2:
                did = "ndecn(n/a)"
            else:
                k2 = 1 + op["raw"] % self.nd
                if k2 == self.k:
                    k2 = 1 + k2 % self.nd
                self.ctx.label("hist:ndecn_larger" if k2 > self.k else "hist:ndecn_smaller")
                self.k = k2
                prob.ndecn = k2
                if op.get("bounds"):
                    _c, lo, hi = _space_values(enc, self.nd, k2)
                    prob.decn_space_lower, prob.decn_space_upper = lo, hi
                if self.crit == "GB" and int(self.data["nbest"]) > k2:
                    self.set_nbest(op["raw"])
        elif kind == "attr":
            if op["name"] == "nbestfndr":
                self.set_nbest(op["raw"])
            else:
                self.data.update(op["data"])
                self.assign([op["name"]])
                self.data_changed()
            did = "attr:" + op["name"]
        elif kind == "data_all":
            nb = self.data.get("nbest")
            self.data = dict(op["data"])
            if nb is not None:
                self.data["nbest"] = nb
            self.assign([a for a, _k in crit_attrs(self.crit)])
            self.data_changed()
        elif kind == "resize":
            nd2 = int(op["nd"])
            nb = self.data.get("nbest")
            self.data = dict(op["data"])
            self.nd = nd2
            self.k = min(self.k, nd2)
            if nb is not None:
                self.data["nbest"] = min(int(nb), self.k)
            # the size of the decision space first, then the space itself, then the data the setters compare with it
            prob.ndecn = self.k if enc == "subset" else nd2
            prob.decn_space, prob.decn_space_lower, prob.decn_space_upper = _space_values(enc, nd2, self.k)
            if self.crit in MATE:
                prob.decn_space_xmap = attr_value(self.crit, self.data, "decn_space_xmap")
            self.assign([a for a, _k in crit_attrs(self.crit)])
            self.data_changed()
        elif kind == "wt":
            role = op["role"]
            if self.ftr is None:
                self.tr = dict(self.tr)
                w = op["wt"]
                self.tr[role + "_wt"] = [w[j % len(w)] for j in range(self.tr[role]["n"])] if isinstance(w, list) else w
            else:
                self.ftr = dict(self.ftr)
                self.ftr[role + "_wt"] = op["wt"]
                self.recut()
            self.declare_role(role, only="_wt")
            did = "wt:" + role
        elif kind == "kwargs":
            role = op["role"]
            spec = dict(self.ftr[role])
            if spec["kind"] == "affine":
                spec["kw"] = {"who": role, "shift": op["shift"]} if op["kw"] == "own" else ({} if op["kw"] == "empty" else None)
            elif spec["kind"] == "dot":
                spec["w"] = op["w"]
            elif spec["kind"] == "sumeq":
                spec["target"] = op["target"]
            else:
                did = "kwargs(n/a)"
            if did == kind:
                self.ftr = dict(self.ftr)
                self.ftr[role] = spec
                self.recut()
                if spec["kind"] == "affine":
                    # only the keyword dictionary is assigned; the closure on the problem stays the one declared before
                    setattr(prob, ROLE_KEY[role][0] + "_trans_kwargs", spec["kw"])
                else:
                    self.declare_role(role, only="_trans_kwargs")
                did = "kwargs:" + spec["kind"]
        elif kind == "trans":
            self.ftr = op["ftr"]
            self.recut()
            for role in ROLE_KEY:
                self.declare_role(role)
        elif kind == "decn_space":
            prob.decn_space = _space_values(enc, self.nd, self.k, 1 + op["raw"])[0]
        elif kind == "bounds":
            _c, prob.decn_space_lower, prob.decn_space_upper = _space_values(enc, self.nd, self.k, 1 + op["raw"])
        elif kind == "elementwise":
            prob.elementwise = not prob.elementwise
        else:
            raise AssertionError(kind)
        self.ctx.label("hist:" + did)
        self.done.append(did)

    # ---- verification -------------------------------------------------------------------------------------------------
    def vector(self, dec):
        nd, k, enc = self.nd, self.k, self.enc
        members = _perm(dec["perm"], nd)[:k]
        cnt = [0] * nd
        for j, i in enumerate(members):
            cnt[i] = int(dec["cnt"][j % len(dec["cnt"])]) if (dec["counts"] and enc in ("integer", "real")) else 1
        if enc == "subset":
            x = numpy.array(members, dtype=int)
        elif enc == "real":
            x = numpy.array([real_factor(dec) * v for v in cnt], dtype=float)
        else:
            x = numpy.array(cnt, dtype=int)
        return D.contributions(cnt), sorted(members), x

    def verify(self, dec):
        ctx, crit, enc, prob = self.ctx, self.crit, self.enc, self.prob
        c, members, x = self.vector(dec)
        ref, tol = oracle(crit, self.data, c, members)
        after = "after %s: " % ", ".join(self.done) if self.done else "as built: "
        x0 = x.copy()
        lat = prob.latentfn(x)
        ok_shape = isinstance(lat, numpy.ndarray) and lat.ndim == 1 and len(lat) == self.nlat
        ctx.check(ok_shape, self.pre + "latent.shape",
                  lambda: "%s%s%s %s: latent %r, expected length %d" % (self.what, after, crit, enc, getattr(lat, "shape", None), self.nlat))
        if enc == "real":
            real_labels(ctx, x, "hist_real")
        if ok_shape and not near_zero_known(ctx, crit, enc, x) and not (crit == "PAU" and ctx.known("F-C05-b", pau_signature(self.data, members))):
            ctx.check(_close_vec(lat, ref, tol), "%sdefinition.%s" % (self.pre, enc),
                      lambda: "%s%s%s %s, declared ndecn=%r, x=%s: latent %s, definition on the data now declared %s (tol %s)" % (
                          self.what, after, crit, enc, prob.ndecn, _brief(x), lat.tolist(), ref, tol))
        ctx.check(numpy.array_equal(x, x0), self.pre + "latentfn_mutated_x")
        if not ctx.known("F-C05-d", crit in ("PAFD", "PAU")):
            ctx.check(int(prob.nlatent) == self.nlat, self.pre + "nlatent",
                      lambda: "%s%s%s %s: nlatent=%r but the data now declared give %d latent variables" % (self.what, after, crit, enc, prob.nlatent, self.nlat))
        if ok_shape:
            check_eval(ctx, crit, enc, prob, self.rec, self.tr, [("history", x)], pre=self.pre, what=self.what + after)


def check_hist(case, ctx):
    crit, data0 = case["crit"], case["data"]
    nd0 = case["nd"]
    k0 = _pick_k(case["k_raw"], nd0)
    ctx.label("crit:" + crit)
    for enc in sorted(CLASSES.get(crit, {})):
        data = dict(data0)
        if crit == "GB":
            data["nbest"] = 1 + case["decs"][0]["nbest_raw"] % k0
        nlat = nlat_of(crit, data)
        tr = fact_tr(case["ftr"], nlat)
        rec = Recorder()
        prob = build(crit, enc, {"nd": nd0, "data": data, "tr": tr}, rec, ndecn=k0)
        h = History(ctx, crit, enc, prob, rec, data, tr, nd0, k0, pre=crit + ".history.", ftr=case["ftr"])
        h.verify(case["decs"][0])
        for i, op in enumerate(case["ops"]):
            h.apply(op)
            h.verify(case["decs"][i + 1])
    kinds = [op["op"] for op in case["ops"]]
    ctx.label("hist:ops=%d" % len(kinds))
    ctx.nontrivial(any(k in ("ndecn", "attr", "data_all", "resize") for k in kinds))


# ---- the same on factory-made problems: the data the problem holds (already compared with the population by the factory
# clauses) is the model; the subset size and one data attribute are re-declared, the clauses re-checked, and the original
# values are assigned back before the remaining factory clauses look at the problem -----------------------------------------
HELD = {"Family": [("ebv", "v"), ("familyid", "fam")], "OCS": [("ebv", "v"), ("C", "C")], "MGR": [("C", "C")], "MEH": [("C", "C")],
        "L2": [("C", "Ct")], "L1": [("V", "V")], "OPV": [("haplomat", "H")], "GB": [("haplomat", "H"), ("nbestfndr", "nbest")],
        "PAFD": [("ploidy", "ploidy"), ("geno", "geno"), ("mkrwt", "mkrwt"), ("tfreq", "tfreq")]}
HELD["PAU"] = HELD["MOGS"] = HELD["PAFD"]


def held_data(crit, prob):
    """the data model read from the public attributes of a problem -> (data, {attribute: object held})"""
    pairs = [(PROP_NAME[crit], "v")] if crit in LINEAR_ARG else HELD[crit]
    data, held = {}, {}
    for attr, key in pairs:
        v = getattr(prob, attr)
        held[attr] = v
        data[key] = v.tolist() if isinstance(v, numpy.ndarray) else int(v)
    return data, held


def _finite(v):
    if isinstance(v, list):
        return all(_finite(w) for w in v)
    return math.isfinite(v)


def derived_value(key, v, raw):
    """a different legal value of the same shape for one data attribute, made from the held one by the harness"""
    a = numpy.array(v)
    if key == "v":
        return (numpy.roll(a, 1, axis=0) * -0.5 + float(1 + raw % 3)).tolist()
    if key == "C":
        return (2.0 * a + numpy.eye(len(a))).tolist()
    if key == "Ct":
        return (2.0 * a + numpy.eye(a.shape[1])[None, :, :]).tolist()
    if key == "V":
        return (numpy.roll(a, 1, axis=2) * 1.5).tolist()
    if key == "H":
        return (numpy.roll(a, 1, axis=1) * -2.0).tolist()
    if key in ("fam", "geno"):
        return numpy.roll(a, 1, axis=0).tolist()
    if key == "mkrwt":
        return (a + 1.0).tolist()
    if key == "tfreq":
        return numpy.roll(1.0 - a, 1, axis=0).tolist()
    raise AssertionError(key)


def factory_history(ctx, crit, enc, fname, prob, rec, tr, x):
    data, held = held_data(crit, prob)
    if not all(_finite(v) for v in data.values()):
        ctx.label("fact_hist:skipped_non_finite_data")
        return
    first = next(iter(data.values()))
    nd = len(data["geno"]) if crit in FREQ else (len(data["Ct"][0]) if crit == "L2" else (len(data["V"][0][0]) if crit == "L1" else (
        len(data["H"][0]) if crit in ("OPV", "GB") else len(first))))
    k = len(x) if enc == "subset" else int(numpy.count_nonzero(x))
    raw = int(numpy.asarray(x, dtype=float).sum() * 7) % 1000 + k
    h = History(ctx, crit, enc, prob, rec, data, tr, nd, k, pre=crit + ".factory.history.", what=fname + " of ")
    ndecn0, lo0, hi0 = prob.ndecn, prob.decn_space_lower, prob.decn_space_upper
    dec = lambda j: {"perm": raw + 31 * j, "cnt": [1 + (raw + j) % 3, 2, 1], "counts": bool((raw + j) % 2), "scale": [1.0, 0.37, 3.0][(raw + j) % 3],
                     "pow": [0, -40, 0, -75, 33, -35][(raw // 3 + j) % 6]}
    pairs = [(a, key) for a, key in ([(PROP_NAME[crit], "v")] if crit in LINEAR_ARG else HELD[crit]) if key not in ("nbest", "ploidy")]
    attr, key = pairs[(raw // 6) % len(pairs)]
    # subset problems: another subset size, verified; every third of them and every second problem of the other encodings:
    # one data attribute replaced, verified (two short histories rather than one long one: an assignment of data must not be
    # what makes the problem notice the new size)
    if enc == "subset":
        h.apply({"op": "ndecn", "raw": raw, "bounds": bool(raw % 2)})
        h.verify(dec(1))
    if raw % (3 if enc == "subset" else 2) == 0:
        h.apply({"op": "attr", "name": attr, "data": {key: derived_value(key, data[key], raw)}})
        h.verify(dec(2))
    # back to what the factory made
    setattr(prob, attr, held[attr])
    if enc == "subset":
        prob.ndecn = ndecn0
        prob.decn_space_lower, prob.decn_space_upper = lo0, hi0
    if crit == "GB":
        prob.nbestfndr = held["nbestfndr"]
    ctx.label("fact_hist:done")


# ----------------------------------------------------------------------------------------------------------------
# factory clauses: populations, models and the data a problem built from them must hold
# ----------------------------------------------------------------------------------------------------------------
from pybrops.popgen.gmat.DensePhasedGenotypeMatrix import DensePhasedGenotypeMatrix
from pybrops.popgen.gmat.DenseGenotypeMatrix import DenseGenotypeMatrix
from pybrops.model.gmod.DenseAdditiveLinearGenomicModel import DenseAdditiveLinearGenomicModel
from pybrops.popgen.bvmat.DenseBreedingValueMatrix import DenseBreedingValueMatrix
from pybrops.popgen.cmat.fcty.DenseMolecularCoancestryMatrixFactory import DenseMolecularCoancestryMatrixFactory
from pybrops.popgen.cmat.fcty.DenseVanRadenCoancestryMatrixFactory import DenseVanRadenCoancestryMatrixFactory
from pybrops.popgen.cmat.fcty.DenseYangCoancestryMatrixFactory import DenseYangCoancestryMatrixFactory
from pybrops.popgen.cmat.fcty.DenseGeneralizedWeightedCoancestryMatrixFactory import DenseGeneralizedWeightedCoancestryMatrixFactory
from pybrops.popgen.gmap.HaldaneMapFunction import HaldaneMapFunction
from pybrops.model.vmat.fcty.DenseTwoWayDHAdditiveGeneticVarianceMatrixFactory import DenseTwoWayDHAdditiveGeneticVarianceMatrixFactory
from pybrops.breed.prot.mate.TwoWayCross import TwoWayCross

CMAT_FACTORIES = {
    "molecular": DenseMolecularCoancestryMatrixFactory,
    "vanraden": DenseVanRadenCoancestryMatrixFactory,
    "yang": DenseYangCoancestryMatrixFactory,
    "genweighted": DenseGeneralizedWeightedCoancestryMatrixFactory,
}


@st.composite
def population(draw, nmin=3, nmax=8, pmin=2, pmax=8, tmax=2, inbred=False, single_chrom=False, zero_effects=True):
    n = draw(st.integers(nmin, nmax))
    p = draw(st.integers(pmin, pmax))
    t = draw(st.integers(1, tmax))
    hap = [[[0] * p for _ in range(n)] for _ in range(2)]
    for j in range(p):
        kind = draw(st.sampled_from(["free", "free", "free", "all0", "all1", "hom"]))
        for i in range(n):
            if kind == "all0":
                a = b = 0
            elif kind == "all1":
                a = b = 1
            elif kind == "hom" or inbred:
                a = b = draw(st.integers(0, 1))
            else:
                a, b = draw(st.integers(0, 1)), draw(st.integers(0, 1))
            hap[0][i][j], hap[1][i][j] = a, b
    names = list(draw(st.permutations(list(range(n)))))          # deliberately NOT sorted
    if n > 1 and names == sorted(names):
        names[0], names[-1] = names[-1], names[0]
    grp = [draw(st.sampled_from([4, 2, 9])) for _ in range(n)]
    if single_chrom:
        runs = [p]
    else:
        nchr = draw(st.integers(1, min(3, p)))
        cuts = sorted(draw(st.lists(st.integers(1, p - 1), min_size=nchr - 1, max_size=nchr - 1, unique=True))) if nchr > 1 else []
        runs = [b - a for a, b in zip([0] + cuts, cuts + [p])]
    gaps = [draw(st.sampled_from([0.01, 0.05, 0.1, 0.2, 0.35, 0.5, 1.0])) for _ in range(p)]
    effects = [1.0, -1.0, 0.5, -2.0, 3.0, 0.25, -0.75] + ([0.0] if zero_effects else [])
    u = [[draw(st.sampled_from(effects)) for _ in range(t)] for _ in range(p)]
    beta = [draw(st.sampled_from([0.0, 10.0, -3.5, 100.0])) for _ in range(t)]
    return {"n": n, "p": p, "t": t, "hap": hap, "names": names, "grp": grp, "runs": runs, "gaps": gaps, "u": u, "beta": beta,
            "perm": draw(st.integers(0, 10 ** 6))}


def arrange(pop, order):
    """the same population with its taxa stored in the given row order (list of original row indices)"""
    q = dict(pop)
    q["hap"] = [[pop["hap"][ph][i] for i in order] for ph in range(2)]
    q["names"] = [pop["names"][i] for i in order]
    q["grp"] = [pop["grp"][i] for i in order]
    return q


def pop_meta(pop):
    chrom, genpos = [], []
    for ci, ln in enumerate(pop["runs"]):
        pos = 0.0
        for k in range(ln):
            j = len(chrom)
            pos = pos + pop["gaps"][j] if k > 0 else 0.0
            chrom.append(ci + 1)
            genpos.append(pos)
    return chrom, genpos


def dosage(pop):
    n, p = pop["n"], pop["p"]
    return [[pop["hap"][0][i][j] + pop["hap"][1][i][j] for j in range(p)] for i in range(n)]


def make_gmat(pop, phased):
    chrom, genpos = pop_meta(pop)
    xo = []
    for j in range(pop["p"]):
        first = j == 0 or chrom[j] != chrom[j - 1]
        xo.append(0.5 if first else D.haldane_r(genpos[j] - genpos[j - 1]))
    kw = dict(taxa=numpy.array(["L%02d" % v for v in pop["names"]], dtype=object), taxa_grp=numpy.array(pop["grp"], dtype="int64"),
              vrnt_chrgrp=numpy.array(chrom, dtype="int64"), vrnt_phypos=numpy.arange(1, pop["p"] + 1, dtype="int64") * 10,
              vrnt_genpos=numpy.array(genpos, dtype=float), vrnt_xoprob=numpy.array(xo, dtype=float))
    if phased:
        g = DensePhasedGenotypeMatrix(mat=numpy.array(pop["hap"], dtype="int8"), **kw)
    else:
        g = DenseGenotypeMatrix(mat=numpy.array(dosage(pop), dtype="int8"), ploidy=2, **kw)
    g.group_vrnt()
    return g


def make_model(pop):
    t = pop["t"]
    return DenseAdditiveLinearGenomicModel(beta=numpy.array([pop["beta"]], dtype=float), u_misc=None,
                                           u_a=numpy.array(pop["u"], dtype=float),
                                           trait=numpy.array(["trait%d" % i for i in range(t)], dtype=object))


def space_kwargs(enc, nd, k):
    if enc == "subset":
        return dict(ndecn=k, decn_space=numpy.arange(nd), decn_space_lower=numpy.repeat(0, k), decn_space_upper=numpy.repeat(nd - 1, k))
    if enc == "integer":
        return dict(ndecn=nd, decn_space=numpy.stack([numpy.repeat(0, nd), numpy.repeat(3, nd)]),
                    decn_space_lower=numpy.repeat(0, nd), decn_space_upper=numpy.repeat(3, nd))
    if enc == "binary":
        return dict(ndecn=nd, decn_space=numpy.stack([numpy.repeat(0, nd), numpy.repeat(1, nd)]),
                    decn_space_lower=numpy.repeat(0, nd), decn_space_upper=numpy.repeat(1, nd))
    return dict(ndecn=nd, decn_space=numpy.stack([numpy.repeat(0.0, nd), numpy.repeat(1.0, nd)]),
                decn_space_lower=numpy.repeat(0.0, nd), decn_space_upper=numpy.repeat(1.0, nd))


def dec_vectors(dec, nd, encs):
    """-> (c, members, {enc: x}) for the encodings that can express the drawn contributions"""
    cnt = [int(v) for v in dec["cnt"]][:nd]
    cnt = cnt + [0] * (nd - len(cnt))
    if sum(cnt) == 0:
        cnt[dec["perm"] % nd] = 1
    members = [i for i in range(nd) if cnt[i] > 0]
    binary_mode = max(cnt) <= 1
    out = {}
    if "integer" in encs:
        out["integer"] = numpy.array(cnt, dtype=int)
    if "real" in encs:
        out["real"] = numpy.array([real_factor(dec) * v for v in cnt], dtype=float)
    if binary_mode and "binary" in encs:
        out["binary"] = numpy.array(cnt, dtype=int)
    if binary_mode and "subset" in encs:
        out["subset"] = numpy.array([members[i] for i in _perm(dec["perm"], len(members))], dtype=int)
    return D.contributions(cnt), members, out


def _arr_close(a, ref, tol):
    """numpy array vs nested list of reference numbers (Fractions / floats) with nested tolerances (or scalar / None=exact)"""
    a = numpy.asarray(a)
    r = numpy.array([[float(v) for v in row] for row in ref], dtype=float) if (len(ref) and isinstance(ref[0], (list, tuple))) \
        else numpy.array([float(v) for v in ref], dtype=float)
    if a.shape != r.shape:
        return False
    if tol is None:
        return bool(numpy.array_equal(a, r))
    tl = numpy.array(tol, dtype=float) if not isinstance(tol, float) else tol
    with numpy.errstate(invalid="ignore"):
        return bool(numpy.all(numpy.abs(a.astype(float) - r) <= tl))


def factory_latent(ctx, crit, enc, prob, data_eq, c, members, x, extra_tol=None, guard=None):
    """end-to-end: latent of the factory-made problem equals the definition evaluated on the population's data"""
    ref, tol = oracle(crit, data_eq, c, members)
    if extra_tol:
        tol = [tol[i] + extra_tol[i] for i in range(len(tol))]
    lat = prob.latentfn(x)
    if enc == "real":
        real_labels(ctx, x, "fact_real")
    if near_zero_known(ctx, crit, enc, x) or (guard is not None and guard()):
        return lat
    ctx.check(_close_vec(lat, ref, tol), crit + ".factory.latent",
              lambda: "%s x=%s: latent %s, definition on the population %s (tol %s)" % (enc, x.tolist(), lat.tolist(), ref, tol))
    return lat


def two_orders(pop):
    n = pop["n"]
    o2 = _perm(pop["perm"], n)
    if o2 == list(range(n)) and n > 1:
        o2 = list(range(1, n)) + [0]
    return [("given", list(range(n))), ("permuted", o2)]


# ---- breeding value matrices ------------------------------------------------------------------------------------
@st.composite
def bvmat_case(draw):
    pop = draw(population(nmin=2, nmax=8, pmin=1, pmax=2, tmax=3))
    n, t = pop["n"], pop["t"]
    return {"pop": pop, "mat": _table(draw, n, t), "loc": [draw(_num()) for _ in range(t)],
            "scale": [draw(_pos()) for _ in range(t)], "unscale": draw(st.booleans()),
            "dec": draw(_decision(n)), "obj_wt": [draw(st.sampled_from([1.0, -1.0, 2.5])) for _ in range(8)],
            "ftr": draw(_fact_transforms())}


def check_fact_bvmat(case, ctx):
    pop0 = case["pop"]
    t = pop0["t"]
    for oname, order in two_orders(pop0):
        pop = arrange(pop0, order)
        n = pop["n"]
        mat = [case["mat"][i] for i in order]
        bv = DenseBreedingValueMatrix(mat=_np(mat), location=_np(case["loc"]), scale=_np(case["scale"]),
                                      taxa=numpy.array(["L%02d" % v for v in pop["names"]], dtype=object),
                                      taxa_grp=numpy.array(pop["grp"], dtype="int64"),
                                      trait=numpy.array(["trait%d" % i for i in range(t)], dtype=object))
        if case["unscale"]:
            table = [[Fr(case["scale"][j]) * Fr(mat[i][j]) + Fr(case["loc"][j]) for j in range(t)] for i in range(n)]
            ttol = [[4 * EPS * (abs(case["scale"][j] * mat[i][j]) + abs(case["loc"][j])) + 1e-300 for j in range(t)] for i in range(n)]
        else:
            table, ttol = [[Fr(v) for v in row] for row in mat], None
        ctx.label("unscale" if case["unscale"] else "scaled")
        for crit in ("EBV", "GEBV", "Family"):
            for enc, cls in sorted(CLASSES.get(crit, {}).items()):
                c, members, xs = dec_vectors(case["dec"], n, [enc])
                if enc not in xs:
                    continue
                nlat = t + (len(set(pop["grp"])) if crit == "Family" else 0)
                tr = fact_tr(case.get("ftr"), nlat, case["obj_wt"][:nlat] + [1.0] * max(0, nlat - 8))
                rec = Recorder()
                kw = dict(space_kwargs(enc, n, len(members)), **common_kwargs(tr, rec))
                if crit == "Family":
                    prob = cls.from_bvmat(bvmat=bv, **kw)
                    exp, etol = [[Fr(v) for v in row] for row in mat], None      # documented: the matrix' stored values
                    ctx.check(numpy.array_equal(prob.familyid, numpy.array(pop["grp"])), "Family.factory.familyid_order",
                              lambda: "%s order: familyid %s, population taxa_grp %s" % (oname, prob.familyid.tolist(), pop["grp"]))
                    data_eq = {"v": [[float(v) for v in row] for row in exp], "fam": pop["grp"]}
                    attr = prob.ebv
                else:
                    prob = cls.from_bvmat(bvmat=bv, unscale=case["unscale"], **kw)
                    exp, etol = table, ttol
                    data_eq = {"v": [[float(v) for v in row] for row in exp]}
                    attr = prob.ebv if crit == "EBV" else prob.gebv
                ctx.check(_arr_close(attr, exp, etol), crit + ".factory.from_bvmat.data",
                          lambda: "%s %s order: problem holds %s, population (taxon order %s) has %s" % (
                              enc, oname, numpy.asarray(attr).tolist(), pop["names"], [[float(v) for v in r] for r in exp]))
                factory_eval(ctx, crit, enc, "from_bvmat", prob, rec, tr, xs[enc])
                xt = None
                if etol is not None:
                    xt = [sum(float(c[i]) * etol[i][j] for i in range(n)) for j in range(t)] + [0.0] * (nlat - t)
                factory_latent(ctx, crit, enc, prob, data_eq, c, members, xs[enc], xt)
    fact_labels(ctx, fact_tr(case.get("ftr"), t))
    ctx.nontrivial(len(set(map(tuple, case["mat"]))) > 1)


# ---- genomic models: GEBV, weighted GEBV, allele-frequency criteria ---------------------------------------------------
@st.composite
def genomic_case(draw):
    zero = draw(st.booleans())
    pop = draw(population(nmin=2, nmax=7, pmin=1, pmax=7, tmax=2, zero_effects=zero))
    p, t, n = pop["p"], pop["t"], pop["n"]
    return {"pop": pop, "phased": draw(st.booleans()), "unscale": draw(st.booleans()),
            "alpha": draw(st.sampled_from([0.5, 0.0, 1.0, 0.25, 0.5, 2.0])),
            "fafreq": [[draw(st.sampled_from([1.0, 0.5, 0.25, 0.1, 0.75] + ([0.0] if zero else []))) for _ in range(t)] for _ in range(p)],
            "tfreq_kind": draw(st.sampled_from(["sign", "half", "array"])),
            "tfreq": [[draw(st.sampled_from([0.0, 1.0, 0.5, 0.25])) for _ in range(t)] for _ in range(p)],
            "dec": draw(_decision(n)), "obj_wt": [draw(st.sampled_from([1.0, -1.0, 2.5])) for _ in range(4)],
            "ftr": draw(_fact_transforms())}


def wgs_nan_signature(fafreq):
    """input-side signature of F-C05-a: some marker/trait with favourable-allele frequency exactly 0"""
    return any(float(f) == 0.0 for row in fafreq for f in row)


def check_fact_genomic(case, ctx):
    pop0 = case["pop"]
    t, p = pop0["t"], pop0["p"]
    ctx.label("phased" if case["phased"] else "unphased")
    for oname, order in two_orders(pop0):
        pop = arrange(pop0, order)
        n = pop["n"]
        gmat = make_gmat(pop, case["phased"])
        mod = make_model(pop)
        geno = dosage(pop)
        u = pop["u"]
        tr = fact_tr(case.get("ftr"), t, case["obj_wt"][:t])
        # ---------- GEBV.from_gmat_gpmod -------------------------------------------------------------------
        gtab = D.gebv_table(geno, u, pop["beta"])
        mag = [max(abs(float(gtab[i][j])) for i in range(n)) + abs(pop["beta"][j]) + sum(2 * abs(u[k][j]) for k in range(p)) for j in range(t)]
        if case["unscale"]:
            exp = gtab
            etol = [[32 * (p + 4) * EPS * mag[j] + 1e-300 for j in range(t)] for _ in range(n)]
            usable = True
        else:
            exp, etol, usable = [[None] * t for _ in range(n)], [[0.0] * t for _ in range(n)], True
            for j in range(t):
                col = [gtab[i][j] for i in range(n)]
                mean = sum(col) / n
                var = sum((v - mean) ** 2 for v in col) / n
                sd = math.sqrt(float(var))
                if var == 0:
                    sd = 1.0
                elif sd < 1e-6 * mag[j]:
                    usable = False
                for i in range(n):
                    exp[i][j] = float(col[i] - mean) / sd
                    etol[i][j] = 64 * (n + p + 4) * EPS * (mag[j] / sd + abs(exp[i][j])) + 1e-300
        ctx.label("gebv_unscale" if case["unscale"] else "gebv_scaled")
        for enc, cls in sorted(CLASSES.get("GEBV", {}).items()):
            c, members, xs = dec_vectors(case["dec"], n, [enc])
            if enc not in xs or not usable:
                continue
            rec = Recorder()
            prob = cls.from_gmat_gpmod(gmat=gmat, gpmod=mod, unscale=case["unscale"], **common_kwargs(tr, rec), **space_kwargs(enc, n, len(members)))
            ctx.check(_arr_close(prob.gebv, exp, etol), "GEBV.factory.from_gmat_gpmod.data",
                      lambda: "%s %s order unscale=%s: problem holds %s, intercept + Z u of the population = %s" % (
                          enc, oname, case["unscale"], prob.gebv.tolist(), [[float(v) for v in r] for r in exp]))
            factory_eval(ctx, "GEBV", enc, "from_gmat_gpmod", prob, rec, tr, xs[enc])
            xt = [sum(float(c[i]) * etol[i][j] for i in range(n)) for j in range(t)]
            factory_latent(ctx, "GEBV", enc, prob, {"v": [[float(v) for v in r] for r in exp]}, c, members, xs[enc], xt)

        # ---------- weighted criteria -------------------------------------------------------------------------------
        ffreq_pop = D.favourable_frequency(geno, 2, u)
        for crit, alpha in (("GWGEBV", case["alpha"]), ("WGS", 0.5)):
            for enc, cls in sorted(CLASSES.get(crit, {}).items()):
                c, members, xs = dec_vectors(case["dec"], n, [enc])
                if enc not in xs:
                    continue
                sp = space_kwargs(enc, n, len(members))
                # from_numpy: harness-made favourable frequencies
                for src, ff in (("from_numpy", case["fafreq"]), ("from_gmat_algpmod", ffreq_pop)):
                    tab, ttol = D.weighted_gebv_table(geno, u, ff, alpha)
                    is_wgs = crit == "WGS"
                    if is_wgs and ctx.known("F-C05-a", wgs_nan_signature(ff)):
                        continue
                    if is_wgs and src == "from_gmat_algpmod" and ctx.known("F-C05-g", case["phased"]):
                        continue
                    rec = Recorder()
                    if src == "from_numpy":
                        args = dict(Z_a=_np(geno, "int8" if order[0] % 2 else float), u_a=_np(u), fafreq=_np([[float(f) for f in r] for r in ff]))
                        if not is_wgs:
                            args["alpha"] = alpha
                        prob = cls.from_numpy(**common_kwargs(tr, rec), **args, **sp)
                    else:
                        args = dict(gmat=gmat, algpmod=mod)
                        if not is_wgs:
                            args["alpha"] = alpha
                        prob = cls.from_gmat_algpmod(**common_kwargs(tr, rec), **args, **sp)
                    ctx.check(_arr_close(prob.gwgebv, tab, ttol), "%s.factory.%s.data" % (crit, src),
                              lambda: "%s %s order alpha=%s fafreq=%s u=%s: problem holds %s, sum_j z_ij u_j f_j^-alpha = %s" % (
                                  enc, oname, alpha, [[float(f) for f in r] for r in ff], u, prob.gwgebv.tolist(), tab))
                    factory_eval(ctx, crit, enc, src, prob, rec, tr, xs[enc])
                    xt = [sum(float(c[i]) * ttol[i][j] for i in range(n)) for j in range(t)]
                    factory_latent(ctx, crit, enc, prob, {"v": tab}, c, members, xs[enc], xt)
        ctx.label("zero_effect_marker", any(v == 0.0 for row in u for v in row))
        ctx.label("favourable_allele_absent", any(ffreq_pop[j][k] == 0 and u[j][k] != 0 for j in range(p) for k in range(t)))

        # ---------- allele-frequency criteria ----------------------------------------------------------------------
        seen = []

        def weight_fn(u_a):
            seen.append(("weight", numpy.array(u_a, copy=True)))
            return numpy.absolute(u_a)

        def target_fn(u_a):
            seen.append(("target", numpy.array(u_a, copy=True)))
            return (u_a > 0.0).astype(float) if case["tfreq_kind"] == "sign" else numpy.full(u_a.shape, 0.5)
        if case["tfreq_kind"] == "array":
            target = _np(case["tfreq"])
            tf = case["tfreq"]
        else:
            target = target_fn
            tf = [[(1.0 if v > 0 else 0.0) if case["tfreq_kind"] == "sign" else 0.5 for v in row] for row in u]
        mk = [[abs(v) for v in row] for row in u]
        ctx.label("tfreq:" + case["tfreq_kind"])
        for crit in ("PAFD", "PAU", "MOGS"):
            cls = CLASSES.get(crit, {}).get("subset")
            c, members, xs = dec_vectors(case["dec"], n, ["subset"])
            if cls is None or "subset" not in xs:
                continue
            del seen[:]
            nlat = 2 * t if crit == "MOGS" else t
            tr2 = fact_tr(case.get("ftr"), nlat, (case["obj_wt"] * 2)[:nlat])
            rec = Recorder()
            prob = cls.from_gmat_gpmod(gmat=gmat, weight=weight_fn, target=target, gpmod=mod, **common_kwargs(tr2, rec),
                                       **space_kwargs("subset", n, len(members)))
            ctx.check(all(numpy.array_equal(a, _np(u)) for _k, a in seen) and len(seen) == (2 if callable(target) else 1),
                      crit + ".factory.callables_receive_marker_effects", lambda: "calls: %r" % (seen,))
            ok = (_arr_close(prob.geno, geno, None) and int(prob.ploidy) == 2 and _arr_close(prob.mkrwt, mk, None)
                  and _arr_close(prob.tfreq, tf, None))
            ctx.check(ok, crit + ".factory.from_gmat_gpmod.data",
                      lambda: "%s order: geno %s (population dosages %s), ploidy %r, mkrwt %s (|u| = %s), tfreq %s (expected %s)" % (
                          oname, numpy.asarray(prob.geno).tolist(), geno, prob.ploidy, prob.mkrwt.tolist(), mk, prob.tfreq.tolist(), tf))
            factory_eval(ctx, crit, "subset", "from_gmat_gpmod", prob, rec, tr2, xs["subset"])
            data_eq = {"geno": geno, "ploidy": 2, "mkrwt": mk, "tfreq": tf}
            factory_latent(ctx, crit, "subset", prob, data_eq, c, members, xs["subset"],
                           guard=lambda: crit == "PAU" and ctx.known("F-C05-b", pau_signature(data_eq, members)))
    fact_labels(ctx, fact_tr(case.get("ftr"), t))
    ctx.nontrivial(len(set(map(tuple, dosage(pop0)))) > 1)


def pau_signature(data, members):
    """input-side signature of F-C05-b: a marker whose target is exactly 1 while the selected set carries the 1 allele,
    or whose target is exactly 0 while the selected set is fixed for the 1 allele"""
    pf = D.set_frequency(data["geno"], data["ploidy"], members)
    for j, row in enumerate(data["tfreq"]):
        for k, tfv in enumerate(row):
            if data["mkrwt"][j][k] == 0:
                continue
            if (tfv == 1.0 and pf[j] > 0) or (tfv == 0.0 and pf[j] == 1):
                return True
    return False


# ---- L1 ---------------------------------------------------------------------------------------------------------
@st.composite
def l1_case(draw):
    n, p, t = draw(st.integers(2, 7)), draw(st.integers(1, 5)), draw(st.integers(1, 3))
    fr = st.sampled_from([0.0, 0.5, 1.0, 0.25, 0.75])
    return {"n": n, "mkrwt": [[draw(_num()) for _ in range(t)] for _ in range(p)],
            "tafreq": [[draw(fr) for _ in range(p)] for _ in range(n)],
            "tfreq": [[draw(st.one_of(fr, st.floats(0, 1, allow_nan=False))) for _ in range(t)] for _ in range(p)],
            "dec": draw(_decision(n)), "perm": draw(st.integers(0, 10 ** 6)), "ftr": draw(_fact_transforms())}


def check_fact_l1(case, ctx):
    n = case["n"]
    p, t = len(case["mkrwt"]), len(case["mkrwt"][0])
    for order in (list(range(n)), _perm(case["perm"], n)):
        taf = [case["tafreq"][i] for i in order]
        V = D.l1_V(case["mkrwt"], taf, case["tfreq"])
        Vtol = [[[4 * EPS * abs(case["mkrwt"][j][k]) * (abs(taf[i][j]) + abs(case["tfreq"][j][k])) + 1e-300 for i in range(n)]
                 for j in range(p)] for k in range(t)]
        Vf = [[[float(v) for v in row] for row in Vt] for Vt in V]
        for enc, cls in sorted(CLASSES.get("L1", {}).items()):
            c, members, xs = dec_vectors(case["dec"], n, [enc])
            if enc not in xs:
                continue
            tr, rec = fact_tr(case.get("ftr"), t), Recorder()
            prob = cls.from_numpy(mkrwt=_np(case["mkrwt"]), tafreq=_np(taf), tfreq=_np(case["tfreq"]), **common_kwargs(tr, rec),
                                  **space_kwargs(enc, n, len(members)))
            factory_eval(ctx, "L1", enc, "from_numpy", prob, rec, tr, xs[enc])
            got = numpy.asarray(prob.V)
            ok = got.shape == (t, p, n) and bool(numpy.all(numpy.abs(got - numpy.array(Vf)) <= numpy.array(Vtol)))
            ctx.check(ok, "L1.factory.from_numpy.data", lambda: "%s: V=%s, w_jt (f_ij - tf_jt) = %s" % (enc, got.tolist(), Vf))
            xt = [sum(sum(float(c[i]) * Vtol[k][j][i] for i in range(n)) for j in range(p)) for k in range(t)]
            factory_latent(ctx, "L1", enc, prob, {"V": Vf}, c, members, xs[enc], xt)
    fact_labels(ctx, fact_tr(case.get("ftr"), t))
    ctx.nontrivial(True)


# ---- kinship criteria ---------------------------------------------------------------------------------------------
@st.composite
def kinship_case(draw):
    pop = draw(population(nmin=2, nmax=6, pmin=2, pmax=10, tmax=2))
    n, t, p = pop["n"], pop["t"], pop["p"]
    return {"pop": pop, "phased": draw(st.booleans()), "fcty": draw(st.sampled_from(["molecular", "molecular", "vanraden", "yang", "genweighted"])),
            "bv": _table(draw, n, t), "loc": [draw(_num()) for _ in range(t)], "scale": [draw(_pos()) for _ in range(t)],
            "unscale": draw(st.booleans()), "dec": draw(_decision(n)),
            "mkrwt": [[draw(st.sampled_from([1.0, 0.5, 2.0, 3.0])) for _ in range(t)] for _ in range(p)],
            "afreq": [[draw(st.sampled_from([0.5, 0.0, 1.0, 0.25])) for _ in range(t)] for _ in range(p)],
            "ftr": draw(_fact_transforms())}


JITTER_MAX = 0.5e-6      # apply_jitter adds U(1e-10, 1e-6) to the coancestry diagonal; kinship = coancestry / 2


def check_factor(ctx, crit, C, Kref, n):
    """C upper triangular and C'C = Kref up to rounding and the documented diagonal jitter -> jitter used (bool)"""
    C = numpy.asarray(C, dtype=float)
    ctx.check(C.shape == (n, n) and bool(numpy.all(numpy.tril(C, -1) == 0.0)), crit + ".factory.factor_upper_triangular",
              lambda: "C=%s" % C.tolist())
    G = D.gram(C.tolist())
    scale = max(1.0, max(abs(float(Kref[i][i])) for i in range(n)))
    rt = 64 * (n + 2) * EPS * scale
    jit = False
    for i in range(n):
        for j in range(n):
            d = float(G[i][j] - Fr(Kref[i][j]))
            if i == j and d > rt:
                jit = True
                ok = d <= JITTER_MAX + rt
            else:
                ok = abs(d) <= rt
            ctx.check(ok, crit + ".factory.kinship_factor",
                      lambda: "(C'C)[%d][%d]=%r but kinship (coancestry/2) of the population is %r; C=%s" % (i, j, float(G[i][j]), float(Kref[i][j]), C.tolist()))
    return jit


def check_fact_kinship(case, ctx):
    pop0 = case["pop"]
    t = pop0["t"]
    fname = case["fcty"]
    ctx.label("cmat:" + fname)
    for oname, order in two_orders(pop0):
        pop = arrange(pop0, order)
        n, p = pop["n"], pop["p"]
        gmat = make_gmat(pop, case["phased"])
        geno = dosage(pop)
        fcty = CMAT_FACTORIES[fname]()
        # reference kinship: own definition for the molecular coancestry, the factory's matrix (C13's subject) otherwise
        if fname == "molecular":
            Gref = D.molecular_coancestry_diploid(geno)
        else:
            try:
                Gref = [[Fr(float(v)) for v in row] for row in fcty.from_gmat(gmat).mat_asformat("coancestry")]
            except (ValueError, ZeroDivisionError, FloatingPointError):
                ctx.label("coancestry_undefined")
                return
            if not all(math.isfinite(float(v)) for row in Gref for v in row):
                ctx.label("coancestry_not_finite")
                return
        Kref = [[v / 2 for v in row] for row in Gref]
        bvm = [case["bv"][i] for i in order]
        bv = DenseBreedingValueMatrix(mat=_np(bvm), location=_np(case["loc"]), scale=_np(case["scale"]),
                                      taxa=gmat.taxa, taxa_grp=gmat.taxa_grp)
        if case["unscale"]:
            etab = [[float(Fr(case["scale"][j]) * Fr(bvm[i][j]) + Fr(case["loc"][j])) for j in range(t)] for i in range(n)]
            etol = [[4 * EPS * (abs(case["scale"][j] * bvm[i][j]) + abs(case["loc"][j])) + 1e-300 for j in range(t)] for i in range(n)]
        else:
            etab, etol = bvm, None
        for crit in ("MGR", "MEH", "OCS"):
            for enc, cls in sorted(CLASSES.get(crit, {}).items()):
                c, members, xs = dec_vectors(case["dec"], n, [enc])
                if enc not in xs:
                    continue
                sp = space_kwargs(enc, n, len(members))
                tr, rec = fact_tr(case.get("ftr"), 1 + t if crit == "OCS" else 1), Recorder()
                try:
                    if crit == "OCS":
                        prob = cls.from_bvmat_gmat(bvmat=bv, gmat=gmat, cmatfcty=fcty, unscale=case["unscale"], **common_kwargs(tr, rec), **sp)
                    else:
                        prob = cls.from_gmat(gmat=gmat, cmatfcty=fcty, **common_kwargs(tr, rec), **sp)
                except ValueError as e:
                    # documented: kinship matrix not positive definite even after jitter
                    ctx.check("positive definite" in str(e), crit + ".factory.unexpected_ValueError", str(e))
                    ctx.label("not_positive_definite")
                    continue
                except numpy.linalg.LinAlgError:
                    ctx.label("cholesky_failed_after_eigenvalue_test")
                    continue
                factory_eval(ctx, crit, enc, "from_bvmat_gmat" if crit == "OCS" else "from_gmat", prob, rec, tr, xs[enc])
                jit = check_factor(ctx, crit, prob.C, Kref, n)
                ctx.label("jitter_applied", jit)
                ctx.label("no_jitter", not jit)
                if crit == "OCS":
                    ctx.check(_arr_close(prob.ebv, etab, etol), "OCS.factory.from_bvmat_gmat.data",
                              lambda: "%s %s: ebv %s, population %s" % (enc, oname, prob.ebv.tolist(), etab))
                # end to end on the population's kinship: sqrt(c'Kc), jitter widens the bound
                q = D.quad_form(Kref, c)
                qf = max(float(q), 0.0)
                cs = float(sum(ci * ci for ci in c))
                val = math.sqrt(qf)
                # C'C = K + (diagonal jitter, if applied) + rounding: |c'(C'C - K)c| <= delta
                kscale = max(1.0, max(abs(float(Kref[i][i])) for i in range(n)))
                delta = (cs * JITTER_MAX if jit else 0.0) + 128 * (n + 2) * EPS * kscale
                jt = math.sqrt(qf + delta) - math.sqrt(max(qf - delta, 0.0))
                rt = 64 * (n + 4) * EPS * (val + 1.0)
                lat = prob.latentfn(xs[enc])
                if enc == "real":
                    real_labels(ctx, xs[enc], "fact_real")
                if near_zero_known(ctx, crit, enc, xs[enc]):
                    continue
                got = float(lat[0])
                exp0 = val if crit != "MEH" else -(1.0 - val)
                ctx.check(abs(got - exp0) <= jt + rt, crit + ".factory.latent",
                          lambda: "%s %s x=%s: latent[0]=%r, population kinship gives %r (jitter allowance %g)" % (enc, oname, xs[enc].tolist(), got, exp0, jt))
                if crit == "OCS":
                    lref, ltol = D.linear_latent(etab, c)
                    xt = [sum(float(c[i]) * (etol[i][j] if etol else 0.0) for i in range(n)) for j in range(t)]
                    ctx.check(_close_vec(lat[1:], lref, [ltol[j] + xt[j] for j in range(t)]), "OCS.factory.latent",
                              lambda: "%s: gain part %s, definition %s" % (enc, lat[1:].tolist(), lref))
                # the criterion's name: mean expected heterozygosity of the selected contributions (molecular kinship, diploids)
                if crit == "MEH" and fname == "molecular" and not ctx.known("F-C05-f", float(q) != 1.0 and float(q) != 0.0):
                    he = float(D.expected_heterozygosity(geno, 2, c))
                    ctx.check(abs(-got - he) <= jt + rt + cs * JITTER_MAX, "MEH.factory.value_is_expected_heterozygosity",
                              lambda: "%s x=%s: -latent = %r but the mean expected heterozygosity of the selection is %r (= 1 - c'Kc)" % (enc, xs[enc].tolist(), -got, he))
        # ---------- L2 --------------------------------------------------------------------------------------------------
        for enc, cls in sorted(CLASSES.get("L2", {}).items()):
            c, members, xs = dec_vectors(case["dec"], n, [enc])
            if enc not in xs:
                continue
            sp = space_kwargs(enc, n, len(members))
            if fname == "genweighted":
                # the only factory that honours marker weights / target frequencies: K_t = (1/2) Z_t W_t Z_t', Z_t = X - 2 a_t
                if ctx.known("F-C05-e", True):
                    continue
                Kt = []
                for k in range(t):
                    Z = [[Fr(geno[i][j]) - 2 * Fr(case["afreq"][j][k]) for j in range(p)] for i in range(n)]
                    Kt.append([[sum(Z[a][j] * Fr(case["mkrwt"][j][k]) * Z[b][j] for j in range(p)) / 2 for b in range(n)] for a in range(n)])
            else:
                Kt = [Kref for _ in range(t)]
            tr, rec = fact_tr(case.get("ftr"), t), Recorder()
            try:
                prob = cls.from_gmat(gmat=gmat, cmatfcty=fcty, mkrwt=_np(case["mkrwt"]), afreq=_np(case["afreq"]), **common_kwargs(tr, rec), **sp)
            except ValueError as e:
                ctx.check("positive definite" in str(e), "L2.factory.unexpected_ValueError",
                          "from_gmat with documented (p,t) mkrwt/afreq and %s raised %s" % (type(fcty).__name__, e))
                ctx.label("not_positive_definite")
                continue
            except numpy.linalg.LinAlgError:
                ctx.label("cholesky_failed_after_eigenvalue_test")
                continue
            Ct = numpy.asarray(prob.C)
            ctx.check(Ct.shape == (t, n, n), "L2.factory.shape", str(Ct.shape))
            factory_eval(ctx, "L2", enc, "from_gmat", prob, rec, tr, xs[enc])
            for k in range(t):
                check_factor(ctx, "L2", Ct[k], Kt[k], n)
    fact_labels(ctx, fact_tr(case.get("ftr"), t))
    ctx.nontrivial(len(set(map(tuple, dosage(pop0)))) > 1)


# ---- haplotype-block criteria -------------------------------------------------------------------------------------
@st.composite
def hap_case(draw):
    single = draw(st.booleans())
    pop = draw(population(nmin=2, nmax=5, pmin=2, pmax=8, tmax=2, single_chrom=single))
    nblk = draw(st.integers(1, min(4, pop["p"]))) if single else len(pop["runs"])
    k = draw(st.integers(1, pop["n"]))
    return {"pop": pop, "nblk": nblk, "unique": draw(st.booleans()), "dec_taxa": draw(_decision(pop["n"], force_binary=True)),
            "dec_cross": draw(_decision(15)), "nbest_raw": draw(st.integers(0, 10)),
            "nparent": draw(st.sampled_from([2, 2, 2, 3])), "ftr": draw(_fact_transforms())}


def block_layout(pop, nblk):
    """-> (bins, ambiguous).  One block per chromosome, or equal-width bins on a single chromosome."""
    chrom, genpos = pop_meta(pop)
    if len(pop["runs"]) == nblk and nblk > 1 or (len(pop["runs"]) == 1 and nblk == 1):
        return [c - 1 for c in chrom], False
    assert len(pop["runs"]) == 1
    return D.equal_width_blocks(genpos, nblk)


def check_fact_hap(case, ctx):
    pop0 = case["pop"]
    nblk = case["nblk"]
    bins, amb = block_layout(pop0, nblk)
    if amb:
        ctx.label("layout_ambiguous_or_empty_bin(skipped)")
        return
    ctx.label("blocks:one_per_chromosome" if len(pop0["runs"]) == nblk and len(pop0["runs"]) > 1 else "blocks:equal_width_single_chromosome")
    ctx.label("nblk=%d" % nblk)
    nparent = int(case.get("nparent", 2))
    ctx.label("nparent=%d" % nparent)
    for oname, order in two_orders(pop0):
        pop = arrange(pop0, order)
        nd = len(D.cross_map(pop["n"], nparent, case["unique"]))
        hap_checks(ctx, pop, oname, nblk, bins, nparent, case["unique"], case["dec_taxa"],
                   small_cross_decision(case["dec_cross"], nd), case["nbest_raw"], case.get("ftr"))
        ctx.label("self_crosses_allowed", not case["unique"])
    fact_labels(ctx, fact_tr(case.get("ftr"), pop0["t"]))
    ctx.nontrivial(nblk > 1 or len(pop0["runs"]) > 1)


def small_cross_decision(dec, nd):
    """a drawn decision (counts for up to 15 crosses) laid over a cross map with `nd` entries: the counts are spread
    cyclically from a drawn offset, so that maps longer than the drawn vector are reached over their whole length"""
    if nd <= len(dec["cnt"]):
        return dec
    q = dict(dec)
    cnt = [0] * nd
    stride = max(1, nd // len(dec["cnt"]))
    for i, v in enumerate(dec["cnt"]):
        cnt[(dec["perm"] + i * stride) % nd] = v
    q["cnt"] = cnt
    return q


def _rows_differ(got, table, tol):
    got = numpy.asarray(got, dtype=float)
    ref = numpy.array(table, dtype=float)
    if got.shape != ref.shape:
        return "shape %s, expected %s" % (got.shape, ref.shape)
    with numpy.errstate(invalid="ignore"):
        bad = numpy.flatnonzero(~(numpy.abs(got - ref) <= tol).all(axis=1))
    return "%d of %d rows differ; first rows %s: held %s, population %s" % (
        len(bad), len(ref), bad[:6].tolist(), got[bad[:3]].tolist(), ref[bad[:3]].tolist())


def hap_checks(ctx, pop, oname, nblk, bins, nparent, unique, dec_taxa, dec_cross, nbest_raw, ftr):
    """factory clauses of the haplotype-block criteria for one stored taxon order of one population"""
    n, t = pop["n"], pop["t"]
    pg = make_gmat(pop, True)
    mod = make_model(pop)
    H = D.block_values(pop["hap"], pop["u"], bins, nblk)
    Hf = [[[[float(v) for v in b] for b in tx] for tx in ph] for ph in H]
    mag = sum(abs(v) for row in pop["u"] for v in row)
    htol = 8 * (pop["p"] + 4) * EPS * mag + 1e-300
    tr = fact_tr(ftr, t)
    # ---- OPV / GenotypeBuilder: subsets of taxa
    c, members, xs = dec_vectors(dec_taxa, n, ["subset"])
    x = xs["subset"]
    for crit in ("OPV", "GB"):
        cls = CLASSES.get(crit, {}).get("subset")
        if cls is None:
            continue
        sp = space_kwargs("subset", n, len(members))
        data_eq = {"H": Hf}
        rec = Recorder()
        if crit == "OPV":
            prob = cls.from_pgmat_gpmod(nhaploblk=nblk, pgmat=pg, gpmod=mod, **common_kwargs(tr, rec), **sp)
        else:
            nbest = 1 + nbest_raw % len(members)
            data_eq["nbest"] = nbest
            prob = cls.from_pgmat_gpmod(pgmat=pg, gpmod=mod, nhaploblk=nblk, nbestfndr=nbest, **common_kwargs(tr, rec), **sp)
            ctx.check(int(prob.nbestfndr) == nbest, "GB.factory.nbestfndr")
        got = numpy.asarray(prob.haplomat)
        ok = got.shape == (2, n, nblk, t) and bool(numpy.all(numpy.abs(got - numpy.array(Hf)) <= htol))
        ctx.check(ok, crit + ".factory.from_pgmat_gpmod.data",
                  lambda: "%s order: haplomat %s, block values of the population %s (bins %s)" % (
                      oname, got.tolist() if n <= 10 else "(%d taxa)" % n, Hf if n <= 10 else "...", bins))
        factory_eval(ctx, crit, "subset", "from_pgmat_gpmod", prob, rec, tr, x)
        factory_latent(ctx, crit, "subset", prob, data_eq, c, members, x, [2 * nblk * htol * 2] * t)
    # ---- OHV: cross configurations
    xmap = D.cross_map(n, nparent, unique)
    if not xmap:
        return
    table = [[float(v) for v in D.ohv_of_cross(H, par)] for par in xmap]
    ttol = 2 * nblk * htol * 2
    for enc, cls in sorted(CLASSES.get("OHV", {}).items()):
        cc, mem, xs2 = dec_vectors(dec_cross, len(xmap), [enc])
        if enc not in xs2:
            continue
        rec = Recorder()
        prob = cls.from_pgmat_gpmod(nparent=nparent, nhaploblk=nblk, unique_parents=unique, pgmat=pg, gpmod=mod,
                                    **common_kwargs(tr, rec), **space_kwargs(enc, len(xmap), len(mem)))
        ctx.check(numpy.array_equal(prob.decn_space_xmap, numpy.array(xmap)), "OHV.factory.cross_map",
                  lambda: "xmap %s..., expected %s..." % (prob.decn_space_xmap[:20].tolist(), xmap[:20]))
        ctx.check(_arr_close(prob.ohvmat, table, ttol), "OHV.factory.from_pgmat_gpmod.data",
                  lambda: "%s %s order, %d taxa, %d-parent crosses (unique=%s): ohvmat vs ploidy * sum_b max over phases and parents: %s" % (
                      enc, oname, n, nparent, unique, _rows_differ(prob.ohvmat, table, ttol)))
        factory_eval(ctx, "OHV", enc, "from_pgmat_gpmod", prob, rec, tr, xs2[enc])
        factory_latent(ctx, "OHV", enc, prob, {"v": table}, cc, mem, xs2[enc], [ttol] * t)


# ---- sizes across the memory-chunk boundary of the factories -----------------------------------------------------------
# The factories compute their tables in chunks whose size the caller cannot choose (1024 cross configurations in the OHV
# factories; 1024 markers of a linkage group in the variance matrix the UC factories use).  The property is quantified
# over all candidate populations, so a few fixed sizes just below / across / several times across the boundary are run,
# with and without self crosses, with two-, three- and four-parent crosses.  The population itself is made from the
# seed in the case (numpy default_rng), in the same layout and with the same kinds of loci as `population()`.
def seeded_population(seed, n, p, t, nchr, inbred=False):
    rng = numpy.random.default_rng(int(seed))
    hap = rng.integers(0, 2, size=(2, n, p))
    kinds = rng.choice(["free", "free", "free", "all0", "all1", "hom"], size=p)
    for j in range(p):
        if kinds[j] == "all0":
            hap[:, :, j] = 0
        elif kinds[j] == "all1":
            hap[:, :, j] = 1
        elif kinds[j] == "hom" or inbred:
            hap[1, :, j] = hap[0, :, j]
    names = [int(v) for v in rng.permutation(n)]
    if n > 1 and names == sorted(names):
        names[0], names[-1] = names[-1], names[0]
    nchr = max(1, min(nchr, p))
    cuts = sorted(int(v) for v in rng.choice(numpy.arange(1, p), size=nchr - 1, replace=False)) if nchr > 1 else []
    runs = [b - a for a, b in zip([0] + cuts, cuts + [p])]
    return {"n": n, "p": p, "t": t, "hap": [[[int(v) for v in row] for row in ph] for ph in hap],
            "names": names, "grp": [int(v) for v in rng.choice([4, 2, 9], size=n)], "runs": runs,
            "gaps": [float(v) for v in rng.choice([0.01, 0.05, 0.1, 0.2, 0.35, 0.5, 1.0], size=p)],
            "u": [[float(v) for v in row] for row in rng.choice([1.0, -1.0, 0.5, -2.0, 3.0, 0.25, -0.75, 0.0], size=(p, t))],
            "beta": [float(v) for v in rng.choice([0.0, 10.0, -3.5, 100.0], size=t)],
            "perm": int(rng.integers(0, 10 ** 6))}


# (taxa, parents per cross, unique parents) -> number of cross configurations
HAP_LARGE_QUICK = [(46, 2, True),      # 1035 = 1024 + 11
                   (45, 2, False),     # 1035
                   (20, 3, True),      # 1140
                   (65, 2, True),      # 2080 = 2 * 1024 + 32
                   (45, 2, True),      # 990: just below one chunk
                   (18, 3, False),     # 1140
                   (64, 2, False),     # 2080
                   (12, 4, False)]     # 1365
HAP_LARGE_THOROUGH = HAP_LARGE_QUICK + [(47, 2, True),     # 1081
                                        (14, 4, True),     # 1001
                                        (91, 2, True),     # 4095 = 4 * 1024 - 1
                                        (24, 3, True),     # 2024
                                        (33, 3, True),     # 5456
                                        (100, 2, False)]   # 5050


def _large_seed():
    return int(os.environ.get("VERIF_SEED", "1"))


def hap_large_cases(tier):
    base = _large_seed()
    out = []
    for i, (n, npar, uniq) in enumerate(HAP_LARGE_THOROUGH if tier == "thorough" else HAP_LARGE_QUICK):
        rng = numpy.random.default_rng([base, i, 505])
        nchr = int(rng.integers(1, 4))
        out.append({"n": n, "nparent": npar, "unique": uniq, "p": int(rng.integers(max(3, nchr), 13)), "t": int(rng.integers(1, 3)),
                    "nchr": nchr, "seed": int(rng.integers(0, 2 ** 31 - 1)),
                    # candidate: crosses counted from the END of the cross map, from its start, and anywhere
                    "from_end": [int(v) for v in rng.integers(0, 40, size=2)], "from_start": [int(rng.integers(0, 40))],
                    "anywhere": [int(v) for v in rng.integers(0, 10 ** 6, size=2)],
                    "counts": [int(v) for v in rng.integers(1, 4, size=5)] if rng.integers(0, 2) else [1] * 5,
                    "scale": float(rng.choice([1.0, 0.1, 3.0, 0.37])), "perm": int(rng.integers(0, 10 ** 6)),
                    "taxa": [int(v) for v in rng.integers(0, 10 ** 6, size=4)], "nbest_raw": int(rng.integers(0, 10)),
                    "ftr_seed": int(rng.integers(0, 2 ** 31 - 1))})
        out[-1]["pow"] = LARGE_POW[out[-1]["perm"] % len(LARGE_POW)]      # units of the real-encoded candidate (no further draw)
    return out


LARGE_POW = [0, -40, -72, 35]


def seeded_fact_transforms(seed):
    """one example of `_fact_transforms` determined by the seed in the case"""
    rng = numpy.random.default_rng(int(seed))

    def pick(seq):
        return seq[int(rng.integers(0, len(seq)))]

    def affine(role, nout):
        return {"kind": "affine", "n": nout, "A": [[int(v) for v in rng.integers(-3, 4, size=NLAT_MAX)] for _ in range(nout)],
                "b": [pick([0.0, 1.0, -2.5, 10.0]) for _ in range(nout)], "d": pick([0.0, 1.0, -0.5]),
                "kw": {"who": role, "shift": pick([0.5, -1.0, 2.0, 3.0, -4.5, 6.0])}}
    return {"obj": affine("obj", int(rng.integers(1, 4))), "ineq": affine("ineq", int(rng.integers(1, 3))),
            "eq": pick([affine("eq", 1), {"kind": "sumeq", "n": 1, "target": 3.0}]),
            "obj_wt": [pick([1.0, -1.0, 2.0, -3.0, 0.5]) for _ in range(NLAT_MAX)], "ineq_wt": pick([None, 2.0, [1.5, 0.5]]),
            "eq_wt": pick([None, 4.0, [-1.0, 2.0]])}


def large_decision(case, nd):
    idx = [nd - 1 - (v % nd) for v in case["from_end"]] + [v % nd for v in case["from_start"]] + [v % nd for v in case["anywhere"]]
    cnt = [0] * nd
    for i, j in enumerate(idx):
        cnt[j] = max(cnt[j], int(case["counts"][i]))
    return {"cnt": cnt, "perm": case["perm"], "scale": case["scale"], "pow": case.get("pow", 0)}


def check_fact_hap_large(case, ctx):
    n, nparent = case["n"], case["nparent"]
    pop0 = seeded_population(case["seed"], n, case["p"], case["t"], case["nchr"])
    nblk = len(pop0["runs"])                     # one block per chromosome
    bins, amb = block_layout(pop0, nblk)
    assert not amb
    nd = len(D.cross_map(n, nparent, case["unique"]))
    ctx.label("crosses:%d" % nd)
    ctx.label("across_chunk_boundary", nd > 1024 and nd % 1024 != 0)
    ctx.label("several_chunks", nd > 2048)
    ctx.label("nparent=%d" % nparent)
    ctx.label("self_crosses_allowed", not case["unique"])
    tcnt = [0] * n
    for v in case["taxa"]:
        tcnt[v % n] = 1
    dec_taxa = {"cnt": tcnt, "perm": case["perm"], "scale": 1.0}
    ftr = seeded_fact_transforms(case["ftr_seed"])
    for oname, order in two_orders(pop0):
        hap_checks(ctx, arrange(pop0, order), oname, nblk, bins, nparent, case["unique"], dec_taxa, large_decision(case, nd),
                   case["nbest_raw"], ftr)
    ctx.nontrivial(nd > 1024)


# ---- usefulness criterion -----------------------------------------------------------------------------------------
@st.composite
def uc_case(draw):
    pop = draw(population(nmin=2, nmax=4, pmin=1, pmax=6, tmax=2, inbred=True))
    return {"pop": pop, "unique": draw(st.booleans()), "upper": draw(st.sampled_from([0.1, 0.05, 0.2, 0.5, 0.01])),
            "dec_cross": draw(_decision(10)), "via_xmap": draw(st.booleans()), "xperm": draw(st.integers(0, 10 ** 6)),
            "nprogeny": draw(st.sampled_from([1, 10, 40])), "ftr": draw(_fact_transforms())}


def check_fact_uc(case, ctx):
    uc_checks(ctx, case, case["pop"], D.dh_variance_inbred)


def uc_checks(ctx, case, pop0, varfn):
    t, p = pop0["t"], pop0["p"]
    chrom, genpos = pop_meta(pop0)
    tr = fact_tr(case.get("ftr"), t)
    inten = D.selection_intensity(case["upper"])
    for oname, order in two_orders(pop0):
        pop = arrange(pop0, order)
        n = pop["n"]
        pg = make_gmat(pop, True)
        mod = make_model(pop)
        geno = dosage(pop)
        gtab = D.gebv_table(geno, pop["u"], pop["beta"])
        xmap = D.cross_map(n, 2, case["unique"])
        if case["via_xmap"]:
            # caller-supplied cross map: a shuffled selection of crosses, some with the parents swapped
            idx = _perm(case["xperm"], len(xmap))[: max(1, (len(xmap) + 1) // 2)]
            xmap = [list(reversed(xmap[i])) if (case["xperm"] + i) % 2 else xmap[i] for i in idx]
        table, ttol = [], []
        for a, b in xmap:
            row, trow = [], []
            for k in range(t):
                uk = [pop["u"][j][k] for j in range(p)]
                var, vabs = varfn(pop["hap"][0][a], pop["hap"][0][b], uk, genpos, chrom)
                dv = 16 * (p * p + 4) * EPS * vabs
                var = max(var, 0.0)
                sd = math.sqrt(var)
                dsd = math.sqrt(var + dv) - math.sqrt(max(var - dv, 0.0))
                mean = 0.5 * float(gtab[a][k] + gtab[b][k])
                mmag = abs(float(gtab[a][k])) + abs(float(gtab[b][k])) + abs(pop["beta"][k]) + sum(2 * abs(v) for v in uk)
                row.append(mean + inten * sd)
                trow.append(32 * (p + 4) * EPS * mmag + inten * dsd + 8 * EPS * abs(row[-1]) + 1e-300)
            table.append(row)
            ttol.append(trow)
        for enc, cls in sorted(CLASSES.get("UC", {}).items()):
            cc, mem, xs = dec_vectors(case["dec_cross"], len(xmap), [enc])
            if enc not in xs:
                continue
            rec = Recorder()
            args = dict(nparent=2, ncross=1, nprogeny=case["nprogeny"], nself=0, upper_percentile=case["upper"],
                        vmatfcty=DenseTwoWayDHAdditiveGeneticVarianceMatrixFactory(), gmapfn=HaldaneMapFunction(),
                        unique_parents=case["unique"], pgmat=pg, gpmod=mod, **common_kwargs(tr, rec), **space_kwargs(enc, len(xmap), len(mem)))
            if case["via_xmap"]:
                prob = cls.from_pgmat_gpmod_xmap(xmap=numpy.array(xmap, dtype=int), **args)
            else:
                prob = cls.from_pgmat_gpmod(**args)
            factory_eval(ctx, "UC", enc, "from_pgmat_gpmod_xmap" if case["via_xmap"] else "from_pgmat_gpmod", prob, rec, tr, xs[enc])
            ctx.check(numpy.array_equal(prob.decn_space_xmap, numpy.array(xmap)), "UC.factory.cross_map",
                      lambda: "xmap %s, expected %s" % (prob.decn_space_xmap.tolist(), xmap))
            ctx.check(_arr_close(prob.ucmat, table, ttol), "UC.factory.data",
                      lambda: "%s %s order upper=%r, %d markers: ucmat %s; parental mean + i*sqrt(DH progeny variance) = %s for crosses %s" % (
                          enc, oname, case["upper"], p, prob.ucmat.tolist(), table, xmap))
            xt = [sum(float(cc[i]) * ttol[i][k] for i in range(len(xmap))) for k in range(t)]
            factory_latent(ctx, "UC", enc, prob, {"v": table}, cc, mem, xs[enc], xt)
        ctx.label("via_xmap" if case["via_xmap"] else "built_xmap")
        ctx.label("linked_loci", any(r > 1 for r in pop0["runs"]))
    fact_labels(ctx, tr)
    ctx.nontrivial(any(any(pop0["hap"][0][0][j] != pop0["hap"][0][i][j] for j in range(p)) for i in range(pop0["n"])))


# ---- usefulness criterion with more markers on a linkage group than one chunk of the variance computation --------------
def dh_variance_inbred_np(h1, h2, u_t, genpos, chrom):
    """`D.dh_variance_inbred` (enumeration of the four gamete classes of the F1 for every pair of loci) written with arrays,
    for marker numbers at which the pure-Python double loop takes minutes; sums by math.fsum as there"""
    h1, h2, u = _np(h1), _np(h2), _np(u_t)
    g, ch = _np(genpos), numpy.array(chrom)
    r = numpy.where(ch[:, None] == ch[None, :], 0.5 * (1.0 - numpy.exp(-2.0 * numpy.abs(g[:, None] - g[None, :]))), 0.5)
    numpy.fill_diagonal(r, 0.0)
    classes = [(h1[:, None], h1[None, :], (1 - r) / 2), (h2[:, None], h2[None, :], (1 - r) / 2),
               (h1[:, None], h2[None, :], r / 2), (h2[:, None], h1[None, :], r / 2)]
    ej = sum(a * pr for a, _b, pr in classes)
    ek = sum(b * pr for _a, b, pr in classes)
    ejk = sum(a * b * pr for a, b, pr in classes)
    terms = (4.0 * u[:, None] * u[None, :] * (ejk - ej * ek)).ravel()
    return math.fsum(terms), math.fsum(numpy.abs(terms))


# (taxa, markers per chromosome)
UC_LARGE_QUICK = [(3, [1030]), (2, [1100, 3])]
UC_LARGE_THOROUGH = UC_LARGE_QUICK + [(3, [1000]), (2, [5, 1025]), (2, [2060]), (4, [1029, 1031])]


def uc_large_cases(tier):
    base = _large_seed()
    out = []
    for i, (n, runs) in enumerate(UC_LARGE_THOROUGH if tier == "thorough" else UC_LARGE_QUICK):
        rng = numpy.random.default_rng([base, i, 506])
        out.append({"n": n, "runs": runs, "t": int(rng.integers(1, 3)), "seed": int(rng.integers(0, 2 ** 31 - 1)),
                    "unique": bool(rng.integers(0, 2)), "upper": float(rng.choice([0.1, 0.05, 0.2, 0.5])),
                    "via_xmap": bool(rng.integers(0, 2)), "xperm": int(rng.integers(0, 10 ** 6)), "nprogeny": int(rng.choice([1, 10, 40])),
                    "dec_cross": {"cnt": [int(v) for v in rng.integers(0, 3, size=10)], "perm": int(rng.integers(0, 10 ** 6)),
                                  "scale": float(rng.choice([1.0, 0.1, 3.0]))},
                    "ftr_seed": int(rng.integers(0, 2 ** 31 - 1))})
        out[-1]["dec_cross"]["pow"] = LARGE_POW[out[-1]["dec_cross"]["perm"] % len(LARGE_POW)]
    return out


def check_fact_uc_large(case, ctx):
    runs = [int(v) for v in case["runs"]]
    pop0 = seeded_population(case["seed"], case["n"], sum(runs), case["t"], 1, inbred=True)
    pop0["runs"] = runs
    # dense maps: neighbouring markers 0.001 .. 0.02 Morgan apart, so that linkage matters along the whole chromosome
    pop0["gaps"] = [g / 50.0 for g in pop0["gaps"]]
    ctx.label("markers_on_largest_chromosome>1024", max(runs) > 1024)
    q = dict(case)
    q["ftr"] = seeded_fact_transforms(case["ftr_seed"])
    uc_checks(ctx, q, pop0, dh_variance_inbred_np)


# ---- expected maximum breeding value ----------------------------------------------------------------------------------
@st.composite
def embv_case(draw):
    inbred = draw(st.sampled_from([True, True, False]))
    pop = draw(population(nmin=2, nmax=4, pmin=1, pmax=5, tmax=2, inbred=inbred))
    return {"pop": pop, "inbred": inbred, "unique": draw(st.booleans()), "nrep": draw(st.integers(1, 3)),
            "nprogeny": draw(st.integers(1, 4)), "seed": draw(st.integers(0, 2 ** 31 - 1)), "dec_cross": draw(_decision(10)),
            "ftr": draw(_fact_transforms())}


def embv_signature(ncross, nrep):
    """input-side signature of F-C05-c: every input except a single cross evaluated with a single replicate"""
    return not (ncross == 1 and nrep == 1)


def check_fact_embv(case, ctx):
    pop = case["pop"]
    n, p, t = pop["n"], pop["p"], pop["t"]
    inbred = all(pop["hap"][0][i][j] == pop["hap"][1][i][j] for i in range(n) for j in range(p))
    ctx.label("inbred_parents" if inbred else "heterozygous_parents")
    pg = make_gmat(pop, True)
    mod = make_model(pop)
    xmap = D.cross_map(n, 2, case["unique"])
    ncross = len(xmap)
    ctx.label("single_cross_single_rep", ncross == 1 and case["nrep"] == 1)
    if ctx.known("F-C05-c", embv_signature(ncross, case["nrep"])):
        return
    u, beta = pop["u"], pop["beta"]
    lo, hi, exact = [], [], []
    for a, b in xmap:
        rl, rh, re_ = [], [], []
        for k in range(t):
            # a progeny receives one gamete from each parent; each gamete allele at marker j comes from one of the parent's phases
            vmin = vmax = Fr(beta[k])
            for par in (a, b):
                for j in range(p):
                    vals = [Fr(u[j][k]) * pop["hap"][ph][par][j] for ph in (0, 1)]
                    vmin += min(vals)
                    vmax += max(vals)
            rl.append(float(vmin))
            rh.append(float(vmax))
            re_.append(float(vmin) if vmin == vmax else None)
        lo.append(rl)
        hi.append(rh)
        exact.append(re_)
    mag = sum(2 * abs(v) for row in u for v in row) + max(abs(v) for v in beta)
    tol = 64 * (p + 4) * EPS * (mag + 1.0) + 1e-300
    for enc, cls in sorted(CLASSES.get("EMBV", {}).items()):
        cc, mem, xs = dec_vectors(case["dec_cross"], ncross, [enc])
        if enc not in xs:
            continue
        probs = []
        tr, rec = fact_tr(case.get("ftr"), t), Recorder()
        for rep in range(2):
            mp = TwoWayCross(rng=numpy.random.RandomState(case["seed"]))
            probs.append(cls.from_pgmat_gpmod(nparent=2, nmating=1, nprogeny=case["nprogeny"], nrep=case["nrep"], unique_parents=case["unique"],
                                              pgmat=pg, gpmod=mod, mateprot=mp, **common_kwargs(tr, rec), **space_kwargs(enc, ncross, len(mem))))
        prob = probs[0]
        factory_eval(ctx, "EMBV", enc, "from_pgmat_gpmod", prob, rec, tr, xs[enc])
        E = numpy.asarray(prob.embv)
        ctx.check(E.shape == (ncross, t), "EMBV.factory.shape", str(E.shape))
        ctx.check(numpy.array_equal(E, probs[1].embv, equal_nan=True), "EMBV.factory.seed_reproducible",
                  lambda: "same seeded mating protocol, different EMBV tables: %s vs %s" % (E.tolist(), probs[1].embv.tolist()))
        ctx.check(numpy.array_equal(prob.decn_space_xmap, numpy.array(xmap)), "EMBV.factory.cross_map")
        for i in range(ncross):
            for k in range(t):
                v = float(E[i, k])
                ctx.check(lo[i][k] - tol <= v <= hi[i][k] + tol, "EMBV.factory.within_progeny_range",
                          lambda: "cross %s trait %d: EMBV %r outside the range [%r, %r] of any possible progeny" % (xmap[i], k, v, lo[i][k], hi[i][k]))
                if exact[i][k] is not None:
                    ctx.check(abs(v - exact[i][k]) <= tol, "EMBV.factory.exact_for_fixed_progeny",
                              lambda: "cross %s of lines whose progeny are all identical: EMBV %r, progeny GEBV %r" % (xmap[i], v, exact[i][k]))
        factory_latent(ctx, "EMBV", enc, prob, {"v": E.tolist()}, cc, mem, xs[enc])
    fact_labels(ctx, fact_tr(case.get("ftr"), t))
    ctx.nontrivial(ncross > 1)


# ---- random --------------------------------------------------------------------------------------------------------
@st.composite
def random_case(draw):
    n = draw(st.integers(2, 8))
    return {"n": n, "t": draw(st.integers(1, 3)), "seed": draw(st.integers(0, 2 ** 31 - 1)), "dec": draw(_decision(n)),
            "ftr": draw(_fact_transforms())}


def check_fact_random(case, ctx):
    n, t = case["n"], case["t"]
    tables = []
    for enc, cls in sorted(CLASSES.get("Random", {}).items()):
        c, members, xs = dec_vectors(case["dec"], n, [enc])
        if enc not in xs:
            continue
        sp = space_kwargs(enc, n, len(members))
        tr, rec = fact_tr(case.get("ftr"), t), Recorder()
        numpy.random.seed(case["seed"])
        p1 = cls.from_object(ntaxa=n, ntrait=t, **common_kwargs(tr, rec), **sp)
        numpy.random.seed(case["seed"])
        p2 = cls.from_object(ntaxa=n, ntrait=t, **common_kwargs(tr, rec), **sp)
        factory_eval(ctx, "Random", enc, "from_object", p1, rec, tr, xs[enc])
        R = numpy.asarray(p1.rbv)
        ctx.check(R.shape == (n, t) and bool(numpy.all(numpy.isfinite(R))), "Random.factory.shape", str(R.shape))
        ctx.check(numpy.array_equal(R, p2.rbv), "Random.factory.seed_reproducible")
        tables.append(R)
        factory_latent(ctx, "Random", enc, p1, {"v": R.tolist()}, c, members, xs[enc])
    for R in tables[1:]:
        ctx.check(numpy.array_equal(R, tables[0]), "Random.factory.encodings_draw_same_values",
                  "same seed, different random breeding values across encodings")
    fact_labels(ctx, fact_tr(case.get("ftr"), t))
    ctx.nontrivial(True)


# ---- the two derived breeding-value matrices named in the property's anchors --------------------------------------------
from pybrops.model.wgebvmat.DenseWeightedGenomicEstimatedBreedingValueMatrix import DenseWeightedGenomicEstimatedBreedingValueMatrix
from pybrops.model.embvmat.DenseExpectedMaximumBreedingValueMatrix import DenseExpectedMaximumBreedingValueMatrix


@st.composite
def bvmats_case(draw):
    inbred = draw(st.booleans())
    pop = draw(population(nmin=2, nmax=6, pmin=1, pmax=6, tmax=2, inbred=inbred, zero_effects=draw(st.booleans())))
    return {"pop": pop, "phased": draw(st.booleans()), "seed": draw(st.integers(0, 2 ** 31 - 1)),
            "nprogeny": draw(st.integers(1, 4)), "nrep": draw(st.integers(1, 3))}


def arcsine_weight(f):
    """Jannink-type weight (pi/2 - asin sqrt f) / sqrt(f (1-f)); 1 at f = 0 (library convention) and at f = 1 (its limit)"""
    f = float(f)
    if f <= 0.0 or f >= 1.0:
        return 1.0
    return (math.asin(1.0) - math.asin(math.sqrt(f))) / math.sqrt(f * (1.0 - f))


def check_fact_bvmats(case, ctx):
    pop0 = case["pop"]
    t, p = pop0["t"], pop0["p"]
    for oname, order in two_orders(pop0):
        pop = arrange(pop0, order)
        n = pop["n"]
        geno = dosage(pop)
        u = pop["u"]
        mod = make_model(pop)
        names = ["L%02d" % v for v in pop["names"]]
        # ---- weighted GEBV matrix
        gmat = make_gmat(pop, case["phased"])
        ff = D.favourable_frequency(geno, 2, u)
        fixed = any(ff[j][k] == 1 for j in range(p) for k in range(t))
        ctx.label("favourable_allele_fixed", fixed)
        if not ctx.known("F-C05-h", fixed):
            wm = DenseWeightedGenomicEstimatedBreedingValueMatrix.from_algmod(algmod=mod, gmat=gmat)
            got = wm.unscale()
            ref = [[math.fsum(geno[i][j] * u[j][k] * arcsine_weight(ff[j][k]) for j in range(p)) for k in range(t)] for i in range(n)]
            mag = [max(abs(v) for v in [ref[i][k] for i in range(n)]) + sum(2 * abs(u[j][k]) * arcsine_weight(ff[j][k]) for j in range(p)) for k in range(t)]
            tol = [[64 * (p + n + 4) * EPS * mag[k] + 1e-300 for k in range(t)] for _ in range(n)]
            ctx.check(_arr_close(got, ref, tol), "wgebvmat.from_algmod.values",
                      lambda: "%s order: unscaled wGEBVs %s, sum_j z_ij u_j w(f_j) = %s (fafreq %s)" % (
                          oname, numpy.asarray(got).tolist(), ref, [[float(f) for f in r] for r in ff]))
            ctx.check(list(wm.taxa) == names and list(wm.taxa_grp) == pop["grp"], "wgebvmat.from_algmod.taxon_order")
        # ---- expected maximum breeding value matrix (doubled haploids of every taxon)
        pg = make_gmat(pop, True)
        numpy.random.seed(case["seed"])
        e1 = DenseExpectedMaximumBreedingValueMatrix.from_gmod(gmod=mod, pgmat=pg, nprogeny=case["nprogeny"], nrep=case["nrep"])
        numpy.random.seed(case["seed"])
        e2 = DenseExpectedMaximumBreedingValueMatrix.from_gmod(gmod=mod, pgmat=pg, nprogeny=case["nprogeny"], nrep=case["nrep"])
        E = e1.unscale()
        ctx.check(numpy.array_equal(E, e2.unscale(), equal_nan=True), "embvmat.from_gmod.seed_reproducible")
        ctx.check(list(e1.taxa) == names, "embvmat.from_gmod.taxon_order")
        mag = sum(2 * abs(v) for row in u for v in row) + max(abs(v) for v in pop["beta"]) + 1.0
        tol = 256 * (p + n + 4) * EPS * mag
        for i in range(n):
            for k in range(t):
                vals = [[Fr(u[j][k]) * pop["hap"][ph][i][j] for ph in (0, 1)] for j in range(p)]
                lo = float(Fr(pop["beta"][k]) + 2 * sum(min(v) for v in vals))
                hi = float(Fr(pop["beta"][k]) + 2 * sum(max(v) for v in vals))
                v = float(E[i][k])
                ctx.check(lo - tol <= v <= hi + tol, "embvmat.from_gmod.within_progeny_range",
                          lambda: "taxon %d trait %d: EMBV %r outside [%r, %r], the values a doubled haploid of it can take" % (i, k, v, lo, hi))
                ctx.label("embv_exact", lo == hi)
    ctx.nontrivial(len(set(map(tuple, dosage(pop0)))) > 1)


# ----------------------------------------------------------------------------------------------------------------
# registration
# ----------------------------------------------------------------------------------------------------------------
QUICK = {"OCS": 180, "L2": 140, "L1": 180, "OPV": 200, "GB": 200, "Family": 220}
HIST_QUICK = {"OPV": 80, "GB": 80, "L2": 80, "OCS": 120}
RULE_CTOR = ("generated data + decision vector (0/1 or 0..3 counts, >=1 selected) + weights/transformations; every available "
             "encoding of the class family is built and compared with the rational-arithmetic definition; non-trivial = >=2 distinct "
             "selected elements, a weight != 1, latent vector not all zero; distinct by sha1 of the case")
RULE_FACT = ("generated population (non-sorted taxon names, groups, 1-3 chromosomes, fixed / homozygous / free loci, marker effects with "
             "exact zeros) stored in two different taxon orders; data attributes and latent values of the factory-made problems are "
             "compared with definitions evaluated on the raw population; non-trivial = population not monomorphic")
RULE_FACT_EVAL = RULE_FACT + ("; every factory is given three distinct recording transformations with their own kwargs and weights, "
                              "and evalfn of the result is compared with weights x transformations")

RULE_LARGE = ("fixed sizes just below / across / several times across the factories' hard-wired chunk of 1024 (cross configurations; "
              "markers of a linkage group), population and candidate made from the seed in the case (seed list follows VERIF_SEED); "
              "same clauses as the small factory sub-check; non-trivial = more than one chunk")

SUBCHECKS = [
    SubCheck("inventory", check_inventory, cases=inventory_cases, rule="one case per concrete class found at run time",
             doc="classes covered / excluded"),
]
for _crit in ORDER:
    if _crit in CLASSES:
        SUBCHECKS.append(SubCheck("ctor_" + _crit, check_ctor, ctor_case(_crit), quick=QUICK.get(_crit, 240),
                                  thorough=1500, shards_quick=1, shards_thorough=4, rule=RULE_CTOR,
                                  required_labels=("mode:binary",)))
RULE_HIST = ("one problem object per encoding: built from generated data, verified, then 1-4 re-declarations through public setters "
             "(subset size ndecn, single data attributes, all data with another number of traits, another number of candidates, weights, "
             "transformation kwargs, all transformations, decision-space arrays, elementwise flag), verified after each one with a decision "
             "vector of the size then declared against the definition on the data then declared; non-trivial = the history contains an "
             "assignment of ndecn or of data")
for _crit in ORDER:
    if _crit in CLASSES:
        SUBCHECKS.append(SubCheck("hist_" + _crit, check_hist, hist_case(_crit), quick=HIST_QUICK.get(_crit, 90), thorough=800,
                                  shards_quick=1, shards_thorough=4, rule=RULE_HIST,
                                  required_labels=(
                                      ("hist:ndecn_larger", "hist:ndecn_smaller") if "subset" in CLASSES[_crit] else ())))
SUBCHECKS += [
    SubCheck("fact_bvmat", check_fact_bvmat, bvmat_case(), quick=240, thorough=1500, shards_thorough=4, rule=RULE_FACT_EVAL,
             required_labels=("fact_distinct_constraint_kwargs",)),
    SubCheck("fact_genomic", check_fact_genomic, genomic_case(), quick=200, thorough=1200, shards_quick=2, shards_thorough=8, rule=RULE_FACT_EVAL,
             required_labels=("zero_effect_marker", "phased", "unphased", "fact_distinct_constraint_kwargs")),
    SubCheck("fact_l1", check_fact_l1, l1_case(), quick=200, thorough=1000, shards_thorough=2, rule=RULE_FACT_EVAL,
             required_labels=("fact_distinct_constraint_kwargs",)),
    SubCheck("fact_kinship", check_fact_kinship, kinship_case(), quick=160, thorough=1000, shards_quick=2, shards_thorough=8, rule=RULE_FACT_EVAL,
             required_labels=("cmat:molecular", "fact_distinct_constraint_kwargs")),
    SubCheck("fact_hap", check_fact_hap, hap_case(), quick=200, thorough=1200, shards_quick=2, shards_thorough=8, rule=RULE_FACT_EVAL,
             required_labels=("fact_distinct_constraint_kwargs", "nparent=3")),
    SubCheck("fact_hap_large", check_fact_hap_large, cases=hap_large_cases, shards_quick=8, shards_thorough=14, rule=RULE_LARGE,
             required_labels=("across_chunk_boundary",)),
    SubCheck("fact_uc", check_fact_uc, uc_case(), quick=120, thorough=800, shards_quick=2, shards_thorough=8, rule=RULE_FACT_EVAL,
             required_labels=("fact_distinct_constraint_kwargs", "via_xmap", "built_xmap")),
    SubCheck("fact_uc_large", check_fact_uc_large, cases=uc_large_cases, shards_quick=2, shards_thorough=6, rule=RULE_LARGE,
             required_labels=("markers_on_largest_chromosome>1024",)),
    SubCheck("fact_embv", check_fact_embv, embv_case(), quick=120, thorough=800, shards_thorough=4, rule=RULE_FACT_EVAL,
             required_labels=("fact_distinct_constraint_kwargs",)),
    SubCheck("fact_random", check_fact_random, random_case(), quick=100, thorough=500, shards_thorough=2, rule=RULE_FACT_EVAL,
             required_labels=("fact_distinct_constraint_kwargs",)),
    SubCheck("fact_bvmats", check_fact_bvmats, bvmats_case(), quick=120, thorough=600, shards_thorough=4, rule=RULE_FACT),
]
