"""C20 -- RecurrentSelectionBreedingProgram.evolve / advance: trace conformance with instrumented operators.

The programme is driven with harness-side operator / logbook subclasses that record what they are handed
(replicate number, time index, deep fingerprint of the five state containers, mating configuration, misc
keyword arguments) and then behave in one of four ways drawn per operator:

  pure     build new containers from the received contents (+ a stamp), leave the received ones alone
  same     hand back the very objects received, untouched
  inplace  mutate the received containers *in place*, nested objects included (overwrite array elements,
           append to nested lists, add a key, optionally clear()) and hand the same objects back
  mutnew   build new containers (+ stamp), then trash the received ones in place

Oracle = a reference interpreter of the property statement (`ref_run`) that works on private deep copies of the
initial state only (value semantics: it can not suffer from aliasing) and predicts the exact trace.  The
operator behaviours are test fixtures shared by both sides; the sequencing / hand-over / reset logic under test
is not.  Replicate independence is additionally asserted directly against the pre-run snapshot.

Histories are scripts over one or two programmes.  Besides evolve / advance a script may change the stored initial
state through the public setters between runs (`setstart`): to freshly built containers, to the programme's *own
current working containers* (the burn-in idiom `prog.start_genome = prog.genome`), or to the working containers of
the other programme; `fork` builds a second programme whose start_* arguments are the first programme's working
containers; `setwork` assigns the stored containers to the working attributes (`prog.genome = prog.start_genome`).
The reference interpreter gives all of these value semantics: the stored initial state is the *content* the
containers had when the setter / constructor was called, and every later replicate starts from exactly that.

Counts and clock values (nrep / ngen of evolve, ngen of advance, t_max of the constructor, t_cur through its setter)
are handed over in several integral *forms* (`case["forms"]`, `case["t_max_form"]`): built-in int, numpy integer scalars
of several widths, 0-d integer arrays, bool for 0 / 1.  The reference interpreter only ever sees their integer value.
A form that the programme refuses with a TypeError / ValueError before any operator or logbook call is labelled and the
call is repeated with the built-in int (so the rest of the history is still checked).  `ngen=None` (documented: "use
t_max"; raises on the unchanged tree) is tried as the last command of some histories: a TypeError ends the history there
(only the part before it is compared), a normal return must have run t_max generations per replicate.
"""
import copy
import itertools
import json

import numpy
from hypothesis import strategies as st

from pbt import compat  # noqa: F401
from pbt.core import SubCheck

from pybrops.breed.arch.RecurrentSelectionBreedingProgram import RecurrentSelectionBreedingProgram
from pybrops.breed.op.init.InitializationOperator import InitializationOperator
from pybrops.breed.op.psel.ParentSelectionOperator import ParentSelectionOperator
from pybrops.breed.op.mate.MatingOperator import MatingOperator
from pybrops.breed.op.eval.EvaluationOperator import EvaluationOperator
from pybrops.breed.op.ssel.SurvivorSelectionOperator import SurvivorSelectionOperator
from pybrops.breed.op.log.Logbook import Logbook

ASSUMPTIONS = [
    "operators honour the documented signature (return a 5-tuple / 6-tuple of dicts, may fill `miscout`); they may "
    "mutate any container they receive",
    "hand-over is compared by content (deep fingerprint), not by object identity: an implementation that copied "
    "between steps would still satisfy the statement",
    "`advance` is only called after an `evolve` with nrep >= 1 (it needs a working state)",
    "while a programme's working containers are, by the caller's own doing, the very objects stored as an initial state "
    "(own or another programme's; after setstart-from-working / fork / setwork), `advance` is not called on it: an in-place "
    "operator would then legitimately edit the stored state through the alias the caller created.  `evolve` (which resets "
    "first) is called, and must leave the stored objects alone",
    "a count (nrep, ngen) or clock value (t_max, t_cur) may be any integral form the programme accepts (built-in int, numpy "
    "integer scalar, 0-d integer array, bool for 0/1); what counts is its integer value.  A form refused with TypeError / "
    "ValueError before any operator or logbook call is not a violation (the call is repeated with the built-in int)",
    "`evolve(ngen=None)` (documented: use t_max) may raise TypeError / ValueError -- the history then ends before that call -- "
    "or must run t_max generations per replicate; it is only issued as the last command of a history",
]

NAMES = ("genome", "geno", "pheno", "bval", "gmod")
BEHAVIOURS = ("pure", "same", "inplace", "mutnew")
INPLACE_VARIANTS = ("all", "addkey", "overwrite", "clear")

# integral forms in which a count / clock value is handed to the programme
SCALAR_FORMS = ("int64", "int32", "int16", "int8", "uint8", "uint16", "uint64", "intp")
ARRAY_FORMS = ("arr0d_int64", "arr0d_int32", "arr0d_uint8")
COUNT_FORMS = ("int",) + SCALAR_FORMS + ARRAY_FORMS + ("bool",)


def resolve_form(form, v):
    """the form actually used for the value v ("bool" only carries 0 / 1; unknown names mean built-in int)"""
    if form == "bool":
        return "bool" if v in (0, 1) else "int"
    return form if form in COUNT_FORMS else "int"


def make_count(form, v):
    if form == "int":
        return int(v)
    if form == "bool":
        return bool(v)
    if form in SCALAR_FORMS:
        return numpy.dtype(form).type(v)
    if form in ARRAY_FORMS:
        return numpy.array(v, dtype=form[len("arr0d_"):])
    raise AssertionError(form)


def as_int(v):
    """integer value of a clock value an operator was handed (anything non-integral is kept as a marker string)"""
    if isinstance(v, (bool, int, numpy.integer, numpy.bool_)):
        return int(v)
    if isinstance(v, numpy.ndarray) and v.ndim == 0 and v.dtype.kind in "iub":
        return int(v)
    return "non-integral:%r" % (v,)


# ------------------------------------------------------------------------------------------------------
# state values: JSON description -> python containers (dicts holding nested lists / dicts / ndarrays)
# ------------------------------------------------------------------------------------------------------
def build_value(j):
    if isinstance(j, dict):
        if "__nd__" in j:
            return numpy.array(j["__nd__"], dtype="int64")
        return {k: build_value(v) for k, v in j.items()}
    if isinstance(j, list):
        return [build_value(v) for v in j]
    return j


def fp(x):
    """canonical, structure- and dtype-sensitive fingerprint of a nested container (a JSON string)"""
    def canon(v):
        if isinstance(v, dict):
            return {"d": sorted(([str(k), canon(w)] for k, w in v.items()), key=lambda kv: kv[0])}
        if isinstance(v, (list, tuple)):
            return {"l": [canon(w) for w in v]}
        if isinstance(v, numpy.ndarray):
            return {"a": [str(v.dtype), list(v.shape), v.tolist()]}
        if isinstance(v, numpy.generic):
            return {"s": [str(v.dtype), v.item()]}
        return v
    return json.dumps(canon(x), sort_keys=True)


def fp5(cs):
    return [fp(c) for c in cs]


def mutables(x, out=None):
    """all mutable objects reachable from x (kept alive by the returned list, so ids can not be recycled)"""
    if out is None:
        out = []
    if isinstance(x, dict):
        out.append(x)
        for v in x.values():
            mutables(v, out)
    elif isinstance(x, list):
        out.append(x)
        for v in x:
            mutables(v, out)
    elif isinstance(x, numpy.ndarray):
        out.append(x)
    return out


# ------------------------------------------------------------------------------------------------------
# operator behaviours (test fixtures, used by the real instrumented operators and by the reference run)
# ------------------------------------------------------------------------------------------------------
def _mutate_nested(x, tok, variant):
    if isinstance(x, dict):
        for k in list(x.keys()):
            _mutate_nested(x[k], tok, variant)
        if variant in ("all", "addkey"):
            x["tok%d" % tok] = tok
    elif isinstance(x, list):
        for v in x:
            _mutate_nested(v, tok, variant)
        if variant in ("all", "addkey"):
            x.append(tok)
    elif isinstance(x, numpy.ndarray):
        if variant in ("all", "overwrite"):
            x[...] = (x * 3 + tok) % 1000003


def _stamped_copy(c, opname, tok):
    new = copy.deepcopy(c)
    new["stamp"] = [opname, tok]
    new.setdefault("hist", [])
    new["hist"] = list(new["hist"]) + [tok]
    return new


def apply_behaviour(beh, variant, containers, opname, tok):
    """Returns the five containers the operator hands back.  May mutate `containers` (that is the point)."""
    if beh == "same":
        return list(containers)
    if beh == "pure":
        return [_stamped_copy(c, opname, tok) for c in containers]
    if beh == "inplace":
        for c in containers:
            if variant == "clear":
                # nested objects are emptied too, so a shallow copy of the start state would be damaged
                for v in c.values():
                    if isinstance(v, list):
                        del v[:]
                    elif isinstance(v, dict):
                        v.clear()
                    elif isinstance(v, numpy.ndarray):
                        v[...] = -tok
                c.clear()
                c["cleared_by"] = [opname, tok]
            else:
                _mutate_nested(c, tok, variant)
                c["stamp"] = [opname, tok]
        return list(containers)
    if beh == "mutnew":
        new = [_stamped_copy(c, opname, tok) for c in containers]
        for c in containers:
            _mutate_nested(c, tok + 1000, "all")
            c["trashed_by"] = [opname, tok]
        return new
    raise AssertionError(beh)


def make_mcfg(tok, containers):
    return {"mcfg_token": tok, "sizes": [len(c) for c in containers]}


# ------------------------------------------------------------------------------------------------------
# instrumented operators / logbook (real side)
# ------------------------------------------------------------------------------------------------------
class Recorder:
    def __init__(self, behaviours, variants):
        self.trace = []
        self.seq = 0
        self.behaviours = behaviours
        self.variants = variants
        self.keepalive = []      # every mutable object ever handed to an operator / the logbook
        self.lbook = None

    def next_token(self):
        self.seq += 1
        return self.seq

    def op_call(self, kind, cs, t_cur, t_max, miscout, extra_kwargs, mcfg=None, prog=0):
        tok = self.next_token()
        for c in cs:
            mutables(c, self.keepalive)
        rec = {"kind": kind, "prog": prog, "rep": self.lbook.rep, "t_cur": as_int(t_cur), "t_max": as_int(t_max), "recv": fp5(cs),
               "miscout_in": fp(miscout), "extra_kwargs": sorted(extra_kwargs)}
        if kind == "mate":
            rec["mcfg"] = fp(mcfg)
        self.trace.append(rec)
        out = apply_behaviour(self.behaviours[kind], self.variants[kind], cs, kind, tok)
        if isinstance(miscout, dict):
            miscout["x_%s" % kind] = tok
        return tok, out

    def log_call(self, kind, cs, t_cur, t_max, kw, mcfg=None):
        for c in cs:
            mutables(c, self.keepalive)
        rec = {"kind": kind, "rep": self.lbook.rep, "t_cur": as_int(t_cur), "t_max": as_int(t_max), "recv": fp5(cs),
               "misc": fp(kw)}
        if kind == "log_psel":
            rec["mcfg"] = fp(mcfg)
        self.trace.append(rec)


class InitOp(InitializationOperator):
    def __init__(self, rec, state_json):
        self.rec = rec
        self.state_json = state_json
        self.ncalls = 0
        self.produced = None

    def initialize(self, miscout=None, **kwargs):
        self.ncalls += 1
        self.rec.trace.append({"kind": "init", "ncall": self.ncalls})
        self.produced = [build_value(self.state_json[n]) for n in NAMES]
        return tuple(self.produced)


class PselOp(ParentSelectionOperator):
    def __init__(self, rec, prog=0):
        self.rec = rec
        self.prog = prog

    def pselect(self, genome, geno, pheno, bval, gmod, t_cur, t_max, miscout=None, **kwargs):
        cs = [genome, geno, pheno, bval, gmod]
        tok, out = self.rec.op_call("psel", cs, t_cur, t_max, miscout, kwargs, prog=self.prog)
        return (make_mcfg(tok, out),) + tuple(out)


class MateOp(MatingOperator):
    def __init__(self, rec, prog=0):
        self.rec = rec
        self.prog = prog

    def mate(self, mcfg, genome, geno, pheno, bval, gmod, t_cur, t_max, miscout=None, **kwargs):
        cs = [genome, geno, pheno, bval, gmod]
        tok, out = self.rec.op_call("mate", cs, t_cur, t_max, miscout, kwargs, mcfg=mcfg, prog=self.prog)
        return tuple(out)


class EvalOp(EvaluationOperator):
    def __init__(self, rec, prog=0):
        self.rec = rec
        self.prog = prog

    def evaluate(self, genome, geno, pheno, bval, gmod, t_cur, t_max, miscout=None, **kwargs):
        cs = [genome, geno, pheno, bval, gmod]
        tok, out = self.rec.op_call("eval", cs, t_cur, t_max, miscout, kwargs, prog=self.prog)
        return tuple(out)


class SselOp(SurvivorSelectionOperator):
    def __init__(self, rec, prog=0):
        self.rec = rec
        self.prog = prog

    def sselect(self, genome, geno, pheno, bval, gmod, t_cur, t_max, miscout=None, **kwargs):
        cs = [genome, geno, pheno, bval, gmod]
        tok, out = self.rec.op_call("ssel", cs, t_cur, t_max, miscout, kwargs, prog=self.prog)
        return tuple(out)


class Book(Logbook):
    def __init__(self, rec, rep0):
        self.rec = rec
        self._rep = rep0
        self._data = {}
        self.rep_history = [rep0]

    @property
    def data(self):
        return self._data

    @data.setter
    def data(self, value):
        self._data = value

    @property
    def rep(self):
        return self._rep

    @rep.setter
    def rep(self, value):
        self._rep = value
        self.rep_history.append(value)

    def log_initialize(self, genome, geno, pheno, bval, gmod, t_cur, t_max, **kwargs):
        self.rec.log_call("log_init", [genome, geno, pheno, bval, gmod], t_cur, t_max, kwargs)

    def log_pselect(self, mcfg, genome, geno, pheno, bval, gmod, t_cur, t_max, **kwargs):
        self.rec.log_call("log_psel", [genome, geno, pheno, bval, gmod], t_cur, t_max, kwargs, mcfg=mcfg)

    def log_mate(self, genome, geno, pheno, bval, gmod, t_cur, t_max, **kwargs):
        kwargs.pop("mcfg", None)      # the programme also forwards the mating configuration here; not part of the statement
        self.rec.log_call("log_mate", [genome, geno, pheno, bval, gmod], t_cur, t_max, kwargs)

    def log_evaluate(self, genome, geno, pheno, bval, gmod, t_cur, t_max, **kwargs):
        self.rec.log_call("log_eval", [genome, geno, pheno, bval, gmod], t_cur, t_max, kwargs)

    def log_sselect(self, genome, geno, pheno, bval, gmod, t_cur, t_max, **kwargs):
        self.rec.log_call("log_ssel", [genome, geno, pheno, bval, gmod], t_cur, t_max, kwargs)

    def reset(self):
        pass

    def write(self, filename):
        pass


# ------------------------------------------------------------------------------------------------------
# scripts: which commands take effect (harness bookkeeping shared by the real run and the reference run)
# ------------------------------------------------------------------------------------------------------
def _mask_idx(mask):
    idx = [i for i in range(5) if i < len(mask) and mask[i]]
    return idx or list(range(5))


def plan(case):
    """Resolves the raw script into the list of commands that are carried out.

    evolve   ["evolve", nrep, ngen, loginit, p=0]   ngen None (= "use t_max") only as the very last command; elsewhere it is
                                                    replaced by the integer t_max by the harness
    advance  ["advance", ngen, p=0]                  needs a working state; not while the working containers are somebody's
                                                    stored initial state (see ASSUMPTIONS)
    setclock ["setclock", value, p]                 prog_p.t_cur = value through the public setter; under the same conditions
                                                    as advance (it only matters to a following advance: evolve resets the clock)
    setstart ["setstart", src, mask, p, k]          prog_p.start_X = ... for the X in mask, through the public setters;
                                                    src "work": prog_p's own working containers, "other": the other
                                                    programme's working containers, "fresh": extra_states[k] built anew
    setwork  ["setwork", mask, p]                   prog_p.X = prog_p.start_X for the X in mask
    fork     ["fork"]                               second programme (own operator instances, same logbook) constructed with
                                                    start_* = the first programme's five working containers

    Every count / clock argument of a command that is carried out takes the next entry of case["forms"] (cyclically; absent
    or empty = built-in int) as the form in which it is handed over; the resolved form names are appended to the planned
    command (evolve: nrep form, ngen form; advance / setclock: one form).
    """
    forms = case.get("forms") or []
    nform = [0]

    def form_for(v):
        if v is None:
            return "none"
        f = resolve_form(forms[nform[0] % len(forms)], v) if forms else "int"
        nform[0] += 1
        return f

    nraw = len(case["script"])
    nextra = len(case.get("extra_states") or [])
    ini = [case["init"] == "given"]     # per programme: start_* are set
    have = [False]                      # per programme: has a complete working state
    alias = [False]                     # per programme: its working containers are (possibly) a stored initial state
    out = []
    for ci, cmd in enumerate(case["script"]):
        op = cmd[0]
        if op == "evolve":
            p = (cmd[4] if len(cmd) > 4 else 0) % len(ini)
            ngen = cmd[2]
            if ngen is None and ci != nraw - 1:
                ngen = case["t_max"]
            out.append(["evolve", p, cmd[1], ngen, bool(cmd[3]), not ini[p], form_for(cmd[1]), form_for(ngen)])
            ini[p] = True
            if cmd[1] >= 1:
                have[p] = True
                alias[p] = False
        elif op == "advance":
            p = (cmd[2] if len(cmd) > 2 else 0) % len(ini)
            if have[p] and not alias[p]:
                out.append(["advance", p, cmd[1], form_for(cmd[1])])
        elif op == "setclock":
            p = cmd[2] % len(ini)
            if have[p] and not alias[p]:
                out.append(["setclock", p, cmd[1], form_for(cmd[1])])
        elif op == "setstart":
            _, src, mask, p, k = cmd
            p %= len(ini)
            if not ini[p]:
                continue
            if src == "work" and have[p]:
                alias[p] = True
                out.append(["setstart", p, "work", _mask_idx(mask), None])
            elif src == "other" and len(ini) == 2 and have[1 - p]:
                alias[1 - p] = True
                out.append(["setstart", p, "other", _mask_idx(mask), None])
            elif src == "fresh" and nextra:
                out.append(["setstart", p, "fresh", _mask_idx(mask), k % nextra])
        elif op == "setwork":
            p = cmd[2] % len(ini)
            if ini[p]:
                alias[p] = True
                out.append(["setwork", p, _mask_idx(cmd[1])])
        elif op == "fork":
            if len(ini) == 1 and have[0]:
                alias[0] = True
                ini.append(True)
                have.append(False)
                alias.append(False)
                out.append(["fork"])
        else:
            raise AssertionError(op)
    return out


# ------------------------------------------------------------------------------------------------------
# reference interpreter of the property statement (value semantics only)
# ------------------------------------------------------------------------------------------------------
def ref_run(case):
    """Returns (trace, per-programme final {"state", "t"}, final lbook.rep, per-programme fingerprint of the stored state).

    Every container the interpreter keeps is a private deep copy: the stored initial state of a programme is the
    *content* that was handed to the constructor / the start_* setters at the time of the call, whatever object
    carried it."""
    beh, var = case["behaviours"], case["variants"]
    t_max = case["t_max"]
    trace = []
    seq = [0]
    rep = [case["rep0"]]
    first = [build_value(case["state"][n]) for n in NAMES]
    initial = [first if case["init"] == "given" else None]      # per programme: the stored initial state (by value)
    progs = [{"state": None, "t": None}]
    ninit = [0]

    def op(p, kind, mcfg=None):
        cur = progs[p]
        seq[0] += 1
        tok = seq[0]
        private = copy.deepcopy(cur["state"])           # value semantics: nobody else can see these objects
        r = {"kind": kind, "prog": p, "rep": rep[0], "t_cur": cur["t"], "t_max": t_max, "recv": fp5(private),
             "miscout_in": fp({}), "extra_kwargs": []}
        if kind == "mate":
            r["mcfg"] = fp(mcfg)
        trace.append(r)
        out = apply_behaviour(beh[kind], var[kind], private, kind, tok)
        cur["state"] = copy.deepcopy(out)
        return tok

    def log(p, kind, tok, opkind, mcfg=None):
        cur = progs[p]
        r = {"kind": kind, "rep": rep[0], "t_cur": cur["t"], "t_max": t_max, "recv": fp5(cur["state"]),
             "misc": fp({"x_%s" % opkind: tok})}
        if kind == "log_psel":
            r["mcfg"] = fp(mcfg)
        trace.append(r)

    def generations(p, ngen):
        cur = progs[p]
        for _ in range(ngen):
            tok = op(p, "psel")
            mcfg = make_mcfg(tok, cur["state"])
            log(p, "log_psel", tok, "psel", mcfg)
            tok = op(p, "mate", mcfg)
            log(p, "log_mate", tok, "mate")
            tok = op(p, "eval")
            log(p, "log_eval", tok, "eval")
            tok = op(p, "ssel")
            log(p, "log_ssel", tok, "ssel")
            cur["t"] += 1

    for cmd in plan(case):
        if cmd[0] == "evolve":
            _, p, nrep, ngen, loginit, needs_init = cmd[:6]
            if ngen is None:
                ngen = t_max                    # the documented default
            cur = progs[p]
            if needs_init:
                ninit[0] += 1
                trace.append({"kind": "init", "ncall": ninit[0]})
                initial[p] = first
            for _ in range(nrep):
                rep[0] += 1
                cur["state"] = copy.deepcopy(initial[p])
                cur["t"] = 0
                tok = op(p, "eval")
                if loginit:
                    log(p, "log_init", tok, "eval")
                cur["t"] += 1
                generations(p, ngen)
        elif cmd[0] == "advance":
            generations(cmd[1], cmd[2])
        elif cmd[0] == "setclock":
            progs[cmd[1]]["t"] = cmd[2]
        elif cmd[0] == "setstart":
            _, p, src, idx, k = cmd
            new = list(initial[p])
            for i in idx:
                if src == "work":
                    new[i] = copy.deepcopy(progs[p]["state"][i])
                elif src == "other":
                    new[i] = copy.deepcopy(progs[1 - p]["state"][i])
                else:
                    new[i] = build_value(case["extra_states"][k][NAMES[i]])
            initial[p] = new
        elif cmd[0] == "setwork":
            _, p, idx = cmd
            if progs[p]["state"] is not None:
                st_ = list(progs[p]["state"])
                for i in idx:
                    st_[i] = copy.deepcopy(initial[p][i])
                progs[p]["state"] = st_
        elif cmd[0] == "fork":
            initial.append(copy.deepcopy(progs[0]["state"]))
            progs.append({"state": None, "t": None})
    return trace, progs, rep[0], [None if ini is None else fp5(ini) for ini in initial]


# self-test of the reference interpreter on hand-written expectations (import time; failure = harness error)
def _selftest():
    case = {"state": {n: {"a": {"__nd__": [1]}} for n in NAMES}, "init": "given", "rep0": 0, "t_max": 5,
            "behaviours": {k: "same" for k in ("psel", "mate", "eval", "ssel")},
            "variants": {k: "all" for k in ("psel", "mate", "eval", "ssel")},
            "script": [["evolve", 2, 1, True]]}
    tr, progs, rep, ini = ref_run(case)
    kinds = [(r["kind"], r["rep"], r["t_cur"]) for r in tr]
    one = lambda r: [("eval", r, 0), ("log_init", r, 0), ("psel", r, 1), ("log_psel", r, 1), ("mate", r, 1),
                     ("log_mate", r, 1), ("eval", r, 1), ("log_eval", r, 1), ("ssel", r, 1), ("log_ssel", r, 1)]
    assert kinds == one(1) + one(2), kinds
    assert rep == 2 and progs[0]["t"] == 2
    assert all(r["recv"] == ini[0] for r in tr)

    # burn-in idiom with stamping operators: the second evolve starts every replicate from the content reached by the first
    case = dict(case, behaviours={k: "pure" for k in ("psel", "mate", "eval", "ssel")},
                script=[["evolve", 1, 0, False], ["setstart", "work", [True] * 5, 0, 0], ["advance", 1, 0],
                        ["evolve", 2, 0, False], ["fork"], ["evolve", 1, 0, False, 1]])
    assert [c[0] for c in plan(case)] == ["evolve", "setstart", "evolve", "fork", "evolve"]     # aliased: no advance
    tr, progs, rep, ini = ref_run(case)
    a = {"a": numpy.array([1], dtype="int64")}
    s1 = dict(a, stamp=["eval", 1], hist=[1])
    s2 = dict(a, stamp=["eval", 3], hist=[1, 3])
    assert [r["recv"] for r in tr] == [fp5([a] * 5), fp5([s1] * 5), fp5([s1] * 5), fp5([s2] * 5)], tr
    assert [r["prog"] for r in tr] == [0, 0, 0, 1] and [r["t_cur"] for r in tr] == [0] * 4
    assert ini == [fp5([s1] * 5), fp5([s2] * 5)] and rep == 4

    # forms never reach the reference interpreter; ngen=None as the last command means t_max generations
    case = dict(case, t_max=3, forms=["int64", "bool", "arr0d_int32"],
                script=[["evolve", 1, 2, False], ["setclock", 6, 0], ["advance", 1, 0], ["evolve", 2, None, False]])
    cmds = plan(case)
    assert [c[-2:] for c in cmds if c[0] == "evolve"] == [["int64", "int"], ["int", "none"]], cmds
    assert [c[-1] for c in cmds if c[0] != "evolve"] == ["arr0d_int32", "int64"], cmds
    tr, progs, rep, ini = ref_run(case)
    assert [r["t_cur"] for r in tr if r["kind"] == "psel"] == [1, 2, 6, 1, 2, 3, 1, 2, 3] and progs[0]["t"] == 4 and rep == 3
    assert ref_run(dict(case, forms=[]))[0] == tr
    assert type(make_count("arr0d_uint8", 3)) is numpy.ndarray and make_count("bool", 1) is True
    assert as_int(numpy.array(3, dtype="uint8")) == 3 and as_int(True) == 1 and as_int(numpy.int16(2)) == 2
    assert isinstance(as_int(2.0), str) and isinstance(as_int(numpy.array([2])), str)


_selftest()


# ------------------------------------------------------------------------------------------------------
# the check
# ------------------------------------------------------------------------------------------------------
FIELD_CLAUSE = {
    "kind": "trace.operator_order",
    "prog": "trace.operator_order",
    "rep": "trace.replicate_number",
    "t_cur": "trace.time_index",
    "t_max": "trace.t_max_passed_through",
    "recv": "trace.state_handed_over",
    "mcfg": "trace.mating_configuration_handed_over",
    "misc": "trace.log_receives_misc_of_this_step",
    "miscout_in": "trace.miscout_fresh_and_empty",
    "extra_kwargs": "trace.unexpected_keyword_arguments",
    "ncall": "trace.initialize_called_once",
}


def _stored(prog):
    return [prog.start_genome, prog.start_geno, prog.start_pheno, prog.start_bval, prog.start_gmod]


def run_check(case, ctx):
    script = case["script"]
    cmds = plan(case)
    beh = case["behaviours"]
    evs = [c for c in cmds if c[0] == "evolve"]
    nrep_tot = sum(c[2] for c in evs)
    ngen_max = max([case["t_max"] if c[3] is None else c[3] for c in evs] + [0])
    mutating = [k for k in ("psel", "mate", "eval", "ssel") if beh[k] in ("inplace", "mutnew")]
    ctx.label("nrep=0", nrep_tot == 0)
    ctx.label("ngen=0", ngen_max == 0)
    ctx.label("nrep>=2", nrep_tot >= 2)
    ctx.label("init_by_operator", case["init"] == "initop")
    ctx.label("has_advance", any(c[0] == "advance" for c in script))
    ctx.label("two_evolves", len(evs) >= 2)
    ctx.label("loginit_false", any(not c[4] for c in evs))
    ctx.label("eval_mutates_in_place", beh["eval"] in ("inplace", "mutnew"))
    ctx.label("any_inplace", bool(mutating))
    ctx.label("all_pure_or_same", not mutating)
    for k in mutating:
        if beh[k] == "inplace":
            ctx.label("inplace_variant_%s" % case["variants"][k])
    first_evolve_two_reps = any(c[2] >= 2 and (case["t_max"] if c[3] is None else c[3]) >= 1 for c in evs)
    # forms of the counts: which argument carries which form, and whether the generation count differs from t_max
    for c in cmds:
        if c[0] == "evolve":
            ctx.label("form_nrep_%s" % c[6], c[6] != "int")
            ctx.label("form_ngen_%s" % c[7], c[7] != "int")
            ctx.label("evolve_ngen_not_int_and_differs_from_t_max",
                      c[7] not in ("int", "none") and c[3] != case["t_max"] and c[2] >= 1)
            ctx.label("evolve_nrep_not_int", c[6] != "int" and c[2] >= 1)
        elif c[0] == "advance":
            ctx.label("form_advance_ngen_%s" % c[3], c[3] != "int")
            ctx.label("advance_ngen_not_int", c[3] != "int" and c[2] >= 1)
        elif c[0] == "setclock":
            ctx.label("setclock_effective")
    ctx.label("all_counts_builtin_int", all(f == "int" for c in cmds if c[0] in ("evolve", "advance") for f in c[6 if c[0] == "evolve" else 3:]))
    t_max_form = resolve_form(case.get("t_max_form") or "int", case["t_max"])
    ctx.label("t_max_form_%s" % t_max_form, t_max_form != "int")
    ctx.nontrivial((nrep_tot >= 2) and ngen_max >= 1 and bool(mutating))
    ctx.label("rule_nontrivial_single_evolve", first_evolve_two_reps and bool(mutating))
    # histories in which containers the programme has worked on are (or were made) the stored initial state and a
    # further reset follows: fed[q] = programme q's working containers are somebody's stored start
    fed = [False, False]
    for c in cmds:
        if c[0] == "setstart":
            ctx.label("setstart_%s" % c[2])
            ctx.label("setstart_partial", len(c[3]) < 5)
            if c[2] == "work":
                fed[c[1]] = True
            elif c[2] == "other":
                fed[1 - c[1]] = True
        elif c[0] == "setwork":
            ctx.label("setwork_from_start")
            fed[c[1]] = True
        elif c[0] == "fork":
            ctx.label("second_programme_from_working_containers")
            fed[0] = True
        elif c[0] == "evolve" and c[2] >= 1:
            if fed[c[1]]:
                ctx.label("reset_while_working_containers_are_a_stored_start")
                fed[c[1]] = False
            ctx.label("second_programme_evolved", c[1] == 1)
        elif c[0] == "advance":
            ctx.label("advance_effective")

    # ---- build the programme ------------------------------------------------------------------------------
    rec = Recorder(beh, case["variants"])
    book = Book(rec, case["rep0"])
    rec.lbook = book
    initop = InitOp(rec, case["state"])
    owned = []                       # (container built by the harness and handed to the programme, its fingerprint then)

    def make_prog(tag, containers):
        kw = {} if containers is None else {"start_" + n: c for n, c in zip(NAMES, containers)}
        ops = dict(initop=initop, pselop=PselOp(rec, tag), mateop=MateOp(rec, tag), evalop=EvalOp(rec, tag),
                   sselop=SselOp(rec, tag))
        if t_max_form != "int":
            try:
                return RecurrentSelectionBreedingProgram(t_max=make_count(t_max_form, case["t_max"]), **ops, **kw)
            except (TypeError, ValueError):
                ctx.label("refused_t_max_form_%s" % t_max_form)     # nothing has run yet: use the built-in int instead
        return RecurrentSelectionBreedingProgram(t_max=case["t_max"], **ops, **kw)

    def with_forms(what, call, values, fms):
        """call(*counts) with the counts in the planned forms.  A form refused with TypeError / ValueError before any
        operator (other than the initialisation operator) or the logbook was touched is labelled and the call repeated with
        built-in ints; an exception after that point is not a clean refusal and escapes."""
        if all(f == "int" for f in fms):
            return call(*values)
        i0, h0 = len(rec.trace), len(book.rep_history)
        try:
            return call(*[make_count(f, v) for f, v in zip(fms, values)])
        except (TypeError, ValueError):
            if len(book.rep_history) != h0 or any(r["kind"] != "init" for r in rec.trace[i0:]):
                raise
            ctx.label("refused_%s_form_%s" % (what, "+".join(f for f in fms if f != "int")))
        return call(*values)

    given = None
    if case["init"] == "given":
        given = [build_value(case["state"][n]) for n in NAMES]
        owned.extend((c, fp(c)) for c in given)
    progs = [make_prog(0, given)]
    # what the stored initial state must be, by content: fingerprints taken when the containers were handed over
    stored_fp = [fp5([build_value(case["state"][n]) for n in NAMES])]
    marks = [[0] * 5]                # per stored container: len(rec.keepalive) when it was stored
    evolved = [False]
    runs = []                        # (programme, first trace index, end trace index, stored_fp at the time)

    def stored_state_untouched(after):
        for q, pr in enumerate(progs):
            st_ = _stored(pr)
            if all(isinstance(s, dict) for s in st_):
                ctx.check(fp5(st_) == stored_fp[q], "start.unmodified",
                          lambda: "start_* containers of programme %d after %s differ from the contents they had when they "
                                  "were stored:\n got %s\n want %s" % (q, after, fp5(st_), stored_fp[q]))

    # ---- run ----------------------------------------------------------------------------------------------------
    ngen_none_refused = None         # programme whose final evolve(ngen=None) raised TypeError / ValueError
    for cmd in cmds:
        if cmd[0] == "evolve":
            _, p, nrep, ngen, loginit, _ni, f_nrep, f_ngen = cmd
            i0 = len(rec.trace)
            if ngen is None:
                # documented default ("If None, use 't_max'").  Always the last command of the history.
                h0, r0 = len(book.rep_history), book._rep
                try:
                    progs[p].evolve(nrep=make_count(f_nrep, nrep), ngen=None, lbook=book, loginit=loginit)
                except (TypeError, ValueError):
                    # refused (possibly part-way through the first replicate): the history ends before this command
                    ctx.label("ngen_none_refused")
                    ngen_none_refused = p
                    del rec.trace[i0:]
                    del book.rep_history[h0:]
                    book._rep = r0
                    stored_state_untouched("%s (refused)" % cmd[:2])
                    break
                ctx.label("ngen_none_accepted")
            else:
                with_forms("evolve", lambda a, b: progs[p].evolve(nrep=a, ngen=b, lbook=book, loginit=loginit),
                           [nrep, ngen], [f_nrep, f_ngen])
            runs.append((p, i0, len(rec.trace), list(stored_fp[p])))
            evolved[p] = True
        elif cmd[0] == "advance":
            with_forms("advance", lambda a: progs[cmd[1]].advance(ngen=a, lbook=book), [cmd[2]], [cmd[3]])
        elif cmd[0] == "setclock":
            def _set(a):
                progs[cmd[1]].t_cur = a
            with_forms("t_cur", _set, [cmd[2]], [cmd[3]])
        elif cmd[0] == "setstart":
            _, p, src, idx, k = cmd
            for i in idx:
                n = NAMES[i]
                if src == "work":
                    obj = getattr(progs[p], n)
                elif src == "other":
                    obj = getattr(progs[1 - p], n)
                else:
                    obj = build_value(case["extra_states"][k][n])
                    owned.append((obj, fp(obj)))
                stored_fp[p][i] = fp(obj)
                marks[p][i] = len(rec.keepalive)
                setattr(progs[p], "start_" + n, obj)
        elif cmd[0] == "setwork":
            _, p, idx = cmd
            for i in idx:
                setattr(progs[p], NAMES[i], getattr(progs[p], "start_" + NAMES[i]))
        elif cmd[0] == "fork":
            objs = [getattr(progs[0], n) for n in NAMES]
            stored_fp.append(fp5(objs))
            marks.append([len(rec.keepalive)] * 5)
            evolved.append(False)
            progs.append(make_prog(1, objs))
        stored_state_untouched("%s" % cmd[:2])

    # ---- reference ---------------------------------------------------------------------------------------------
    if ngen_none_refused is not None:
        case = dict(case, script=case["script"][:-1])       # plan() consumes forms in order: the prefix plans identically
        assert plan(case) == cmds[:-1]
        nrep_tot = sum(c[2] for c in cmds[:-1] if c[0] == "evolve")
    exp, ref_progs, exp_rep, _ = ref_run(case)
    got = rec.trace

    # replicate independence, asserted directly against the snapshots taken at hand-over (not via the reference run)
    nstarts = 0
    for p, i0, i1, want in runs:
        for r in got[i0:i1]:
            if r["kind"] == "eval" and r["t_cur"] == 0:
                nstarts += 1
                ctx.check(r["recv"] == want, "replicate.starts_from_initial_state",
                          lambda: "replicate #%d (logbook rep %s, programme %d) started from a state different from the stored "
                                  "initial one:\n got %s\n want %s" % (nstarts, r["rep"], p, r["recv"], want))
    ctx.check(nstarts == nrep_tot, "replicate.one_initial_evaluation_each",
              "evaluations at t_cur=0: %d, replicates requested: %d" % (nstarts, nrep_tot))

    # the stored initial state
    for p, prog in enumerate(progs):
        if not evolved[p]:
            continue
        stored = _stored(prog)
        ctx.check(all(isinstance(s, dict) for s in stored), "start.is_set_after_evolve")
        shared = []
        for i, s in enumerate(stored):
            later = rec.keepalive[marks[p][i]:]         # everything handed to an operator / the logbook since s was stored
            smut = mutables(s)
            sids = {id(o) for o in smut}
            shared.extend(type(o).__name__ for o in later if id(o) in sids)
            sarr = [o for o in smut if isinstance(o, numpy.ndarray)]
            if sarr:
                for o in later:
                    if isinstance(o, numpy.ndarray) and any(numpy.shares_memory(o, a) for a in sarr):
                        shared.append("ndarray-memory")
                        break
        ctx.check(not shared, "start.shares_mutable_objects_with_working_state", lambda: "shared: %s" % shared[:5])
    for obj, f in owned:
        ctx.check(fp(obj) == f, "start.caller_containers_modified",
                  lambda: "a container built by the caller and passed as start_* was modified: %s\n was %s" % (fp(obj), f))
    if given is not None:
        ctx.check(initop.ncalls == 0, "trace.initialize_called_although_state_given")

    # ---- trace comparison ------------------------------------------------------------------------------------
    for i in range(min(len(got), len(exp))):
        g, e = got[i], exp[i]
        if g == e:
            continue
        if g["kind"] != e["kind"]:
            # name the missing / surplus call
            clause = "trace.operator_order"
            if e["kind"].startswith("log_") or g["kind"].startswith("log_"):
                clause = "trace.logging_after_every_step"
            ctx.fail(clause, "call #%d is %s (rep %s, t %s) but the statement requires %s (rep %s, t %s); calls so far: %s"
                     % (i, g["kind"], g.get("rep"), g.get("t_cur"), e["kind"], e.get("rep"), e.get("t_cur"),
                        [r["kind"] for r in got[max(0, i - 6): i + 1]]))
            break
        bad = [k for k in ("prog", "rep", "t_cur", "t_max", "recv", "mcfg", "misc", "miscout_in", "extra_kwargs", "ncall")
               if g.get(k) != e.get(k)]
        k = bad[0]
        ctx.fail(FIELD_CLAUSE[k], "call #%d %s (rep %s, t %s): field %s\n got  %s\n want %s"
                 % (i, g["kind"], g.get("rep"), g.get("t_cur"), k, g.get(k), e.get(k)))
        # (suppressed clause: keep looking at later records)
    if len(got) != len(exp):
        n = min(len(got), len(exp))
        if got[:n] == exp[:n]:
            ctx.fail("trace.length", "%d calls recorded, %d required; first surplus/missing: %s"
                     % (len(got), len(exp), (got[n:] or exp[n:])[0]["kind"]))

    # ---- logbook replicate counter ------------------------------------------------------------------------------
    ctx.check(book.rep == exp_rep, "lbook.rep_incremented_once_per_replicate",
              "lbook.rep=%r after the run, expected %r" % (book.rep, exp_rep))
    steps = [b - a for a, b in zip(book.rep_history, book.rep_history[1:])]
    ctx.check(all(s == 1 for s in steps) and len(steps) == nrep_tot, "lbook.rep_incremented_once_per_replicate",
              "rep assignments: %s" % book.rep_history)

    # ---- final working state and clock --------------------------------------------------------------------------
    for p, prog in enumerate(progs):
        cur = ref_progs[p]
        if cur["state"] is not None and p != ngen_none_refused:
            final = [prog.genome, prog.geno, prog.pheno, prog.bval, prog.gmod]
            ctx.check(fp5(final) == fp5(cur["state"]), "final.working_state_is_last_returned",
                      lambda: "programme %d: got %s\nwant %s" % (p, fp5(final), fp5(cur["state"])))
            ctx.check(prog.t_cur == cur["t"], "final.time_index", "t_cur=%r expected %r" % (prog.t_cur, cur["t"]))
        ctx.check(prog.t_max == case["t_max"], "final.t_max_changed")


# ------------------------------------------------------------------------------------------------------
# generators
# ------------------------------------------------------------------------------------------------------
FIXED_STATE = {
    "genome": {"cand": {"__nd__": [1, 2, 3]}, "main": {"hist": [0], "deep": [[1], [2, 3]]}},
    "geno": {"cand": {"__nd__": [4]}, "queue": [{"__nd__": [5, 6]}, {"__nd__": [7]}]},
    "pheno": {"main": {"__nd__": [8, 9]}, "l": [1, [2, [3]]]},
    "bval": {"cand": {"__nd__": [10]}, "d": {"e": {"f": [11]}}},
    "gmod": {"cand": [12], "main": {"__nd__": [13, 14]}, "true": {"__nd__": [15]}},
}


def exhaustive_cases(tier):
    out = []
    for nrep in (0, 1, 2):
        for ngen in (0, 1, 2):
            for loginit in (True, False):
                for combo in itertools.product(BEHAVIOURS, repeat=4):
                    out.append({
                        "state": FIXED_STATE, "init": "given" if (nrep + ngen) % 2 == 0 else "initop",
                        "rep0": 0, "t_max": 7,
                        "behaviours": dict(zip(("psel", "mate", "eval", "ssel"), combo)),
                        "variants": {k: "all" for k in ("psel", "mate", "eval", "ssel")},
                        "script": [["evolve", nrep, ngen, loginit]],
                    })
    return out


_leaf = st.one_of(st.integers(-5, 5), st.just(None), st.booleans(), st.sampled_from(["x", "y"]))
_nd = st.builds(lambda xs: {"__nd__": xs}, st.one_of(
    st.lists(st.integers(-9, 9), min_size=0, max_size=4),
    st.lists(st.lists(st.integers(-9, 9), min_size=2, max_size=2), min_size=1, max_size=2)))
_value = st.recursive(st.one_of(_leaf, _nd),
                      lambda ch: st.one_of(st.lists(ch, max_size=3),
                                           st.dictionaries(st.sampled_from(["k", "m", "cand", "main"]), ch, max_size=2)),
                      max_leaves=6)


@st.composite
def container(draw):
    kind = draw(st.sampled_from(["empty", "skeleton", "skeleton", "free", "free"]))
    if kind == "empty":
        return {}
    c = draw(st.dictionaries(st.sampled_from(["cand", "main", "queue", "true", "k"]), _value, max_size=3))
    if kind == "skeleton":
        c["arr"] = draw(_nd)
        c["lst"] = [draw(st.integers(0, 9)), [draw(st.integers(0, 9))]]
    return c


_mask = st.sampled_from([[True] * 5, [True] * 5, [True, False, False, True, False], [False, True, True, False, True],
                         [False, False, False, False, True], [True, True, True, True, False]])


@st.composite
def random_case(draw):
    state = {n: draw(container()) for n in NAMES}
    beh = {k: draw(st.sampled_from(BEHAVIOURS + ("inplace", "mutnew"))) for k in ("psel", "mate", "eval", "ssel")}
    var = {k: draw(st.sampled_from(INPLACE_VARIANTS)) for k in ("psel", "mate", "eval", "ssel")}
    # plain histories (evolve / advance on one programme) and histories in which the stored initial state is changed
    # between runs or a second programme is built from the first one's working containers
    rich = draw(st.sampled_from([True, False, True, False]))
    ncmd = draw(st.sampled_from([4, 3, 5, 4, 6, 3, 2] if rich else [1, 1, 1, 2, 2, 3]))
    script = []
    extra = []
    early_fork = rich and draw(st.sampled_from([True, False, False]))
    final_evolve = rich and draw(st.sampled_from([True, True, False]))
    for j in range(ncmd):
        kind = draw(st.sampled_from(["setstart", "evolve", "setstart", "evolve", "advance", "setstart", "setwork", "evolve", "setstart", "fork"])) if rich \
            else ("advance" if draw(st.integers(0, 3)) == 0 else "evolve")
        if not script:
            kind = "evolve"
        elif early_fork and len(script) == 1:
            kind = "fork"
        elif final_evolve and j == ncmd - 1:
            kind = "evolve"
        p = draw(st.integers(0, 1)) if rich else 0
        if kind == "advance":
            script.append(["advance", draw(st.integers(0, 3))] + ([p] if rich else []))
        elif kind == "evolve":
            script.append(["evolve", draw(st.sampled_from([2, 1, 3, 0, 4, 2])), draw(st.sampled_from([1, 2, 0, 3, 5, 4, 1])),
                           draw(st.booleans())] + ([p] if rich else []))
        elif kind == "setstart":
            src = draw(st.sampled_from(["other", "work", "other", "fresh"] if early_fork else ["work", "work", "fresh", "other"]))
            if src == "fresh":
                extra.append({n: draw(container()) for n in NAMES})
            script.append(["setstart", src, draw(_mask), p, len(extra) - 1 if src == "fresh" else 0])
        elif kind == "setwork":
            script.append(["setwork", draw(_mask), p])
        else:
            script.append(["fork"])
    # the forms in which counts / clock values are handed over: two cases in five keep built-in ints throughout
    fkind = draw(st.sampled_from(["int", "mixed", "int", "one", "mixed"]))
    forms = []
    if fkind == "one":
        forms = [draw(st.sampled_from(COUNT_FORMS[1:]))]
    elif fkind == "mixed":
        forms = draw(st.lists(st.sampled_from(COUNT_FORMS + SCALAR_FORMS[:2] + ARRAY_FORMS[:1]), min_size=2, max_size=5))
    t_max_form = draw(st.sampled_from(["int"] * 6 + ["bool", "int64", "arr0d_int64", "uint8"]))
    if fkind != "int":
        # the clock set through its public setter before an advance; the documented ngen=None at the very end
        if draw(st.sampled_from([True, False, False])):
            j = draw(st.integers(1, len(script)))
            q = draw(st.integers(0, 1)) if rich else 0
            script[j:j] = [["setclock", draw(st.integers(0, 12)), q], ["advance", draw(st.integers(0, 3)), q]]
        if draw(st.sampled_from([True, False, False, False])):
            script.append(["evolve", draw(st.sampled_from([1, 2, 0, 3])), None, draw(st.booleans()), draw(st.integers(0, 1)) if rich else 0])
    case = {"state": state, "init": draw(st.sampled_from(["given", "given", "initop"])),
            "rep0": draw(st.sampled_from([0, 0, 1, 7, -3])), "t_max": draw(st.integers(0, 9)),
            "behaviours": beh, "variants": var, "script": script}
    if rich:
        case["extra_states"] = extra
    if forms:
        case["forms"] = forms
    if t_max_form != "int":
        case["t_max_form"] = t_max_form
    return case


# finite block for the forms of counts: every form in every count position, generation counts below / equal to / above t_max
COUNT_SCRIPTS = [
    # (script, t_max)
    ([["evolve", 2, 3, True]], 7),
    ([["evolve", 1, 5, False]], 2),
    ([["evolve", 3, 0, True]], 4),
    ([["evolve", 1, 1, True]], 1),
    ([["evolve", 0, 1, True], ["evolve", 1, 0, False], ["advance", 2]], 5),
    ([["evolve", 1, 1, True], ["advance", 1], ["setclock", 9, 0], ["advance", 2], ["evolve", 2, 2, False]], 3),
    ([["evolve", 1, 0, False], ["setclock", 1, 0], ["advance", 0], ["setclock", 0, 0], ["advance", 1], ["evolve", 1, 1, True]], 0),
    ([["evolve", 2, 1, True], ["evolve", 2, None, True]], 3),
    ([["evolve", 1, 2, False], ["evolve", 0, None, True]], 2),
    ([["evolve", 1, None, True]], 0),
]
_COUNT_BEHAVIOURS = [("pure",) * 4, ("inplace",) * 4, ("same", "mutnew", "inplace", "pure"), ("mutnew", "inplace", "same", "inplace")]


def countform_cases(tier):
    out = []
    rot = COUNT_FORMS[1:]
    for si, (script, t_max) in enumerate(COUNT_SCRIPTS):
        for fi, form in enumerate(COUNT_FORMS):
            # the form in every count position; only on replicate counts; only on generation counts; rotating through all
            layouts = [[form], [form, "int"], ["int", form], [rot[(fi + j) % len(rot)] for j in range(5)]]
            if form == "int":
                layouts = layouts[:1]
            for li, forms in enumerate(layouts):
                for bi, combo in enumerate(_COUNT_BEHAVIOURS):
                    if tier == "quick" and (si + fi + li + bi) % 2:
                        continue
                    out.append({
                        "state": FIXED_STATE, "init": "initop" if (si + fi + bi) % 3 == 0 else "given", "rep0": bi - 1,
                        "t_max": t_max, "t_max_form": COUNT_FORMS[(fi + li) % len(COUNT_FORMS)] if li == 3 else "int",
                        "behaviours": dict(zip(("psel", "mate", "eval", "ssel"), combo)),
                        "variants": {k: INPLACE_VARIANTS[(bi + j) % 4] for j, k in enumerate(("psel", "mate", "eval", "ssel"))},
                        "script": script, "forms": forms,
                    })
    return out


# finite block for histories that feed working containers back as a stored initial state (or the reverse)
_F = [True] * 5
_P1 = [True, False, False, True, False]
_P2 = [False, True, True, False, True]
FEEDBACK_SCRIPTS = [
    # burn-in, then the reached population becomes the initial state of the experiment
    [["evolve", 2, 1, True, 0], ["setstart", "work", _F, 0, 0], ["evolve", 2, 1, True, 0]],
    [["evolve", 1, 0, False, 0], ["setstart", "work", _P1, 0, 0], ["evolve", 2, 2, True, 0], ["advance", 1, 0]],
    [["evolve", 1, 2, True, 0], ["setstart", "work", _P2, 0, 0], ["advance", 1, 0], ["evolve", 0, 1, True, 0],
     ["evolve", 1, 1, False, 0], ["setstart", "work", _F, 0, 0], ["evolve", 2, 0, True, 0]],
    # a second programme starts from the first one's population; both keep running
    [["evolve", 1, 1, True, 0], ["fork"], ["evolve", 1, 1, True, 0], ["evolve", 2, 1, True, 1]],
    [["evolve", 1, 1, False, 0], ["fork"], ["evolve", 1, 1, True, 1], ["evolve", 1, 0, True, 0], ["evolve", 1, 0, True, 1],
     ["advance", 1, 0], ["advance", 1, 1]],
    [["evolve", 1, 1, True, 0], ["fork"], ["evolve", 1, 1, True, 1], ["setstart", "other", _F, 0, 0], ["evolve", 1, 1, True, 1],
     ["evolve", 2, 1, True, 0]],
    [["evolve", 1, 0, True, 0], ["fork"], ["evolve", 2, 1, True, 1], ["setstart", "other", _P1, 0, 0], ["evolve", 1, 1, True, 0],
     ["evolve", 1, 0, True, 1], ["evolve", 1, 0, True, 0]],
    # the stored containers assigned to the working attributes, then a run
    [["setwork", _F, 0], ["evolve", 2, 1, True, 0]],
    [["evolve", 1, 1, True, 0], ["setwork", _P2, 0], ["evolve", 2, 0, False, 0], ["advance", 2, 0]],
    # freshly built containers through the setters between runs
    [["evolve", 1, 1, True, 0], ["setstart", "fresh", _F, 0, 0], ["evolve", 2, 1, True, 0]],
    [["evolve", 2, 0, True, 0], ["setstart", "fresh", _P1, 0, 0], ["advance", 1, 0], ["evolve", 1, 2, False, 0],
     ["setstart", "work", _P1, 0, 0], ["evolve", 1, 1, True, 0]],
]
FRESH_STATE = {
    "genome": {"cand": {"__nd__": [21, 22]}, "z": [[3]]},
    "geno": {},
    "pheno": {"main": {"__nd__": [[23, 24]]}},
    "bval": {"q": {"r": [25]}, "cand": {"__nd__": [26]}},
    "gmod": {"true": {"__nd__": [27]}, "l": [28, [29]]},
}


def feedback_cases(tier):
    out = []
    for si, script in enumerate(FEEDBACK_SCRIPTS):
        for ci, combo in enumerate(itertools.product(BEHAVIOURS, repeat=4)):
            if tier == "quick" and combo[0] != combo[1]:
                continue                                  # quick: pselect and mate behave alike (64 of the 256 combinations)
            out.append({
                "state": FIXED_STATE, "extra_states": [FRESH_STATE],
                "init": "initop" if (si + ci) % 3 == 0 else "given", "rep0": 0, "t_max": 7,
                "behaviours": dict(zip(("psel", "mate", "eval", "ssel"), combo)),
                "variants": {k: INPLACE_VARIANTS[(ci + j + si) % 4] for j, k in enumerate(("psel", "mate", "eval", "ssel"))},
                "script": script,
            })
    return out


SUBCHECKS = [
    SubCheck("exhaustive", run_check, cases=exhaustive_cases, shards_quick=4, shards_thorough=8,
             rule="exhaustive: nrep in 0..2 x ngen in 0..2 x loginit x all 4^4 behaviour combinations of "
                  "(pselect, mate, evaluate, sselect) over {pure, same, inplace, mutnew} on a fixed nested initial state; "
                  "non-trivial = nrep>=2, ngen>=1 and at least one operator mutating in place",
             required_labels=("nrep=0", "ngen=0", "nrep>=2", "eval_mutates_in_place", "init_by_operator")),
    SubCheck("feedback", run_check, cases=feedback_cases, shards_quick=2, shards_thorough=4,
             rule="finite: 11 fixed histories in which the stored initial state is replaced between runs through the public "
                  "setters -- by the programme's own working containers (all five or some), by the other programme's, by "
                  "freshly built ones -- or a second programme is constructed from the first one's working containers, or the "
                  "stored containers are assigned to the working attributes; each followed by further evolve calls; x 64 "
                  "(quick) / 256 (thorough) behaviour combinations; non-trivial = >=2 replicates in total, ngen>=1 and at "
                  "least one operator mutating in place",
             required_labels=("reset_while_working_containers_are_a_stored_start", "second_programme_evolved",
                              "setstart_work", "setstart_other", "setstart_fresh", "setstart_partial", "setwork_from_start",
                              "second_programme_from_working_containers", "advance_effective", "init_by_operator")),
    SubCheck("countforms", run_check, cases=countform_cases, shards_quick=2, shards_thorough=4,
             rule="finite: 10 fixed plain histories (evolve / advance, the clock set through its setter before an advance, "
                  "evolve(ngen=None) as the last command; generation counts below, equal to and above t_max, zero counts) x "
                  "13 integral forms of the counts (built-in int, numpy int64/int32/int16/int8/uint8/uint16/uint64/intp "
                  "scalars, 0-d int64/int32/uint8 arrays, bool for 0/1) x 4 layouts (every count, replicate counts only, "
                  "generation counts only, rotating through all forms + t_max in that form) x 4 behaviour combinations "
                  "(every second one in the quick tier); the reference interpreter sees integer values only; "
                  "non-trivial = >=2 replicates in total, ngen>=1 and at least one operator mutating in place",
             required_labels=("evolve_ngen_not_int_and_differs_from_t_max", "evolve_nrep_not_int", "advance_ngen_not_int",
                              "form_ngen_int64", "form_ngen_int32", "form_ngen_uint8", "form_ngen_intp",
                              "form_ngen_arr0d_int64", "form_ngen_bool", "form_nrep_int64", "form_nrep_arr0d_int32",
                              "form_nrep_bool", "form_advance_ngen_int16", "setclock_effective", "t_max_form_bool",
                              "all_counts_builtin_int", "init_by_operator")),
    SubCheck("random", run_check, random_case(), quick=600, thorough=4000, shards_quick=4, shards_thorough=16,
             rule="generated: half plain scripts of 1-3 evolve(nrep 0-4, ngen 0-5, loginit)/advance(0-3) calls on one "
                  "programme, half scripts of 2-6 commands over one or two programmes that also replace the stored initial "
                  "state between runs (own / other programme's working containers, fresh containers; all five or a subset), "
                  "assign stored containers to the working attributes, or construct the second programme from the first "
                  "one's working containers; random nested initial containers (empty dicts included), state given or "
                  "produced by the init operator, behaviour + in-place variant per operator, lbook.rep start, t_max; in "
                  "three cases of five the counts (nrep, ngen, advance ngen, t_cur through its setter, t_max) are handed over "
                  "as numpy integer scalars / 0-d integer arrays / bool (one form throughout or a rotating list), a third of "
                  "those also set the clock before an extra advance and a quarter end with evolve(ngen=None); "
                  "non-trivial = >=2 replicates in total, ngen>=1 and at least one operator mutating in place; distinct by "
                  "sha1 of the case",
             required_labels=("nrep=0", "ngen=0", "nrep>=2", "has_advance", "two_evolves", "loginit_false",
                              "init_by_operator", "inplace_variant_clear", "inplace_variant_overwrite",
                              "reset_while_working_containers_are_a_stored_start", "second_programme_evolved",
                              "setstart_work", "setstart_other", "setstart_fresh", "setwork_from_start",
                              "evolve_ngen_not_int_and_differs_from_t_max", "evolve_nrep_not_int", "advance_ngen_not_int",
                              "all_counts_builtin_int", "setclock_effective")),
]
