"""C20 -- RecurrentSelectionBreedingProgram.evolve / advance: trace conformance with instrumented operators.

The programme is driven with harness-side operator / logbook subclasses that record what they are handed
(replicate number, time index, deep fingerprint of the five state containers, mating configuration, misc
keyword arguments) and then behave in one of four ways drawn per operator:

  pure     build new containers from the received contents (+ a stamp), leave the received ones alone
  same     hand back the very objects received, untouched
  inplace  mutate the received containers *in place*, nested objects included (overwrite array elements,
           append to nested lists, add a key, optionally clear()) and hand the same objects back
  mutnew   build new containers (+ stamp), then trash the received ones in place

Oracle = a reference interpreter of the property statement (`ref_run`) that works on private deep copies of the
initial state only (value semantics: it can not suffer from aliasing) and predicts the exact trace.  The
operator behaviours are test fixtures shared by both sides; the sequencing / hand-over / reset logic under test
is not.  Replicate independence is additionally asserted directly against the pre-run snapshot.
"""
import copy
import itertools
import json

import numpy
from hypothesis import strategies as st

from pbt import compat  # noqa: F401
from pbt.core import SubCheck

from pybrops.breed.arch.RecurrentSelectionBreedingProgram import RecurrentSelectionBreedingProgram
from pybrops.breed.op.init.InitializationOperator import InitializationOperator
from pybrops.breed.op.psel.ParentSelectionOperator import ParentSelectionOperator
from pybrops.breed.op.mate.MatingOperator import MatingOperator
from pybrops.breed.op.eval.EvaluationOperator import EvaluationOperator
from pybrops.breed.op.ssel.SurvivorSelectionOperator import SurvivorSelectionOperator
from pybrops.breed.op.log.Logbook import Logbook

ASSUMPTIONS = [
    "operators honour the documented signature (return a 5-tuple / 6-tuple of dicts, may fill `miscout`); they may "
    "mutate any container they receive",
    "hand-over is compared by content (deep fingerprint), not by object identity: an implementation that copied "
    "between steps would still satisfy the statement",
    "`advance` is only called after an `evolve` with nrep >= 1 (it needs a working state)",
]

NAMES = ("genome", "geno", "pheno", "bval", "gmod")
BEHAVIOURS = ("pure", "same", "inplace", "mutnew")
INPLACE_VARIANTS = ("all", "addkey", "overwrite", "clear")


# ------------------------------------------------------------------------------------------------------
# state values: JSON description -> python containers (dicts holding nested lists / dicts / ndarrays)
# ------------------------------------------------------------------------------------------------------
def build_value(j):
    if isinstance(j, dict):
        if "__nd__" in j:
            return numpy.array(j["__nd__"], dtype="int64")
        return {k: build_value(v) for k, v in j.items()}
    if isinstance(j, list):
        return [build_value(v) for v in j]
    return j


def fp(x):
    """canonical, structure- and dtype-sensitive fingerprint of a nested container (a JSON string)"""
    def canon(v):
        if isinstance(v, dict):
            return {"d": sorted(([str(k), canon(w)] for k, w in v.items()), key=lambda kv: kv[0])}
        if isinstance(v, (list, tuple)):
            return {"l": [canon(w) for w in v]}
        if isinstance(v, numpy.ndarray):
            return {"a": [str(v.dtype), list(v.shape), v.tolist()]}
        if isinstance(v, numpy.generic):
            return {"s": [str(v.dtype), v.item()]}
        return v
    return json.dumps(canon(x), sort_keys=True)


def fp5(cs):
    return [fp(c) for c in cs]


def mutables(x, out=None):
    """all mutable objects reachable from x (kept alive by the returned list, so ids can not be recycled)"""
    if out is None:
        out = []
    if isinstance(x, dict):
        out.append(x)
        for v in x.values():
            mutables(v, out)
    elif isinstance(x, list):
        out.append(x)
        for v in x:
            mutables(v, out)
    elif isinstance(x, numpy.ndarray):
        out.append(x)
    return out


# ------------------------------------------------------------------------------------------------------
# operator behaviours (test fixtures, used by the real instrumented operators and by the reference run)
# ------------------------------------------------------------------------------------------------------
def _mutate_nested(x, tok, variant):
    if isinstance(x, dict):
        for k in list(x.keys()):
            _mutate_nested(x[k], tok, variant)
        if variant in ("all", "addkey"):
            x["tok%d" % tok] = tok
    elif isinstance(x, list):
        for v in x:
            _mutate_nested(v, tok, variant)
        if variant in ("all", "addkey"):
            x.append(tok)
    elif isinstance(x, numpy.ndarray):
        if variant in ("all", "overwrite"):
            x[...] = (x * 3 + tok) % 1000003


def _stamped_copy(c, opname, tok):
    new = copy.deepcopy(c)
    new["stamp"] = [opname, tok]
    new.setdefault("hist", [])
    new["hist"] = list(new["hist"]) + [tok]
    return new


def apply_behaviour(beh, variant, containers, opname, tok):
    """Returns the five containers the operator hands back.  May mutate `containers` (that is the point)."""
    if beh == "same":
        return list(containers)
    if beh == "pure":
        return [_stamped_copy(c, opname, tok) for c in containers]
    if beh == "inplace":
        for c in containers:
            if variant == "clear":
                # nested objects are emptied too, so a shallow copy of the start state would be damaged
                for v in c.values():
                    if isinstance(v, list):
                        del v[:]
                    elif isinstance(v, dict):
                        v.clear()
                    elif isinstance(v, numpy.ndarray):
                        v[...] = -tok
                c.clear()
                c["cleared_by"] = [opname, tok]
            else:
                _mutate_nested(c, tok, variant)
                c["stamp"] = [opname, tok]
        return list(containers)
    if beh == "mutnew":
        new = [_stamped_copy(c, opname, tok) for c in containers]
        for c in containers:
            _mutate_nested(c, tok + 1000, "all")
            c["trashed_by"] = [opname, tok]
        return new
    raise AssertionError(beh)


def make_mcfg(tok, containers):
    return {"mcfg_token": tok, "sizes": [len(c) for c in containers]}


# ------------------------------------------------------------------------------------------------------
# instrumented operators / logbook (real side)
# ------------------------------------------------------------------------------------------------------
class Recorder:
    def __init__(self, behaviours, variants):
        self.trace = []
        self.seq = 0
        self.behaviours = behaviours
        self.variants = variants
        self.keepalive = []      # every mutable object ever handed to an operator / the logbook
        self.lbook = None

    def next_token(self):
        self.seq += 1
        return self.seq

    def op_call(self, kind, cs, t_cur, t_max, miscout, extra_kwargs, mcfg=None):
        tok = self.next_token()
        for c in cs:
            mutables(c, self.keepalive)
        rec = {"kind": kind, "rep": self.lbook.rep, "t_cur": t_cur, "t_max": t_max, "recv": fp5(cs),
               "miscout_in": fp(miscout), "extra_kwargs": sorted(extra_kwargs)}
        if kind == "mate":
            rec["mcfg"] = fp(mcfg)
        self.trace.append(rec)
        out = apply_behaviour(self.behaviours[kind], self.variants[kind], cs, kind, tok)
        if isinstance(miscout, dict):
            miscout["x_%s" % kind] = tok
        return tok, out

    def log_call(self, kind, cs, t_cur, t_max, kw, mcfg=None):
        for c in cs:
            mutables(c, self.keepalive)
        rec = {"kind": kind, "rep": self.lbook.rep, "t_cur": t_cur, "t_max": t_max, "recv": fp5(cs),
               "misc": fp(kw)}
        if kind == "log_psel":
            rec["mcfg"] = fp(mcfg)
        self.trace.append(rec)


class InitOp(InitializationOperator):
    def __init__(self, rec, state_json):
        self.rec = rec
        self.state_json = state_json
        self.ncalls = 0
        self.produced = None

    def initialize(self, miscout=None, **kwargs):
        self.ncalls += 1
        self.rec.trace.append({"kind": "init", "ncall": self.ncalls})
        self.produced = [build_value(self.state_json[n]) for n in NAMES]
        return tuple(self.produced)


class PselOp(ParentSelectionOperator):
    def __init__(self, rec):
        self.rec = rec

    def pselect(self, genome, geno, pheno, bval, gmod, t_cur, t_max, miscout=None, **kwargs):
        cs = [genome, geno, pheno, bval, gmod]
        tok, out = self.rec.op_call("psel", cs, t_cur, t_max, miscout, kwargs)
        return (make_mcfg(tok, out),) + tuple(out)


class MateOp(MatingOperator):
    def __init__(self, rec):
        self.rec = rec

    def mate(self, mcfg, genome, geno, pheno, bval, gmod, t_cur, t_max, miscout=None, **kwargs):
        cs = [genome, geno, pheno, bval, gmod]
        tok, out = self.rec.op_call("mate", cs, t_cur, t_max, miscout, kwargs, mcfg=mcfg)
        return tuple(out)


class EvalOp(EvaluationOperator):
    def __init__(self, rec):
        self.rec = rec

    def evaluate(self, genome, geno, pheno, bval, gmod, t_cur, t_max, miscout=None, **kwargs):
        cs = [genome, geno, pheno, bval, gmod]
        tok, out = self.rec.op_call("eval", cs, t_cur, t_max, miscout, kwargs)
        return tuple(out)


class SselOp(SurvivorSelectionOperator):
    def __init__(self, rec):
        self.rec = rec

    def sselect(self, genome, geno, pheno, bval, gmod, t_cur, t_max, miscout=None, **kwargs):
        cs = [genome, geno, pheno, bval, gmod]
        tok, out = self.rec.op_call("ssel", cs, t_cur, t_max, miscout, kwargs)
        return tuple(out)


class Book(Logbook):
    def __init__(self, rec, rep0):
        self.rec = rec
        self._rep = rep0
        self._data = {}
        self.rep_history = [rep0]

    @property
    def data(self):
        return self._data

    @data.setter
    def data(self, value):
        self._data = value

    @property
    def rep(self):
        return self._rep

    @rep.setter
    def rep(self, value):
        self._rep = value
        self.rep_history.append(value)

    def log_initialize(self, genome, geno, pheno, bval, gmod, t_cur, t_max, **kwargs):
        self.rec.log_call("log_init", [genome, geno, pheno, bval, gmod], t_cur, t_max, kwargs)

    def log_pselect(self, mcfg, genome, geno, pheno, bval, gmod, t_cur, t_max, **kwargs):
        self.rec.log_call("log_psel", [genome, geno, pheno, bval, gmod], t_cur, t_max, kwargs, mcfg=mcfg)

    def log_mate(self, genome, geno, pheno, bval, gmod, t_cur, t_max, **kwargs):
        kwargs.pop("mcfg", None)      # the programme also forwards the mating configuration here; not part of the statement
        self.rec.log_call("log_mate", [genome, geno, pheno, bval, gmod], t_cur, t_max, kwargs)

    def log_evaluate(self, genome, geno, pheno, bval, gmod, t_cur, t_max, **kwargs):
        self.rec.log_call("log_eval", [genome, geno, pheno, bval, gmod], t_cur, t_max, kwargs)

    def log_sselect(self, genome, geno, pheno, bval, gmod, t_cur, t_max, **kwargs):
        self.rec.log_call("log_ssel", [genome, geno, pheno, bval, gmod], t_cur, t_max, kwargs)

    def reset(self):
        pass

    def write(self, filename):
        pass


# ------------------------------------------------------------------------------------------------------
# reference interpreter of the property statement (value semantics only)
# ------------------------------------------------------------------------------------------------------
def ref_run(case):
    beh, var = case["behaviours"], case["variants"]
    t_max = case["t_max"]
    trace = []
    seq = [0]
    rep = [case["rep0"]]
    initial = [build_value(case["state"][n]) for n in NAMES]
    if case["init"] == "initop" and any(cmd[0] == "evolve" for cmd in case["script"]):
        trace.append({"kind": "init", "ncall": 1})
    cur = {"state": None, "t": None}

    def op(kind, mcfg=None):
        seq[0] += 1
        tok = seq[0]
        private = copy.deepcopy(cur["state"])           # value semantics: nobody else can see these objects
        r = {"kind": kind, "rep": rep[0], "t_cur": cur["t"], "t_max": t_max, "recv": fp5(private),
             "miscout_in": fp({}), "extra_kwargs": []}
        if kind == "mate":
            r["mcfg"] = fp(mcfg)
        trace.append(r)
        out = apply_behaviour(beh[kind], var[kind], private, kind, tok)
        cur["state"] = copy.deepcopy(out)
        return tok

    def log(kind, tok, opkind, mcfg=None):
        r = {"kind": kind, "rep": rep[0], "t_cur": cur["t"], "t_max": t_max, "recv": fp5(cur["state"]),
             "misc": fp({"x_%s" % opkind: tok})}
        if kind == "log_psel":
            r["mcfg"] = fp(mcfg)
        trace.append(r)

    def generations(ngen):
        for _ in range(ngen):
            tok = op("psel")
            mcfg = make_mcfg(tok, cur["state"])
            log("log_psel", tok, "psel", mcfg)
            tok = op("mate", mcfg)
            log("log_mate", tok, "mate")
            tok = op("eval")
            log("log_eval", tok, "eval")
            tok = op("ssel")
            log("log_ssel", tok, "ssel")
            cur["t"] += 1

    for cmd in case["script"]:
        if cmd[0] == "evolve":
            _, nrep, ngen, loginit = cmd
            for _ in range(nrep):
                rep[0] += 1
                cur["state"] = copy.deepcopy(initial)
                cur["t"] = 0
                tok = op("eval")
                if loginit:
                    log("log_init", tok, "eval")
                cur["t"] += 1
                generations(ngen)
        elif cmd[0] == "advance":
            if cur["state"] is None:
                continue
            generations(cmd[1])
    return trace, cur, rep[0], fp5(initial)


# self-test of the reference interpreter on a hand-written expectation (import time; failure = harness error)
def _selftest():
    case = {"state": {n: {"a": {"__nd__": [1]}} for n in NAMES}, "init": "given", "rep0": 0, "t_max": 5,
            "behaviours": {k: "same" for k in ("psel", "mate", "eval", "ssel")},
            "variants": {k: "all" for k in ("psel", "mate", "eval", "ssel")},
            "script": [["evolve", 2, 1, True]]}
    tr, cur, rep, ini = ref_run(case)
    kinds = [(r["kind"], r["rep"], r["t_cur"]) for r in tr]
    one = lambda r: [("eval", r, 0), ("log_init", r, 0), ("psel", r, 1), ("log_psel", r, 1), ("mate", r, 1),
                     ("log_mate", r, 1), ("eval", r, 1), ("log_eval", r, 1), ("ssel", r, 1), ("log_ssel", r, 1)]
    assert kinds == one(1) + one(2), kinds
    assert rep == 2 and cur["t"] == 2
    assert all(r["recv"] == ini for r in tr)


_selftest()


# ------------------------------------------------------------------------------------------------------
# the check
# ------------------------------------------------------------------------------------------------------
FIELD_CLAUSE = {
    "kind": "trace.operator_order",
    "rep": "trace.replicate_number",
    "t_cur": "trace.time_index",
    "t_max": "trace.t_max_passed_through",
    "recv": "trace.state_handed_over",
    "mcfg": "trace.mating_configuration_handed_over",
    "misc": "trace.log_receives_misc_of_this_step",
    "miscout_in": "trace.miscout_fresh_and_empty",
    "extra_kwargs": "trace.unexpected_keyword_arguments",
    "ncall": "trace.initialize_called_once",
}


def run_check(case, ctx):
    script = case["script"]
    beh = case["behaviours"]
    nrep_tot = sum(c[1] for c in script if c[0] == "evolve")
    ngen_max = max([c[2] for c in script if c[0] == "evolve"] + [0])
    mutating = [k for k in ("psel", "mate", "eval", "ssel") if beh[k] in ("inplace", "mutnew")]
    ctx.label("nrep=0", nrep_tot == 0)
    ctx.label("ngen=0", ngen_max == 0)
    ctx.label("nrep>=2", nrep_tot >= 2)
    ctx.label("init_by_operator", case["init"] == "initop")
    ctx.label("has_advance", any(c[0] == "advance" for c in script))
    ctx.label("two_evolves", sum(c[0] == "evolve" for c in script) >= 2)
    ctx.label("loginit_false", any(c[0] == "evolve" and not c[3] for c in script))
    ctx.label("eval_mutates_in_place", beh["eval"] in ("inplace", "mutnew"))
    ctx.label("any_inplace", bool(mutating))
    ctx.label("all_pure_or_same", not mutating)
    for k in mutating:
        if beh[k] == "inplace":
            ctx.label("inplace_variant_%s" % case["variants"][k])
    first_evolve_two_reps = any(c[0] == "evolve" and c[1] >= 2 and c[2] >= 1 for c in script)
    ctx.nontrivial((nrep_tot >= 2) and ngen_max >= 1 and bool(mutating))
    ctx.label("rule_nontrivial_single_evolve", first_evolve_two_reps and bool(mutating))

    # ---- build the programme ------------------------------------------------------------------------------
    rec = Recorder(beh, case["variants"])
    book = Book(rec, case["rep0"])
    rec.lbook = book
    initop = InitOp(rec, case["state"])
    given = None
    kw = {}
    if case["init"] == "given":
        given = [build_value(case["state"][n]) for n in NAMES]
        kw = {"start_" + n: c for n, c in zip(NAMES, given)}
    prog = RecurrentSelectionBreedingProgram(
        initop=initop, pselop=PselOp(rec), mateop=MateOp(rec), evalop=EvalOp(rec), sselop=SselOp(rec),
        t_max=case["t_max"], **kw)
    initial_fp = fp5([build_value(case["state"][n]) for n in NAMES])

    # ---- run ----------------------------------------------------------------------------------------------------
    have_state = False
    for cmd in script:
        if cmd[0] == "evolve":
            prog.evolve(nrep=cmd[1], ngen=cmd[2], lbook=book, loginit=bool(cmd[3]))
            have_state = have_state or cmd[1] >= 1
        elif cmd[0] == "advance":
            if have_state:
                prog.advance(ngen=cmd[1], lbook=book)

    # ---- reference ---------------------------------------------------------------------------------------------
    exp, cur, exp_rep, _ = ref_run(case)
    got = rec.trace

    # replicate independence, asserted directly against the pre-run snapshot (not via the reference run)
    starts = [r for i, r in enumerate(got) if r["kind"] == "eval" and r["t_cur"] == 0]
    for i, r in enumerate(starts):
        ctx.check(r["recv"] == initial_fp, "replicate.starts_from_initial_state",
                  lambda: "replicate #%d (logbook rep %s) started from a state different from the initial one:\n got %s\n want %s"
                          % (i + 1, r["rep"], r["recv"], initial_fp))
    ctx.check(len(starts) == nrep_tot, "replicate.one_initial_evaluation_each",
              "evaluations at t_cur=0: %d, replicates requested: %d" % (len(starts), nrep_tot))

    # the stored initial state
    if any(c[0] == "evolve" for c in script):
        stored = [prog.start_genome, prog.start_geno, prog.start_pheno, prog.start_bval, prog.start_gmod]
        ctx.check(all(isinstance(s, dict) for s in stored), "start.is_set_after_evolve")
        ctx.check(fp5(stored) == initial_fp, "start.unmodified",
                  lambda: "start_* containers after the run differ from their pre-run contents:\n got %s\n want %s"
                          % (fp5(stored), initial_fp))
        if given is not None:
            ctx.check(fp5(given) == initial_fp, "start.caller_containers_modified",
                      lambda: "containers passed as start_* were modified: %s" % fp5(given))
            ctx.check(initop.ncalls == 0, "trace.initialize_called_although_state_given")
        smut = []
        for s in stored:
            mutables(s, smut)
        sids = {id(o) for o in smut}
        shared = [type(o).__name__ for o in rec.keepalive if id(o) in sids]
        sarr = [o for o in smut if isinstance(o, numpy.ndarray)]
        for o in rec.keepalive:
            if isinstance(o, numpy.ndarray) and any(numpy.shares_memory(o, a) for a in sarr):
                shared.append("ndarray-memory")
                break
        ctx.check(not shared, "start.shares_mutable_objects_with_working_state", lambda: "shared: %s" % shared[:5])

    # ---- trace comparison ------------------------------------------------------------------------------------
    for i in range(min(len(got), len(exp))):
        g, e = got[i], exp[i]
        if g == e:
            continue
        if g["kind"] != e["kind"]:
            # name the missing / surplus call
            clause = "trace.operator_order"
            if e["kind"].startswith("log_") or g["kind"].startswith("log_"):
                clause = "trace.logging_after_every_step"
            ctx.fail(clause, "call #%d is %s (rep %s, t %s) but the statement requires %s (rep %s, t %s); calls so far: %s"
                     % (i, g["kind"], g.get("rep"), g.get("t_cur"), e["kind"], e.get("rep"), e.get("t_cur"),
                        [r["kind"] for r in got[max(0, i - 6): i + 1]]))
            break
        bad = [k for k in ("rep", "t_cur", "t_max", "recv", "mcfg", "misc", "miscout_in", "extra_kwargs", "ncall")
               if g.get(k) != e.get(k)]
        k = bad[0]
        ctx.fail(FIELD_CLAUSE[k], "call #%d %s (rep %s, t %s): field %s\n got  %s\n want %s"
                 % (i, g["kind"], g.get("rep"), g.get("t_cur"), k, g.get(k), e.get(k)))
        # (suppressed clause: keep looking at later records)
    if len(got) != len(exp):
        n = min(len(got), len(exp))
        if got[:n] == exp[:n]:
            ctx.fail("trace.length", "%d calls recorded, %d required; first surplus/missing: %s"
                     % (len(got), len(exp), (got[n:] or exp[n:])[0]["kind"]))

    # ---- logbook replicate counter ------------------------------------------------------------------------------
    ctx.check(book.rep == exp_rep, "lbook.rep_incremented_once_per_replicate",
              "lbook.rep=%r after the run, expected %r" % (book.rep, exp_rep))
    steps = [b - a for a, b in zip(book.rep_history, book.rep_history[1:])]
    ctx.check(all(s == 1 for s in steps) and len(steps) == nrep_tot, "lbook.rep_incremented_once_per_replicate",
              "rep assignments: %s" % book.rep_history)

    # ---- final working state and clock --------------------------------------------------------------------------
    if cur["state"] is not None:
        final = [prog.genome, prog.geno, prog.pheno, prog.bval, prog.gmod]
        ctx.check(fp5(final) == fp5(cur["state"]), "final.working_state_is_last_returned",
                  lambda: "got %s\nwant %s" % (fp5(final), fp5(cur["state"])))
        ctx.check(prog.t_cur == cur["t"], "final.time_index", "t_cur=%r expected %r" % (prog.t_cur, cur["t"]))
    ctx.check(prog.t_max == case["t_max"], "final.t_max_changed")


# ------------------------------------------------------------------------------------------------------
# generators
# ------------------------------------------------------------------------------------------------------
FIXED_STATE = {
    "genome": {"cand": {"__nd__": [1, 2, 3]}, "main": {"hist": [0], "deep": [[1], [2, 3]]}},
    "geno": {"cand": {"__nd__": [4]}, "queue": [{"__nd__": [5, 6]}, {"__nd__": [7]}]},
    "pheno": {"main": {"__nd__": [8, 9]}, "l": [1, [2, [3]]]},
    "bval": {"cand": {"__nd__": [10]}, "d": {"e": {"f": [11]}}},
    "gmod": {"cand": [12], "main": {"__nd__": [13, 14]}, "true": {"__nd__": [15]}},
}


def exhaustive_cases(tier):
    out = []
    for nrep in (0, 1, 2):
        for ngen in (0, 1, 2):
            for loginit in (True, False):
                for combo in itertools.product(BEHAVIOURS, repeat=4):
                    out.append({
                        "state": FIXED_STATE, "init": "given" if (nrep + ngen) % 2 == 0 else "initop",
                        "rep0": 0, "t_max": 7,
                        "behaviours": dict(zip(("psel", "mate", "eval", "ssel"), combo)),
                        "variants": {k: "all" for k in ("psel", "mate", "eval", "ssel")},
                        "script": [["evolve", nrep, ngen, loginit]],
                    })
    return out


_leaf = st.one_of(st.integers(-5, 5), st.just(None), st.booleans(), st.sampled_from(["x", "y"]))
_nd = st.builds(lambda xs: {"__nd__": xs}, st.one_of(
    st.lists(st.integers(-9, 9), min_size=0, max_size=4),
    st.lists(st.lists(st.integers(-9, 9), min_size=2, max_size=2), min_size=1, max_size=2)))
_value = st.recursive(st.one_of(_leaf, _nd),
                      lambda ch: st.one_of(st.lists(ch, max_size=3),
                                           st.dictionaries(st.sampled_from(["k", "m", "cand", "main"]), ch, max_size=2)),
                      max_leaves=6)


@st.composite
def container(draw):
    kind = draw(st.sampled_from(["empty", "skeleton", "skeleton", "free", "free"]))
    if kind == "empty":
        return {}
    c = draw(st.dictionaries(st.sampled_from(["cand", "main", "queue", "true", "k"]), _value, max_size=3))
    if kind == "skeleton":
        c["arr"] = draw(_nd)
        c["lst"] = [draw(st.integers(0, 9)), [draw(st.integers(0, 9))]]
    return c


@st.composite
def random_case(draw):
    state = {n: draw(container()) for n in NAMES}
    beh = {k: draw(st.sampled_from(BEHAVIOURS + ("inplace", "mutnew"))) for k in ("psel", "mate", "eval", "ssel")}
    var = {k: draw(st.sampled_from(INPLACE_VARIANTS)) for k in ("psel", "mate", "eval", "ssel")}
    ncmd = draw(st.sampled_from([1, 1, 1, 2, 2, 3]))
    script = []
    for _ in range(ncmd):
        if draw(st.integers(0, 3)) == 0 and script:
            script.append(["advance", draw(st.integers(0, 3))])
        else:
            script.append(["evolve", draw(st.sampled_from([2, 1, 3, 0, 4, 2])), draw(st.sampled_from([1, 2, 0, 3, 5, 4, 1])),
                           draw(st.booleans())])
    return {"state": state, "init": draw(st.sampled_from(["given", "given", "initop"])),
            "rep0": draw(st.sampled_from([0, 0, 1, 7, -3])), "t_max": draw(st.integers(0, 9)),
            "behaviours": beh, "variants": var, "script": script}


SUBCHECKS = [
    SubCheck("exhaustive", run_check, cases=exhaustive_cases, shards_quick=4, shards_thorough=8,
             rule="exhaustive: nrep in 0..2 x ngen in 0..2 x loginit x all 4^4 behaviour combinations of "
                  "(pselect, mate, evaluate, sselect) over {pure, same, inplace, mutnew} on a fixed nested initial state; "
                  "non-trivial = nrep>=2, ngen>=1 and at least one operator mutating in place",
             required_labels=("nrep=0", "ngen=0", "nrep>=2", "eval_mutates_in_place", "init_by_operator")),
    SubCheck("random", run_check, random_case(), quick=500, thorough=4000, shards_quick=4, shards_thorough=16,
             rule="generated: script of 1-3 evolve(nrep 0-4, ngen 0-5, loginit)/advance(0-3) calls on one programme, random "
                  "nested initial containers (empty dicts included), state given or produced by the init operator, "
                  "behaviour + in-place variant per operator, lbook.rep start, t_max; non-trivial = >=2 replicates in "
                  "total, ngen>=1 and at least one operator mutating in place; distinct by sha1 of the case",
             required_labels=("nrep=0", "ngen=0", "nrep>=2", "has_advance", "two_evolves", "loginit_false",
                              "init_by_operator", "inplace_variant_clear", "inplace_variant_overwrite")),
]
