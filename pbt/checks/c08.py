"""C08 -- seeded runs are reproducible; explicit generators are isolated; global streams untouched.

A *program* is a JSON list of call descriptors ``[component, raw args...]`` interpreted over a small fixed world
(8 taxa x 10 markers on 2 chromosomes, one 1-trait and one 2-trait additive model) that is rebuilt from constants
for every execution, so the only things two executions can differ in are the entropy sources.

Sub-checks
  reseed     clause A in process:  run(prefix1); prng.seed(s); out1 = run(P)   vs   run(prefix2); prng.seed(s); out2 = run(P)
  isolation  clause B: every call of P gets its own explicit generator (clone of default_rng(k) / RandomState(k));
             executed under two different global seeds: outputs identical, `random` / `numpy.random` states byte-identical
             before and after every call
  subprocess clause A across two fresh interpreters (few cases; slow)
  subprocess_history  clause A between a fresh interpreter and one whose history ran the same deap-based optimiser class
             (UnconstrainedSetGeneticAlgorithm) with another weight vector of the same length: process-global state left
             behind by the first use of a component is invisible to any in-process comparison

Argument forms: the four sampling utilities are called in every form their docstrings / signatures document (population as
array of several dtypes or as Integral, size / axis as Integral, tuple or None, with and without probabilities, positional /
keyword / defaulted arguments).  Some of these forms are rejected by the unchanged library (F-C17-b and relatives, see
maybe_unsupported): such a call must either raise with the global streams untouched and the same outcome in every execution,
or -- where a tree accepts it -- behave like any other call under both clauses.

The runner saves / restores the process-global streams around every case, so seeding them here is harmless.
"""
import json
import os
import random as py_random
import subprocess
import sys

import copy
import numpy
import pandas
from hypothesis import strategies as st

from pbt import compat  # noqa: F401
from pbt.core import SubCheck

from pybrops.core.random import prng
from pybrops.core.random import sampling
from pybrops.popgen.gmat.DensePhasedGenotypeMatrix import DensePhasedGenotypeMatrix
from pybrops.model.gmod.DenseAdditiveLinearGenomicModel import DenseAdditiveLinearGenomicModel
from pybrops.breed.prot.mate.TwoWayCross import TwoWayCross
from pybrops.breed.prot.mate.TwoWayDHCross import TwoWayDHCross
from pybrops.breed.prot.mate.ThreeWayCross import ThreeWayCross
from pybrops.breed.prot.mate.ThreeWayDHCross import ThreeWayDHCross
from pybrops.breed.prot.mate.FourWayCross import FourWayCross
from pybrops.breed.prot.mate.FourWayDHCross import FourWayDHCross
from pybrops.breed.prot.mate.SelfCross import SelfCross
from pybrops.breed.prot.pt.G_E_Phenotyping import G_E_Phenotyping
from pybrops.breed.prot.sel.cfg.SubsetSelectionConfiguration import SubsetSelectionConfiguration
from pybrops.breed.prot.sel.cfg.BinarySelectionConfiguration import BinarySelectionConfiguration
from pybrops.breed.prot.sel.cfg.IntegerSelectionConfiguration import IntegerSelectionConfiguration
from pybrops.breed.prot.sel.cfg.RealSelectionConfiguration import RealSelectionConfiguration
from pybrops.breed.prot.sel.cfg.SubsetMateSelectionConfiguration import SubsetMateSelectionConfiguration
from pybrops.breed.prot.sel.cfg.BinaryMateSelectionConfiguration import BinaryMateSelectionConfiguration
from pybrops.breed.prot.sel.cfg.IntegerMateSelectionConfiguration import IntegerMateSelectionConfiguration
from pybrops.breed.prot.sel.cfg.RealMateSelectionConfiguration import RealMateSelectionConfiguration
from pybrops.breed.prot.sel.GenomicEstimatedBreedingValueSelection import (
    GenomicEstimatedBreedingValueBinarySelection, GenomicEstimatedBreedingValueIntegerSelection,
    GenomicEstimatedBreedingValueRealSelection, GenomicEstimatedBreedingValueSubsetSelection)
from pybrops.breed.prot.sel.RandomSelection import RandomSubsetSelection
from pybrops.opt.algo.BinaryGeneticAlgorithm import BinaryGeneticAlgorithm
from pybrops.opt.algo.IntegerGeneticAlgorithm import IntegerGeneticAlgorithm
from pybrops.opt.algo.RealGeneticAlgorithm import RealGeneticAlgorithm
from pybrops.opt.algo.SubsetGeneticAlgorithm import SubsetGeneticAlgorithm
from pybrops.opt.algo.NSGA2BinaryGeneticAlgorithm import NSGA2BinaryGeneticAlgorithm
from pybrops.opt.algo.NSGA2IntegerGeneticAlgorithm import NSGA2IntegerGeneticAlgorithm
from pybrops.opt.algo.NSGA2RealGeneticAlgorithm import NSGA2RealGeneticAlgorithm
from pybrops.opt.algo.NSGA2SubsetGeneticAlgorithm import NSGA2SubsetGeneticAlgorithm
from pybrops.opt.algo.NSGA3SubsetGeneticAlgorithm import NSGA3SubsetGeneticAlgorithm
from pybrops.opt.algo.NSGA2MemeticSubsetGeneticAlgorithm import (
    NSGA2SteepestDescentSubsetGeneticAlgorithm, NSGA2StochasticDescentSubsetGeneticAlgorithm,
    NSGA2MutatorASubsetGeneticAlgorithm, NSGA2MutatorBSubsetGeneticAlgorithm)
from pybrops.opt.algo.SteepestDescentSubsetHillClimber import SteepestDescentSubsetHillClimber
from pybrops.opt.algo.SortingSubsetOptimizationAlgorithm import SortingSubsetOptimizationAlgorithm
from pybrops.opt.algo.UnconstrainedSetGeneticAlgorithm import UnconstrainedSetGeneticAlgorithm
from pybrops.opt.algo.UnconstrainedSteepestAscentSetHillClimber import UnconstrainedSteepestAscentSetHillClimber
from pybrops.popgen.cmat.DenseMolecularCoancestryMatrix import DenseMolecularCoancestryMatrix
from pybrops.model.embvmat.DenseExpectedMaximumBreedingValueMatrix import DenseExpectedMaximumBreedingValueMatrix

ASSUMPTIONS = [
    "every execution rebuilds its pybrops objects from constants (protocol counters such as progeny_counter are "
    "deterministic state, not entropy, and would otherwise make a repeated call differ by design)",
    "'prior interpreter histories' are sampled: a prefix program plus direct draws from random / numpy.random",
    "components without an rng parameter (prng wrappers, spawn, apply_jitter, the EMBV factory) are only held to "
    "clause A (reproducible after prng.seed), not to clause B",
    "optimiser sizes are capped (ngen <= 3, pop_size <= 8; set-GA of subprocess_history: ngen <= 5, mu = lamb <= 10)",
    "UnconstrainedSetGeneticAlgorithm.optimize with several objective weights raises IndexError in the unchanged library whenever "
    "the flat argmax over its (mu x nobj) fitness table is >= mu; for calls with more than one weight that exception is an outcome "
    "(must be identical in every execution), a run that returns is compared in full",
    "large inputs: the world stays 8 taxa x 10 markers; what grows is the size argument of each call (cross tables up to 129 parent "
    "slots in the quick tier and 256 in the thorough tier -- outcross_shuffle is cubic in the number of slots --, up to 400 crosses "
    "per mating call, up to 70001 sampled elements)",
    "documented argument forms that the unchanged library rejects (tiled_choice with an Integral population or size=None, "
    "stochastic_universal_sampling with size=None, axis_shuffle with axis=None or with every axis of the array) are part of the "
    "generated programs: a rejection (any exception; which one is C17's business) is an outcome like any other -- it must be the same "
    "in both executions and must leave random / numpy.random untouched; an accepted call is held to both clauses",
]

NTAXA, NVRNT = 8, 10

MATE = [("TwoWayCross", TwoWayCross, 2), ("TwoWayDHCross", TwoWayDHCross, 2), ("ThreeWayCross", ThreeWayCross, 3),
        ("ThreeWayDHCross", ThreeWayDHCross, 3), ("FourWayCross", FourWayCross, 4),
        ("FourWayDHCross", FourWayDHCross, 4), ("SelfCross", SelfCross, 1)]
MATE_BY_NAME = {n: (c, k) for n, c, k in MATE}

# optimiser classes: name -> (class, decision-space type, nobj, pymoo-based?)
OPT = {
    "SubsetGeneticAlgorithm": (SubsetGeneticAlgorithm, "subset", 1, True),
    "BinaryGeneticAlgorithm": (BinaryGeneticAlgorithm, "binary", 1, True),
    "IntegerGeneticAlgorithm": (IntegerGeneticAlgorithm, "integer", 1, True),
    "RealGeneticAlgorithm": (RealGeneticAlgorithm, "real", 1, True),
    "NSGA2SubsetGeneticAlgorithm": (NSGA2SubsetGeneticAlgorithm, "subset", 2, True),
    "NSGA2BinaryGeneticAlgorithm": (NSGA2BinaryGeneticAlgorithm, "binary", 2, True),
    "NSGA2IntegerGeneticAlgorithm": (NSGA2IntegerGeneticAlgorithm, "integer", 2, True),
    "NSGA2RealGeneticAlgorithm": (NSGA2RealGeneticAlgorithm, "real", 2, True),
    "NSGA3SubsetGeneticAlgorithm": (NSGA3SubsetGeneticAlgorithm, "subset", 2, True),
    "NSGA2SteepestDescentSubsetGeneticAlgorithm": (NSGA2SteepestDescentSubsetGeneticAlgorithm, "subset", 2, True),
    "NSGA2StochasticDescentSubsetGeneticAlgorithm": (NSGA2StochasticDescentSubsetGeneticAlgorithm, "subset", 2, True),
    "NSGA2MutatorASubsetGeneticAlgorithm": (NSGA2MutatorASubsetGeneticAlgorithm, "subset", 2, True),
    "NSGA2MutatorBSubsetGeneticAlgorithm": (NSGA2MutatorBSubsetGeneticAlgorithm, "subset", 2, True),
    "SteepestDescentSubsetHillClimber": (SteepestDescentSubsetHillClimber, "subset", 1, False),
    "SortingSubsetOptimizationAlgorithm": (SortingSubsetOptimizationAlgorithm, "subset", 1, False),
}
PYMOO_OPT = sorted(k for k, v in OPT.items() if v[3])
PLAIN_OPT = sorted(k for k, v in OPT.items() if not v[3])
LEGACY_OPT = ["UnconstrainedSetGeneticAlgorithm", "UnconstrainedSteepestAscentSetHillClimber"]

GEBV_SEL = {"subset": GenomicEstimatedBreedingValueSubsetSelection, "binary": GenomicEstimatedBreedingValueBinarySelection,
            "integer": GenomicEstimatedBreedingValueIntegerSelection, "real": GenomicEstimatedBreedingValueRealSelection}

CFG = {"subset": SubsetSelectionConfiguration, "binary": BinarySelectionConfiguration,
       "integer": IntegerSelectionConfiguration, "real": RealSelectionConfiguration,
       "subsetmate": SubsetMateSelectionConfiguration, "binarymate": BinaryMateSelectionConfiguration,
       "integermate": IntegerMateSelectionConfiguration, "realmate": RealMateSelectionConfiguration}

DISTS = {
    "random": lambda n: prng.random(n), "uniform": lambda n: prng.uniform(-1.0, 2.0, n),
    "normal": lambda n: prng.normal(0.0, 1.0, n), "choice": lambda n: prng.choice(7, n),
    "permutation": lambda n: prng.permutation(n + 2), "binomial": lambda n: prng.binomial(5, 0.3, n),
    "poisson": lambda n: prng.poisson(2.0, n), "standard_normal": lambda n: prng.standard_normal(n),
    "multivariate_normal": lambda n: prng.multivariate_normal(numpy.zeros(2), numpy.eye(2), n),
    "gamma": lambda n: prng.gamma(2.0, 1.0, n), "beta": lambda n: prng.beta(2.0, 3.0, n),
    "shuffle": lambda n: _shuffled(n), "bytes": lambda n: numpy.frombuffer(prng.bytes(n + 1), dtype="uint8"),
    "exponential": lambda n: prng.exponential(1.0, n), "dirichlet": lambda n: prng.dirichlet([1.0, 2.0, 3.0], n),
}


def _shuffled(n):
    a = numpy.arange(n + 3)
    prng.shuffle(a)
    return a


# ------------------------------------------------------------------------------------------------------
# the world (constants only; no entropy source is touched while building it)
# ------------------------------------------------------------------------------------------------------
_BITS = "1011001110001011110100101100111010010011101011000110100111001011" \
        "0110100101110010110001110100101101001110001011010011101001011000" \
        "1101001011"


def build_world():
    bits = numpy.array([int(c) for c in (_BITS * 2)[: 2 * NTAXA * NVRNT]], dtype="int8").reshape(2, NTAXA, NVRNT)
    pg = DensePhasedGenotypeMatrix(
        mat=bits,
        taxa=numpy.array(["t%d" % i for i in range(NTAXA)], dtype=object),
        taxa_grp=numpy.repeat(numpy.array([0, 1], dtype="int64"), NTAXA // 2),
        vrnt_chrgrp=numpy.repeat(numpy.array([1, 2], dtype="int64"), NVRNT // 2),
        vrnt_phypos=numpy.arange(NVRNT, dtype="int64") * 10 + 1,
        vrnt_name=numpy.array(["m%d" % i for i in range(NVRNT)], dtype=object),
        vrnt_genpos=numpy.tile(numpy.arange(NVRNT // 2) * 0.2, 2),
        vrnt_xoprob=numpy.tile(numpy.array([0.5, 0.1, 0.2, 0.3, 0.1]), 2),
    )
    pg.group_vrnt()
    pg.group_taxa()
    ua = numpy.array([[((7 * i + 3 * j) % 11 - 5) / 4.0 for j in range(2)] for i in range(NVRNT)])
    gm2 = DenseAdditiveLinearGenomicModel(beta=numpy.array([[1.0, 2.0]]), u_misc=None, u_a=ua.copy(),
                                          trait=numpy.array(["a", "b"], dtype=object))
    gm1 = DenseAdditiveLinearGenomicModel(beta=numpy.array([[1.0]]), u_misc=None, u_a=ua[:, :1].copy(),
                                          trait=numpy.array(["a"], dtype=object))
    return {"pg": pg, "gm": {1: gm1, 2: gm2}}


def expand(v):
    """a list of raw ints, or the compact form ["rand", n, k] = n raw ints from RandomState(k) (large inputs stay small in JSON)"""
    if isinstance(v, list) and v and v[0] == "rand":
        return [int(x) for x in numpy.random.RandomState(int(v[2])).randint(0, 2**16, int(v[1]))]
    return list(v)


def make_rng(spec):
    if spec is None or spec[0] == "global":
        return None
    if spec[0] == "gen":
        return numpy.random.default_rng(int(spec[1]))
    if spec[0] == "rs":
        return numpy.random.RandomState(int(spec[1]))
    raise AssertionError(spec)


def global_state():
    s = numpy.random.get_state()
    return (py_random.getstate(), (s[0], s[1].tobytes(), s[2], s[3], s[4]))


# ------------------------------------------------------------------------------------------------------
# canonical outputs
# ------------------------------------------------------------------------------------------------------
def canon(x):
    if x is None or isinstance(x, (bool, int, str)):
        return x
    if isinstance(x, float):
        return float.hex(x)
    if isinstance(x, numpy.generic):
        return canon(x.item())
    if isinstance(x, numpy.ndarray):
        if x.dtype == object:
            return ["obj", list(x.shape), [str(v) for v in x.ravel()]]
        return [str(x.dtype), list(x.shape), numpy.ascontiguousarray(x).tobytes().hex()]
    if isinstance(x, (list, tuple)):
        return [canon(v) for v in x]
    if isinstance(x, dict):
        return {str(k): canon(v) for k, v in sorted(x.items(), key=lambda kv: str(kv[0]))}
    if isinstance(x, numpy.random.Generator):
        return canon(x.bit_generator.state)
    if isinstance(x, pandas.DataFrame):
        return {"columns": [str(c) for c in x.columns], "data": [canon(x[c].to_numpy()) for c in x.columns]}
    if isinstance(x, DensePhasedGenotypeMatrix):
        return {"mat": canon(x.mat), "taxa": canon(x.taxa), "taxa_grp": canon(x.taxa_grp)}
    raise TypeError("canon: %r" % type(x))


def soln_out(s):
    return {"decn": canon(s.soln_decn), "obj": canon(s.soln_obj)}


# ------------------------------------------------------------------------------------------------------
# call interpreter
# ------------------------------------------------------------------------------------------------------
def opt_problem(w, space, nobj):
    sel = GEBV_SEL[space](ntrait=nobj, unscale=True, ncross=2, nparent=2, nmating=1, nprogeny=2, nobj=nobj,
                          soalgo=SortingSubsetOptimizationAlgorithm() if space == "subset" else None)
    return sel.problem(w["pg"], w["pg"], None, None, w["gm"][nobj], 0, 3)


def make_opt(name, rng, ngen, pop):
    cls = OPT[name][0]
    if name == "SortingSubsetOptimizationAlgorithm":
        return cls()
    if name == "SteepestDescentSubsetHillClimber":
        return cls(rng=rng)
    kw = {"ngen": ngen, "pop_size": pop}
    if rng is not None:
        kw["rng"] = rng
    return cls(**kw)


def uses_pymoo(call):
    """input-side signature of F-C08-a / F-C08-b: the call runs a pymoo-based optimiser class"""
    if call[0] == "opt":
        return OPT[call[1]][3]
    if call[0] == "select":
        return OPT[call[3]][3]
    return False


def split_opts(call):
    """(call without its trailing options dict, options).  The sampling utilities take an optional trailing JSON object that
    selects the documented *argument form* (how the population / size / axis / probabilities / generator are handed over)."""
    if call and isinstance(call[-1], dict):
        return call[:-1], call[-1]
    return call, {}


def _shape_arg(v):
    """size / axis argument in JSON form -> python value: None, int, or tuple (a JSON list stands for a tuple)"""
    if v is None:
        return None
    if isinstance(v, list):
        return tuple(int(x) for x in v)
    return int(v)


def _nelem(v):
    if v is None:
        return 1
    if isinstance(v, list):
        return int(numpy.prod([int(x) for x in v])) if v else 1
    return int(v)


def _axis_shape(call):
    c, o = split_opts(call)
    if o.get("shape"):
        return [int(x) for x in o["shape"]]
    return [int(c[3]), int(c[4])] if len(c) > 4 else [3, 4]


def maybe_unsupported(call):
    """Input-side signature of the argument forms that the docstrings / signatures of the four sampling utilities document but
    that the unchanged library rejects (F-C17-b and its relatives: whether they OUGHT to be accepted is property C17's
    business, not C08's).  C08 holds such a call to: either it raises -- then the global streams are exactly as before and the
    outcome is the same in every execution -- or it is accepted -- then it is an ordinary call and obeys both clauses."""
    c, o = split_opts(call)
    if c[0] == "tiled_choice":
        return o.get("a", "array") in ("int", "npint") or c[3] is None       # `a` Integral; size=None (the default)
    if c[0] == "sus":
        return c[2] is None                                                   # size=None is the signature's default
    if c[0] == "axis_shuffle":
        if c[2] is None:                                                      # axis=None is the signature's default
            return True
        nd = len(_axis_shape(call))
        ax = c[2] if isinstance(c[2], list) else [c[2]]
        return len({int(x) % nd for x in ax}) == nd                           # "axes": every axis of the array at once
    return False


def form_features(call):
    """input-side description of the argument form of a sampling-utility call (for the label histogram)"""
    c, o = split_opts(call)
    f = []
    if c[0] == "tiled_choice":
        f += ["a=" + o.get("a", "array")]
        f += ["size=" + ("None" if c[3] is None else "tuple" if isinstance(c[3], list) else "int")]
        f += ["p=array"] if o.get("p") is not None else []
        f += ["dtype=" + o["dtype"]] if o.get("dtype") else []
    elif c[0] == "sus":
        f += ["size=" + ("None" if c[2] is None else "tuple" if isinstance(c[2], list) else "int")]
    elif c[0] == "axis_shuffle":
        f += ["axis=" + ("None" if c[2] is None else "tuple" if isinstance(c[2], list) else "int")]
        f += ["ndim=%d" % len(_axis_shape(call))]
        f += ["negative_axis"] if any(int(x) < 0 for x in (c[2] if isinstance(c[2], list) else [c[2] or 0])) else []
    elif c[0] != "outcross_shuffle":
        return []
    f += ["conv=" + o["conv"]] if o.get("conv") else []
    return ["form:%s:%s" % (c[0], x) for x in f]


def _invoke(fn, names, values, conv):
    """call fn with the arguments handed over positionally ("pos", default), all by keyword ("kw"), or by keyword with the
    None-valued optional ones left out so that the signature's defaults apply ("omit")"""
    if conv == "kw":
        return fn(**dict(zip(names, values)))
    if conv == "omit":
        return fn(**{k: v for k, v in zip(names, values) if v is not None or k in ("a", "xconfig")})
    return fn(*values)


def run_call(w, call):
    """Execute one call descriptor; returns a canonical (JSON-able) output.  A call in a documented-but-possibly-unsupported
    argument form (see maybe_unsupported) may raise: the outcome is then {"raised": <exception type>}."""
    if maybe_unsupported(call):
        try:
            return _run_call(w, call)
        except Exception as e:                    # noqa: BLE001 -- which exception is C17's business
            return {"raised": type(e).__name__}
    if uses_pymoo(call):
        # A pymoo-backed run is seeded from OS entropy (F-C08-a/b): what it returns differs from process to process and
        # is not judged here.  Now and then it returns a decision that selects nobody, and building the cross
        # configuration from it raises; that is an outcome of the unreproducible run (feasibility of returned
        # solutions is C06's subject), not something this property can attribute to a call.
        try:
            return _run_call(w, call)
        except Exception as e:                    # noqa: BLE001
            return {"raised": type(e).__name__}
    if call[0] == "setga" and len(split_opts(call)[0][6]) >= 2:
        # Several objectives: optimize() picks its best member with a flat argmax over the (mu x nobj) fitness table and
        # indexes the population with it, which raises IndexError whenever that index is >= mu (unchanged library; what
        # optimize() ought to return for several objectives is not this property's subject).  Input-side signature: more
        # than one weight.  The crash happens after all the stochastic work, so it is an outcome like any other: it must be
        # the same in every execution; a run that does return is compared in full.
        try:
            return _run_call(w, call)
        except IndexError as e:
            return {"raised": type(e).__name__}
    return _run_call(w, call)


def was_rejected(out):
    return isinstance(out, dict) and set(out) == {"raised"}


def _run_call(w, call):
    op = call[0]
    pg = w["pg"]
    if op == "mate":
        _, name, spec, xraw, nmating, nprogeny, nself = call
        cls, npar = MATE_BY_NAME[name]
        xraw = expand(xraw)
        ncross = max(1, len(xraw) // npar)
        xraw = (list(xraw) + [0] * (ncross * npar))[: ncross * npar]
        xconfig = numpy.array([v % NTAXA for v in xraw], dtype="int64").reshape(ncross, npar)
        prot = cls(rng=make_rng(spec))
        out = prot.mate(pg, xconfig, int(nmating), int(nprogeny), nself=int(nself))
        return canon(out)
    if op == "pheno":
        _, spec, nenv, nrep, ntrait, verr = call[:6]
        how = call[6] if len(call) > 6 else "direct"
        pt = G_E_Phenotyping(w["gm"][ntrait], nenv=int(nenv), nrep=int(nrep), var_env=0.5, var_rep=0.25,
                             var_err=float(verr), rng=make_rng(spec))
        # the protocol documents copy()/deepcopy(): a copy is the same stochastic component (same stream)
        if how == "copy":
            pt = copy.copy(pt)
        elif how == "deepcopy":
            pt = copy.deepcopy(pt)
        elif how == "deepcopy_method":
            pt = pt.deepcopy()
        return canon(pt.phenotype(pg))
    if op == "sus":
        c, o = split_opts(call)
        _, spec, k, wts = c
        p = numpy.array([float(1 + (v % 5)) for v in expand(wts)], dtype=float)
        return canon(_invoke(sampling.stochastic_universal_sampling, ("a", "p", "size", "rng"),
                             (numpy.arange(len(p)), p, _shape_arg(k), make_rng(spec)), o.get("conv", "kw")))
    if op == "tiled_choice":
        c, o = split_opts(call)
        _, spec, na, size, replace = c
        na = int(na)
        form = o.get("a", "array")
        if form == "int":
            a = na                                          # documented: "as if it were np.arange(a)"
        elif form == "npint":
            a = numpy.int64(na)
        else:
            dt = o.get("dtype", "int64")
            a = numpy.arange(na) * 3
            if dt in ("str", "object"):
                a = numpy.array(["e%d" % v for v in a], dtype=(object if dt == "object" else None))
            else:
                a = a.astype(dt)
        p = None
        if o.get("p") is not None:                          # strictly positive probabilities summing to one
            wt = numpy.array([1.0 + ((int(o["p"]) + 1) * (i + 1)) % 5 for i in range(na)])
            p = wt / wt.sum()
        return canon(_invoke(sampling.tiled_choice, ("a", "size", "replace", "p", "rng"),
                             (a, _shape_arg(size), bool(replace), p, make_rng(spec)), o.get("conv", "pos")))
    if op == "axis_shuffle":
        c, o = split_opts(call)
        _, spec, axis = c[:3]
        shape = _axis_shape(call)
        a = numpy.arange(int(numpy.prod(shape))).reshape(shape)
        _invoke(sampling.axis_shuffle, ("a", "axis", "rng"), (a, _shape_arg(axis), make_rng(spec)), o.get("conv", "pos"))
        return canon(a)
    if op == "outcross_shuffle":
        call, o = split_opts(call)
        _, spec, vals, ncol = call[:4]
        mod = int(call[4]) if len(call) > 4 else 4          # number of distinct parents in the table
        vals = expand(vals)
        ncol = int(ncol)
        nrow = max(1, len(vals) // ncol)
        v = (list(vals) + [0] * (nrow * ncol))[: nrow * ncol]
        a = numpy.array([x % mod for x in v], dtype="int64").reshape(nrow, ncol)
        _invoke(sampling.outcross_shuffle, ("xconfig", "rng"), (a, make_rng(spec)), o.get("conv", "pos"))
        return canon(a)
    if op == "xconfig":
        _, kind, spec, ncross, nparent, nresample = call[:6]
        wide = bool(call[6]) if len(call) > 6 else False    # decision selects every taxon (used for large cross tables)
        ncross, nparent = int(ncross), int(nparent)
        rng = make_rng(spec)
        kw = dict(ncross=ncross, nparent=nparent, nmating=1, nprogeny=2, pgmat=pg, rng=rng)
        if wide and kind in ("subset", "binary", "integer", "real"):
            decn = {"subset": numpy.arange(NTAXA), "binary": numpy.ones(NTAXA, dtype="int64"),
                    "integer": numpy.array([2, 1, 1, 3, 1, 2, 1, 1]),
                    "real": numpy.array([0.2, 0.1, 0.1, 0.15, 0.1, 0.15, 0.1, 0.1])}[kind]
            cfg = CFG[kind](xconfig_decn=decn, **kw)
        elif kind == "subset":
            cfg = CFG[kind](xconfig_decn=numpy.array([1, 3, 4, 6]), **kw)
        elif kind == "binary":
            cfg = CFG[kind](xconfig_decn=numpy.array([1, 0, 1, 1, 0, 1, 0, 0]), **kw)
        elif kind == "integer":
            cfg = CFG[kind](xconfig_decn=numpy.array([2, 0, 1, 0, 0, 3, 0, 1]), **kw)
        elif kind == "real":
            cfg = CFG[kind](xconfig_decn=numpy.array([0.3, 0.0, 0.1, 0.2, 0.0, 0.25, 0.05, 0.1]), **kw)
        else:
            xmap = numpy.array([[i, j] for i in range(NTAXA) for j in range(i, NTAXA)], dtype="int64")   # 36 crosses
            kw["nparent"] = 2
            pat = numpy.array([(5 * i) % 7 for i in range(len(xmap))])
            decn = {"subsetmate": numpy.array([0, 5, 9, 17, 30]), "binarymate": (pat < 2).astype("int64"),
                    "integermate": numpy.where(pat < 3, pat, 0).astype("int64"),
                    "realmate": numpy.where(pat < 4, (pat + 1) / 8.0, 0.0)}[kind]
            cfg = CFG[kind](xconfig_decn=decn, xconfig_xmap=xmap, **kw)
        outs = [canon(cfg.xconfig)]
        for _ in range(int(nresample)):
            outs.append(canon(cfg.sample_xconfig(return_xconfig=True)))
        return outs
    if op == "spawn":
        _, n, sbits = call
        return canon(prng.spawn(n, sbits=int(sbits)))
    if op == "dist":
        _, name, n = call
        return canon(DISTS[name](int(n)))
    if op == "rawdraw":
        _, which, n = call
        if which == "py":
            return [float.hex(py_random.random()) for _ in range(int(n))]
        return canon(numpy.random.random(int(n)))
    if op == "opt":
        _, name, spec, ngen, pop = call
        cls, space, nobj, _p = OPT[name]
        prob = opt_problem(w, space, nobj)
        algo = make_opt(name, make_rng(spec), int(ngen), int(pop))
        return soln_out(algo.minimize(prob))
    if op == "legacy_opt":
        _, name, spec, ngen = call
        rng = make_rng(spec)
        kw = {} if rng is None else {"rng": rng}
        vals = numpy.array([((5 * i) % 7) / 3.0 for i in range(NTAXA)])
        objfn = lambda x: float(vals[numpy.asarray(x, dtype=int)].sum())
        if name == "UnconstrainedSetGeneticAlgorithm":
            algo = UnconstrainedSetGeneticAlgorithm(ngen=int(ngen), mu=6, lamb=6, **kw)
            soln, decn, misc = algo.optimize(objfn, 3, numpy.arange(NTAXA), 1.0)
            return {"soln": canon(numpy.asarray(soln)), "decn": canon(numpy.asarray(decn)),
                    "pop": canon(numpy.asarray(misc["pop_decn"]))}
        algo = UnconstrainedSteepestAscentSetHillClimber(**kw)
        score, soln, misc = algo.optimize(objfn, 3, numpy.arange(NTAXA), 1.0)
        return {"score": canon(list(score)), "soln": canon(numpy.asarray(soln))}
    if op == "setga":
        # UnconstrainedSetGeneticAlgorithm.optimize (deap-based) with a generated problem: set size k out of a search space of
        # nsp elements, nobj = len(wts) objectives, objective weights wts (sign = maximise / minimise)
        c, o = split_opts(call)
        _, spec, ngen, mu, kraw, nsp, wts, objseed = c
        nsp = int(nsp)
        k = 2 + int(kraw) % min(6, nsp - 2)
        wts = [float(x) for x in wts]
        vals = numpy.random.RandomState(int(objseed)).normal(size=(nsp, len(wts)))      # constants of the case, no global stream
        if len(wts) == 1:
            objfn = lambda x: float(vals[(numpy.asarray(x, dtype=int) - 1) // 2, 0].sum())      # search space = odd numbers
        else:
            objfn = lambda x: vals[(numpy.asarray(x, dtype=int) - 1) // 2].sum(0)
        rng = make_rng(spec)
        kw = {} if rng is None else {"rng": rng}
        algo = UnconstrainedSetGeneticAlgorithm(ngen=int(ngen), mu=int(mu), lamb=int(mu), **kw)
        wt = wts[0] if (len(wts) == 1 and o.get("wt") == "scalar") else numpy.array(wts)
        soln, decn, misc = algo.optimize(objfn, k, numpy.arange(nsp) * 2 + 1, wt)
        return {"soln": canon(numpy.asarray(soln)), "decn": canon(numpy.asarray(decn)),
                "pop_decn": canon(numpy.asarray(misc["pop_decn"])), "pop_soln": canon(numpy.asarray(misc["pop_soln"]))}
    if op == "jitter":
        m = numpy.full((4, 4), 0.5)     # rank one: not positive definite
        cm = DenseMolecularCoancestryMatrix(m)
        ok = cm.apply_jitter()
        return {"ok": bool(ok), "mat": canon(cm.mat)}
    if op == "embv":
        _, nprogeny, nrep, ntrait = call
        e = DenseExpectedMaximumBreedingValueMatrix.from_gmod(w["gm"][ntrait], pg, int(nprogeny), int(nrep))
        return canon(e.mat)
    if op == "select":
        _, space, spec, algoname, ngen, pop = call
        nobj = OPT[algoname][2]
        # the optimiser is a stochastic component of its own: it gets the same explicit generator as the protocol,
        # otherwise a dependence on the global stream through the optimiser would be the caller's doing
        rng_sel = make_rng(spec)
        algo = make_opt(algoname, rng_sel, int(ngen), int(pop))
        kw = {"soalgo": algo} if nobj == 1 else {"moalgo": algo}
        if nobj > 1 and space == "subset":
            kw["soalgo"] = SortingSubsetOptimizationAlgorithm()
        sel = GEBV_SEL[space](ntrait=nobj, unscale=True, ncross=2, nparent=2, nmating=1, nprogeny=2, nobj=nobj,
                              rng=rng_sel, **kw)
        cfg = sel.select(pg, pg, None, None, w["gm"][nobj], 0, 3)
        return canon(cfg.xconfig)
    if op == "randsel_problem":
        _, spec = call
        sel = RandomSubsetSelection(ntrait=1, ncross=2, nparent=2, nmating=1, nprogeny=2, nobj=1,
                                    rng=make_rng(spec), soalgo=SortingSubsetOptimizationAlgorithm())
        prob = sel.problem(pg, pg, None, None, w["gm"][1], 0, 3)
        return canon(prob.rbv)
    raise AssertionError("unknown op %r" % (op,))


def run_program(program, resync_after=None, seed=None):
    """Fresh world, then every call in order.  `resync_after(i, call)` -> bool: re-seed the globals after call i
    (used only behind a known finding so that the calls after an irreproducible one stay comparable)."""
    w = build_world()
    outs = []
    for i, call in enumerate(program):
        outs.append(run_call(w, call))
        if resync_after is not None and resync_after(i, call):
            prng.seed((seed + 7919 * (i + 1)) % 2**32)
    return outs


# ------------------------------------------------------------------------------------------------------
# sub-check: reseed (clause A, in process)
# ------------------------------------------------------------------------------------------------------
def component_of(call):
    if call[0] in ("opt", "legacy_opt"):
        return "opt:" + call[1]
    if call[0] == "select":
        return "select:" + call[1] + ":" + call[3]
    if call[0] in ("mate", "dist", "xconfig"):
        return call[0] + ":" + call[1]
    return call[0]


def label_program(ctx, program):
    comps = [component_of(c) for c in program]
    for c in sorted(set(comps)):
        ctx.label("has:" + c.split(":")[0])
        if c.split(":")[0] in ("opt", "mate", "xconfig", "select"):
            ctx.label("cls:" + c)
    ctx.label("program_len>=4", len(program) >= 4)
    ctx.label("has_pymoo_optimiser", any(uses_pymoo(c) for c in program))
    ctx.label("has_plain_optimiser", any(c[0] == "opt" and not OPT[c[1]][3] for c in program))
    ctx.label("has_select_with_plain_optimiser", any(c[0] == "select" and not OPT[c[3]][3] for c in program))
    ctx.label("explicit_rng_call", any(_spec_of(c) not in (None, "global") for c in program))
    big = max([table_slots(c) for c in program] + [0])
    ctx.label("cross_table>=64_slots", any(c[0] in ("outcross_shuffle", "xconfig") and table_slots(c) >= 64 for c in program))
    ctx.label("cross_table>=128_slots", any(c[0] in ("outcross_shuffle", "xconfig") and table_slots(c) >= 128 for c in program))
    ctx.label("call_size>=1000", big >= 1000)
    for c in program:
        for f in form_features(c):
            ctx.label(f)
    ctx.label("form:maybe_unsupported", any(maybe_unsupported(c) for c in program))
    ctx.label("form:maybe_unsupported+explicit_rng", any(maybe_unsupported(c) and _spec_of(c) not in (None, "global") for c in program))
    ctx.label("form:maybe_unsupported+large", any(maybe_unsupported(c) and table_slots(c) >= 1000 for c in program))
    return comps


def label_outcomes(ctx, program, outs):
    """outcome-side classification only (never used as a signature): how the documented-but-possibly-unsupported forms ended"""
    for c, o in zip(program, outs):
        if uses_pymoo(c):
            ctx.label("pymoo_backed_run_raised", was_rejected(o))
        if maybe_unsupported(c):
            ctx.label("unsupported_form_rejected:%s" % c[0], was_rejected(o))
            ctx.label("unsupported_form_accepted:%s" % c[0], not was_rejected(o))


def _spec_of(call):
    for a in call[1:]:
        if isinstance(a, list) and a and a[0] in ("global", "gen", "rs"):
            return a[0]
    return None


def check_reseed(case, ctx):
    P, pre1, pre2, s = case["program"], case["prefix1"], case["prefix2"], case["seed"]
    comps = label_program(ctx, P)
    ctx.label("seed0", s == 0)
    ctx.label("seed_ge_2^31", s >= 2**31)
    ctx.label("prefixes_differ", pre1 != pre2)
    ctx.label("empty_prefix", not pre1 or not pre2)
    ctx.nontrivial(len(set(c.split(":")[0] for c in comps)) >= 2 and pre1 != pre2)

    known_a = [ctx.known("F-C08-a", uses_pymoo(c)) for c in P]
    resync = lambda i, call: known_a[i]

    outs = []
    finals = []
    for pre, hist_seed in ((pre1, 11), (pre2, 22)):
        # prior interpreter history: whatever state the globals are in, then a prefix program
        py_random.seed(hist_seed + case["hist"])
        numpy.random.seed((hist_seed * 977 + case["hist"]) % 2**32)
        run_program(pre)
        prng.seed(s)
        outs.append(run_program(P, resync, s))
        finals.append([float.hex(py_random.random()), float.hex(float(numpy.random.random()))])

    label_outcomes(ctx, P, outs[0])
    for i, call in enumerate(P):
        if known_a[i]:
            continue                       # F-C08-a: output of a pymoo-based optimiser is not reproducible
        kind = call[0]
        ctx.check(outs[0][i] == outs[1][i], "reseed.output_differs:%s" % kind,
                  lambda: "call #%d %s gave different outputs after prng.seed(%d):\n run1 %s\n run2 %s"
                          % (i, json.dumps(call), s, json.dumps(outs[0][i])[:300], json.dumps(outs[1][i])[:300]))
    if True:
        ctx.check(finals[0] == finals[1], "reseed.global_streams_end_in_different_states",
                  lambda: "draws from random / numpy.random after the program differ: %s vs %s" % (finals[0], finals[1]))


# ------------------------------------------------------------------------------------------------------
# sub-check: persistent components (clause A for objects that outlive the re-seeding)
# ------------------------------------------------------------------------------------------------------
PERSIST_KINDS = [m[0] for m in MATE] + ["pheno", "pheno_copy", "pheno_deepcopy", "pheno_deepcopy_method", "hillclimber", "select_sorting"]


def build_persistent(w):
    """long-lived stochastic components created with rng=None BEFORE prng.seed() is called; name -> callable(args) -> output"""
    pg = w["pg"]
    comp = {}
    for name, cls, npar in MATE:
        prot = cls()

        def use(args, prot=prot, npar=npar):
            xc = numpy.array([[(args[0] + q * (1 + args[1])) % NTAXA for q in range(npar)] for _ in range(2)], dtype="int64")
            return canon(prot.mate(pg, xc, 1, 1 + args[2] % 2, nself=args[3] % 2))
        comp[name] = use
    pt = G_E_Phenotyping(w["gm"][2], nenv=2, nrep=1, var_env=0.5, var_rep=0.25, var_err=1.0)
    for key, obj in (("pheno", pt), ("pheno_copy", copy.copy(pt)), ("pheno_deepcopy", copy.deepcopy(pt)),
                     ("pheno_deepcopy_method", pt.deepcopy())):
        comp[key] = (lambda args, obj=obj: canon(obj.phenotype(pg)))
    hc = SteepestDescentSubsetHillClimber()
    comp["hillclimber"] = (lambda args: canon(hc.minimize(opt_problem(w, "subset", 1)).soln_decn))
    sel = GEBV_SEL["subset"](ntrait=1, unscale=True, ncross=2, nparent=2, nmating=1, nprogeny=2, nobj=1,
                             soalgo=SortingSubsetOptimizationAlgorithm())
    comp["select_sorting"] = (lambda args: canon(sel.select(pg, pg, None, None, w["gm"][1], 0, 3).xconfig))
    return comp


@st.composite
def persistent_case(draw):
    n = draw(st.integers(1, 6))
    uses = [[draw(st.sampled_from(PERSIST_KINDS)), [draw(st.integers(0, 50)) for _ in range(4)]] for _ in range(n)]
    return {"uses": uses, "seed": draw(st.sampled_from([0, 1, 2**32 - 1]) | st.integers(0, 2**32 - 1)),
            "hist": draw(st.integers(0, 1000)), "ndraw1": draw(st.integers(0, 5)), "ndraw2": draw(st.integers(0, 5))}


def persistent_cases(tier):
    return [{"uses": [[k, [1, 2, 3, 4]], [k, [5, 1, 0, 1]]], "seed": s, "hist": 3, "ndraw1": 0, "ndraw2": 3}
            for k in PERSIST_KINDS for s in (0, 12345)]


def check_persistent(case, ctx):
    s = case["seed"]
    outs = []
    for hist_seed, ndraw in ((11, case["ndraw1"]), (22, case["ndraw2"])):
        py_random.seed(hist_seed + case["hist"])
        numpy.random.seed((hist_seed * 977 + case["hist"]) % 2**32)
        w = build_world()
        comp = build_persistent(w)                 # components exist before the re-seeding ...
        for _ in range(ndraw):                     # ... and the interpreter has some more history
            numpy.random.random()
            py_random.random()
        prng.seed(s)
        outs.append([comp[k](a) for k, a in case["uses"]])
    for k, _ in case["uses"]:
        ctx.label("uses:" + k)
    ctx.nontrivial(case["ndraw1"] != case["ndraw2"] or True)
    for i, (k, a) in enumerate(case["uses"]):
        ctx.check(outs[0][i] == outs[1][i], "reseed.persistent_component_output_differs:%s" % k,
                  lambda: "use #%d of the long-lived %s (created before prng.seed(%d)) gave different outputs:\n %s\n %s"
                          % (i, k, s, json.dumps(outs[0][i])[:300], json.dumps(outs[1][i])[:300]))


# ------------------------------------------------------------------------------------------------------
# sub-check: isolation (clause B)
# ------------------------------------------------------------------------------------------------------
def check_isolation(case, ctx):
    P, g1, g2 = case["program"], case["gseed1"], case["gseed2"]
    label_program(ctx, P)
    ctx.label("rng_generator", any(_spec_of(c) == "gen" for c in P))
    ctx.label("rng_randomstate", any(_spec_of(c) == "rs" for c in P))
    ctx.nontrivial(len(P) >= 1 and g1 != g2)

    def known_for(call):
        """clauses to skip for this call: subset of {"py", "np", "out"} (input-side signatures only)"""
        skip = set()
        if uses_pymoo(call) and ctx.known("F-C08-b", True):
            skip |= {"np", "out"}
        if call[0] == "select" and ctx.known("F-C08-c", True):
            skip |= {"np", "out"}
        if call[0] == "randsel_problem" and ctx.known("F-C08-e", True):
            skip |= {"np", "out"}
        if call[0] == "legacy_opt" and call[1] == "UnconstrainedSetGeneticAlgorithm" and ctx.known("F-C08-f", True):
            skip |= {"py", "out"}
        return skip

    known = [known_for(c) for c in P]
    outs = []
    for g in (g1, g2):
        w = build_world()
        prng.seed(g)
        o = []
        for i, call in enumerate(P):
            before = global_state()
            o.append(run_call(w, call))
            after = global_state()
            if "py" not in known[i]:
                ctx.check(before[0] == after[0], "isolation.python_random_consumed:%s" % call[0],
                          lambda: "call #%d %s with an explicit rng advanced the global `random` stream" % (i, json.dumps(call)))
            if "np" not in known[i]:
                ctx.check(before[1] == after[1], "isolation.numpy_random_consumed:%s" % call[0],
                          lambda: "call #%d %s with an explicit rng advanced the global numpy.random stream" % (i, json.dumps(call)))
            if known[i]:
                # keep the two runs' global streams in a defined state behind the known defect
                prng.seed((g + 31 * (i + 1)) % 2**32)
        outs.append(o)
    label_outcomes(ctx, P, outs[0])
    for i, call in enumerate(P):
        if "out" in known[i]:
            continue
        ctx.check(outs[0][i] == outs[1][i], "isolation.output_depends_on_global_seed:%s" % call[0],
                  lambda: "call #%d %s with the same explicit rng gave different outputs under global seeds %d / %d:\n %s\n %s"
                          % (i, json.dumps(call), g1, g2, json.dumps(outs[0][i])[:300], json.dumps(outs[1][i])[:300]))


# ------------------------------------------------------------------------------------------------------
# sub-check: subprocess (clause A across fresh interpreters)
# ------------------------------------------------------------------------------------------------------
_CHILD = r"""
import sys, json
sys.path.insert(0, %(verif)r)
from pbt import compat
from pbt.checks import c08
import random, numpy
case = json.loads(sys.stdin.read())
random.seed(case["hist"]); numpy.random.seed(case["hist"] %% 2**32)
c08.run_program(case["prefix"])
c08.prng.seed(case["seed"])
known = case["known"]
out = c08.run_program(case["program"], (lambda i, c: known[i]), case["seed"])
sys.stdout.write("\n@@OUT@@" + json.dumps(out))
"""


def _child_run(payload):
    verif = os.path.dirname(os.path.dirname(os.path.dirname(os.path.abspath(__file__))))
    env = dict(os.environ)
    r = subprocess.run([sys.executable, "-c", _CHILD % {"verif": verif}], input=json.dumps(payload), text=True,
                       capture_output=True, env=env, timeout=600)
    if r.returncode != 0 or "@@OUT@@" not in r.stdout:
        raise RuntimeError("child interpreter failed: %s" % r.stderr[-1500:])
    return json.loads(r.stdout.split("@@OUT@@", 1)[1])


def check_subprocess(case, ctx):
    P, s = case["program"], case["seed"]
    label_program(ctx, P)
    known_a = [ctx.known("F-C08-a", uses_pymoo(c)) for c in P]
    ctx.nontrivial(len(set(component_of(c).split(":")[0] for c in P)) >= 2)
    # in-process reference execution
    py_random.seed(3)
    numpy.random.seed(4)
    run_program(case["prefix1"])
    prng.seed(s)
    here = run_program(P, (lambda i, c: known_a[i]), s)
    outs = [here]
    for pre, hist in ((case["prefix1"], 5), (case["prefix2"], 6)):
        outs.append(_child_run({"program": P, "prefix": pre, "seed": s, "hist": hist, "known": known_a}))
    for i, call in enumerate(P):
        if known_a[i]:
            continue
        ctx.check(outs[1][i] == outs[2][i], "subprocess.output_differs_between_fresh_interpreters:%s" % call[0],
                  lambda: "call #%d %s: %s vs %s" % (i, json.dumps(call), json.dumps(outs[1][i])[:300], json.dumps(outs[2][i])[:300]))
        ctx.check(outs[0][i] == outs[1][i], "subprocess.output_differs_from_in_process_run:%s" % call[0],
                  lambda: "call #%d %s: %s vs %s" % (i, json.dumps(call), json.dumps(outs[0][i])[:300], json.dumps(outs[1][i])[:300]))


# ------------------------------------------------------------------------------------------------------
# sub-check: subprocess_history (clause A, "whatever was executed before the re-seeding", between interpreters whose
# histories contain the SAME components configured DIFFERENTLY)
#
# Inside one interpreter every execution shares whatever process-global state the first use of a component left behind
# (class registries, caches, module-level tables), so two in-process executions agree with each other even when that state
# is stale.  Only interpreters with different histories can disagree.  Each case therefore runs
#     child A (fresh interpreter):                      prng.seed(s); P
#     child B (fresh interpreter): prefix;              prng.seed(s); P
#     this worker process (arbitrary long history):     prng.seed(s); P
# where the prefix contains, for every set-GA optimisation of P, an optimisation by the same class with another weight
# vector of the same length (other signs / magnitudes), other sizes and another objective, plus further stochastic calls.
# ------------------------------------------------------------------------------------------------------
def _children_run(payloads):
    """run the child interpreters of one case concurrently (each costs an import of pybrops)"""
    from concurrent.futures import ThreadPoolExecutor
    with ThreadPoolExecutor(max_workers=len(payloads)) as ex:
        return list(ex.map(_child_run, payloads))


def _weights_of(call):
    return [float(x) for x in split_opts(call)[0][6]]


def check_subprocess_history(case, ctx):
    P, pre, s = case["program"], case["prefix"], case["seed"]
    label_program(ctx, P)
    ga_p = [c for c in P if c[0] == "setga"]
    ga_h = [c for c in pre if c[0] == "setga"]
    same_len_other = any(len(_weights_of(a)) == len(_weights_of(b)) and _weights_of(a) != _weights_of(b) for a in ga_p for b in ga_h)
    ctx.label("history:same_component_other_weights_same_length", same_len_other)
    ctx.label("history:same_component_other_number_of_objectives",
              any(len(_weights_of(a)) != len(_weights_of(b)) for a in ga_p for b in ga_h))
    ctx.label("history:sign_of_a_weight_differs",
              any(len(_weights_of(a)) == len(_weights_of(b)) and any((x > 0) != (y > 0) for x, y in zip(_weights_of(a), _weights_of(b)))
                  for a in ga_p for b in ga_h))
    ctx.label("history:has_other_stochastic_calls", any(c[0] != "setga" for c in pre))
    ctx.label("setga:nobj=1", any(len(_weights_of(c)) == 1 for c in ga_p))
    ctx.label("setga:nobj>=2", any(len(_weights_of(c)) >= 2 for c in ga_p))
    ctx.label("setga:minimising_weight", any(x < 0 for c in ga_p for x in _weights_of(c)))
    ctx.label("setga:scalar_weight_form", any(split_opts(c)[1].get("wt") == "scalar" for c in ga_p))
    ctx.label("program_has_other_components", any(c[0] != "setga" for c in P))
    ctx.nontrivial(bool(ga_p) and same_len_other)
    known_a = [ctx.known("F-C08-a", uses_pymoo(c)) for c in P]
    resync = lambda i, c: known_a[i]

    fresh, after = _children_run([{"program": P, "prefix": [], "seed": s, "hist": case["hist1"], "known": known_a},
                                  {"program": P, "prefix": pre, "seed": s, "hist": case["hist2"], "known": known_a}])
    py_random.seed(case["hist2"] + 1)
    numpy.random.seed(case["hist1"] + 1)
    prng.seed(s)
    here = run_program(P, resync, s)
    for i, call in enumerate(P):
        if known_a[i]:
            continue
        ctx.check(fresh[i] == after[i], "subprocess_history.output_depends_on_what_ran_before_the_reseeding:%s" % call[0],
                  lambda: "call #%d %s after prng.seed(%d): fresh interpreter %s vs interpreter that first ran %s: %s"
                          % (i, json.dumps(call), s, json.dumps(fresh[i])[:300], json.dumps(pre)[:600], json.dumps(after[i])[:300]))
        ctx.check(fresh[i] == here[i], "subprocess_history.output_differs_from_long_lived_process:%s" % call[0],
                  lambda: "call #%d %s after prng.seed(%d): fresh interpreter %s vs this (long-lived) process %s"
                          % (i, json.dumps(call), s, json.dumps(fresh[i])[:300], json.dumps(here[i])[:300]))


_wmag = st.sampled_from([1.0, 1.0, 0.5, 2.0, 0.25, 3.0])


@st.composite
def setga_call(draw, spec, wts=None):
    """[setga, rng, ngen, mu, raw k, size of the search space, weight vector, objective seed]; ngen >= 2 so that at least one
    round of (weight-dependent) tournament selection happens"""
    if wts is None:
        n = draw(st.sampled_from([1, 1, 1, 2, 3]))
        wts = [draw(_wmag) * draw(st.sampled_from([1.0, -1.0])) for _ in range(n)]
    call = ["setga", draw(spec), draw(st.integers(2, 5)), draw(st.integers(4, 10)), draw(st.integers(0, 50)),
            draw(st.integers(6, 30)), wts, draw(_small)]
    if len(wts) == 1 and draw(st.booleans()):
        call.append({"wt": "scalar"})
    return call


@st.composite
def other_weights(draw, wts):
    """another weight vector of the same length: the sign of at least one weight differs (or, one time in four, only magnitudes)"""
    sign = lambda w: 1.0 if w > 0 else -1.0
    if len(wts) >= 2 and draw(st.sampled_from([False, False, False, True])):
        out = [sign(w) * draw(_wmag) for w in wts]
        if out != wts:
            return out
    j = draw(st.integers(0, len(wts) - 1))
    return [(-sign(w) if i == j else draw(st.sampled_from([1.0, -1.0]))) * draw(_wmag) for i, w in enumerate(wts)]


@st.composite
def subprocess_history_case(draw):
    other = call_strategy("some", with_pymoo=False)
    nga = draw(st.sampled_from([1, 1, 2]))
    gas = [draw(setga_call(rngspec("some"))) for _ in range(nga)]
    rest = draw(st.lists(other, min_size=0, max_size=3))
    program = draw(st.permutations(gas + rest))
    # history: the same component configured differently (same number of objectives, other weights) + unrelated work
    sib = [draw(setga_call(rngspec("never"), wts=draw(other_weights(_weights_of(g))))) for g in gas]
    extra = draw(st.lists(st.one_of(call_strategy("never", with_pymoo=False), setga_call(rngspec("never"))), min_size=0, max_size=2))
    prefix = draw(st.permutations(sib + extra))
    return {"program": [list(c) for c in program], "prefix": [list(c) for c in prefix], "seed": draw(_seed),
            "hist1": draw(_small), "hist2": draw(_small)}


# ------------------------------------------------------------------------------------------------------
# generators
# ------------------------------------------------------------------------------------------------------
_seed = st.one_of(st.sampled_from([0, 1, 2**32 - 1, 2**31, 12345]), st.integers(0, 2**32 - 1))
_small = st.integers(0, 1000)


def rngspec(explicit):
    ex = st.one_of(st.tuples(st.just("gen"), _small), st.tuples(st.just("rs"), _small)).map(list)
    if explicit == "always":
        return ex
    if explicit == "never":
        return st.just(["global"])
    return st.one_of(st.just(["global"]), st.just(["global"]), ex)


_conv = st.sampled_from([None, None, "pos", "kw", "omit"])


def _with_opts(call, o):
    o = {k: v for k, v in o.items() if v is not None}
    return call + [o] if o else call


@st.composite
def tiled_choice_call(draw, spec):
    """every documented form of tiled_choice's arguments: population as array (several dtypes) or Integral, size as Integral /
    tuple / None, with and without probabilities, any calling convention"""
    size = draw(st.one_of(st.integers(1, 9), st.integers(1, 9), st.lists(st.integers(1, 4), min_size=1, max_size=3), st.none()))
    a = draw(st.sampled_from([None, None, None, "int", "int", "npint"]))
    o = {"a": a, "dtype": None if a else draw(st.sampled_from([None, None, "float64", "int8", "str", "object"])),
         "p": draw(st.one_of(st.none(), st.none(), st.integers(0, 50))), "conv": draw(_conv)}
    return _with_opts(["tiled_choice", draw(spec), draw(st.integers(2, 5)), size, draw(st.booleans())], o)


@st.composite
def sus_call(draw, spec):
    size = draw(st.one_of(st.integers(1, 6), st.integers(1, 6), st.lists(st.integers(1, 3), min_size=1, max_size=3), st.none()))
    return _with_opts(["sus", draw(spec), size, draw(st.lists(st.integers(0, 50), min_size=2, max_size=6))], {"conv": draw(_conv)})


@st.composite
def axis_shuffle_call(draw, spec):
    """axis as Integral (also negative) / tuple of distinct axes / None, on 1-D ... 3-D arrays"""
    shape = draw(st.sampled_from([None, None, [3, 4], [6], [2, 3, 4], [5, 1], [2, 2, 3]]))
    nd = 2 if shape is None else len(shape)
    kind = draw(st.sampled_from(["int", "int", "tuple", "tuple", "none"]))
    neg = draw(st.booleans())
    if kind == "none":
        axis = None
    elif kind == "int":
        axis = draw(st.integers(0, nd - 1)) - (nd if neg else 0)
    else:
        axes = draw(st.lists(st.integers(0, nd - 1), min_size=1, max_size=nd, unique=True))
        axis = [x - (nd if neg else 0) for x in axes]
    return _with_opts(["axis_shuffle", draw(spec), axis], {"shape": shape, "conv": draw(_conv)})


@st.composite
def outcross_shuffle_call(draw, spec):
    call = ["outcross_shuffle", draw(spec), draw(st.lists(st.integers(0, 50), min_size=2, max_size=8)), draw(st.integers(1, 3))]
    conv = draw(_conv)
    return call + [4, {"conv": conv}] if conv else call


def call_strategy(explicit, with_pymoo=True, only_rng_components=False):
    spec = rngspec(explicit)
    ints = st.integers(0, 50)
    calls = [
        st.tuples(st.just("mate"), st.sampled_from([m[0] for m in MATE]), spec, st.lists(ints, min_size=1, max_size=8),
                  st.integers(1, 2), st.integers(1, 3), st.integers(0, 1)),
        st.tuples(st.just("pheno"), spec, st.integers(1, 2), st.integers(1, 2), st.sampled_from([1, 2]),
                  st.sampled_from([1.0, 0.25, 4.0]), st.sampled_from(["direct", "direct", "copy", "deepcopy", "deepcopy_method"])),
        sus_call(spec), tiled_choice_call(spec), axis_shuffle_call(spec), outcross_shuffle_call(spec),
        st.tuples(st.just("xconfig"), st.sampled_from(sorted(CFG)), spec, st.integers(1, 3), st.integers(1, 3),
                  st.integers(0, 2)),
        st.tuples(st.just("opt"), st.sampled_from(PLAIN_OPT), spec, st.integers(1, 3), st.sampled_from([4, 6, 8])),
        st.tuples(st.just("legacy_opt"), st.sampled_from(LEGACY_OPT), spec, st.integers(1, 3)),
        st.tuples(st.just("select"), st.just("subset"), spec, st.sampled_from(PLAIN_OPT), st.integers(1, 3),
                  st.sampled_from([4, 6, 8])),
        st.tuples(st.just("randsel_problem"), spec),
    ]
    if with_pymoo:
        calls += 3 * [
            st.tuples(st.just("opt"), st.sampled_from(PYMOO_OPT), spec, st.integers(1, 3), st.sampled_from([4, 6, 8])),
        ] + [
            st.tuples(st.just("select"), st.sampled_from(["subset", "binary", "integer", "real"]), spec, st.just(None),
                      st.integers(1, 3), st.sampled_from([4, 6, 8])).map(_fix_select),
        ]
    if not only_rng_components:
        calls += [
            st.tuples(st.just("spawn"), st.one_of(st.none(), st.integers(0, 3)), st.sampled_from([64, 32, 8])),
            st.tuples(st.just("dist"), st.sampled_from(sorted(DISTS)), st.integers(1, 5)),
            st.tuples(st.just("rawdraw"), st.sampled_from(["py", "np"]), st.integers(1, 4)),
            st.tuples(st.just("jitter")),
            st.tuples(st.just("embv"), st.integers(1, 3), st.integers(1, 2), st.sampled_from([1, 2])),
        ]
    if only_rng_components:
        calls += [tiled_choice_call(spec)]         # the utility with the most argument forms gets a second share
    return st.one_of(calls).map(list)


_SELECT_ALGOS = {"subset": ["SubsetGeneticAlgorithm", "NSGA2SubsetGeneticAlgorithm"],
                 "binary": ["BinaryGeneticAlgorithm", "NSGA2BinaryGeneticAlgorithm"],
                 "integer": ["IntegerGeneticAlgorithm", "NSGA2IntegerGeneticAlgorithm"],
                 "real": ["RealGeneticAlgorithm", "NSGA2RealGeneticAlgorithm"]}


def _fix_select(t):
    t = list(t)
    # algorithm chosen deterministically from the drawn sizes so that the tuple stays a plain draw
    t[3] = _SELECT_ALGOS[t[1]][(t[4] + t[5]) % 2]
    return tuple(t)


@st.composite
def reseed_case(draw):
    n = draw(st.sampled_from([3, 1, 2, 4, 5, 6, 8]))
    program = draw(st.lists(call_strategy("some"), min_size=n, max_size=n))
    pre1 = draw(st.lists(call_strategy("never", with_pymoo=False), min_size=0, max_size=3))
    n2 = draw(st.sampled_from([1, 2, 0, 3]))
    pre2 = draw(st.lists(call_strategy("never", with_pymoo=False), min_size=n2, max_size=n2))
    return {"program": program, "prefix1": pre1, "prefix2": pre2, "seed": draw(_seed), "hist": draw(_small)}


@st.composite
def isolation_case(draw):
    n = draw(st.sampled_from([2, 1, 3, 4]))
    program = draw(st.lists(call_strategy("always", only_rng_components=True), min_size=n, max_size=n))
    g1 = draw(_seed)
    g2 = draw(_seed.filter(lambda x: x != g1))
    return {"program": program, "gseed1": g1, "gseed2": g2}


@st.composite
def subprocess_case(draw):
    n = draw(st.sampled_from([6, 4, 8]))
    program = draw(st.lists(call_strategy("some"), min_size=n, max_size=n))
    pre1 = draw(st.lists(call_strategy("never", with_pymoo=False), min_size=0, max_size=2))
    pre2 = draw(st.lists(call_strategy("never", with_pymoo=False), min_size=1, max_size=2))
    return {"program": program, "prefix1": pre1, "prefix2": pre2, "seed": draw(_seed)}


def sampling_forms(spec):
    """one call per documented argument form of the four sampling utilities (docstrings + signatures of
    pybrops.core.random.sampling), including the forms the unchanged library rejects"""
    out = []
    # tiled_choice: a ndarray | Integral; size Integral | tuple | None; replace; p ndarray | None
    for replace in (False, True):
        out += [["tiled_choice", spec, 7, [5, 4], replace, {"a": "int"}],
                ["tiled_choice", spec, 7, 20, replace, {"a": "int", "conv": "kw"}],
                ["tiled_choice", spec, 4, [3, 3], replace, {"a": "npint", "p": 2}],
                ["tiled_choice", spec, 5, None, replace],
                ["tiled_choice", spec, 5, None, replace, {"conv": "omit"}],
                ["tiled_choice", spec, 5, None, replace, {"a": "int", "conv": "omit"}],
                ["tiled_choice", spec, 5, [3, 2, 2], replace],
                ["tiled_choice", spec, 5, [7], replace, {"p": 3}],
                ["tiled_choice", spec, 5, 12, replace, {"p": 1, "conv": "kw"}],
                ["tiled_choice", spec, 3, 7, replace, {"conv": "omit"}]]
    out += [["tiled_choice", spec, 4, 9, False, {"dtype": d}] for d in ("float64", "int8", "str", "object")]
    # stochastic_universal_sampling: size Integral | tuple | (signature default) None
    out += [["sus", spec, None, [1, 2, 3, 4]], ["sus", spec, None, [1, 2, 3, 4], {"conv": "omit"}],
            ["sus", spec, [2, 3], [1, 2, 3, 4]], ["sus", spec, [2, 1, 2], [4, 4, 1], {"conv": "pos"}],
            ["sus", spec, 5, [1, 2, 3], {"conv": "pos"}]]
    # axis_shuffle: axis Integral | tuple | (signature default) None, arrays of 1-3 dimensions
    out += [["axis_shuffle", spec, None], ["axis_shuffle", spec, None, {"conv": "omit"}],
            ["axis_shuffle", spec, [0, 1]], ["axis_shuffle", spec, 0, {"shape": [6]}],
            ["axis_shuffle", spec, [0]], ["axis_shuffle", spec, [1], {"conv": "kw"}], ["axis_shuffle", spec, -1],
            ["axis_shuffle", spec, [-2]], ["axis_shuffle", spec, [0, 2], {"shape": [2, 3, 4]}],
            ["axis_shuffle", spec, 1, {"shape": [2, 3, 4]}], ["axis_shuffle", spec, [2, 1], {"shape": [2, 3, 4], "conv": "kw"}],
            ["axis_shuffle", spec, [0, 1, 2], {"shape": [2, 3, 4]}]]
    # outcross_shuffle: one table form; both calling conventions, a single cross and single-parent crosses
    out += [["outcross_shuffle", spec, [1, 1, 2, 2, 3, 3], 2, 4, {"conv": "kw"}], ["outcross_shuffle", spec, [1, 1, 2, 2], 4],
            ["outcross_shuffle", spec, [1, 1, 2, 2], 1]]
    return out


def _every_call(spec):
    """one representative call per component class (finite enumeration: guarantees every class is exercised)"""
    out = [["mate", m[0], spec, [1, 2, 3, 4, 5, 6, 7, 0], 1, 2, 1] for m in MATE]
    out += [["pheno", spec, 2, 2, 2, 1.0], ["pheno", spec, 1, 1, 1, 0.25], ["pheno", spec, 2, 1, 1, 1.0, "copy"],
            ["pheno", spec, 2, 1, 1, 1.0, "deepcopy"], ["pheno", spec, 1, 2, 2, 1.0, "deepcopy_method"], ["sus", spec, 4, [1, 2, 3, 4]],
            ["tiled_choice", spec, 3, 7, False], ["tiled_choice", spec, 3, 7, True], ["axis_shuffle", spec, 0],
            ["axis_shuffle", spec, 1], ["outcross_shuffle", spec, [1, 1, 2, 2, 3, 3], 2]]
    out += sampling_forms(spec)
    out += [["xconfig", k, spec, 3, 2, 2] for k in sorted(CFG)]
    out += [["opt", k, spec, 2, 6] for k in sorted(OPT)]
    out += [["legacy_opt", k, spec, 2] for k in LEGACY_OPT]
    out += [["select", "subset", spec, k, 2, 6] for k in PLAIN_OPT]
    out += [["select", sp, spec, a, 2, 6] for sp in sorted(_SELECT_ALGOS) for a in _SELECT_ALGOS[sp]]
    out += [["randsel_problem", spec]]
    return out


def each_reseed_cases(tier):
    cases = []
    for seed in (0, 2**32 - 1, 20240229):
        calls = _every_call(["global"]) + [["spawn", None, 64], ["spawn", 3, 32], ["jitter"], ["embv", 2, 2, 2],
                                           ["embv", 1, 1, 1]] + [["dist", d, 3] for d in sorted(DISTS)]
        for c in calls:
            cases.append({"program": [c, ["rawdraw", "np", 1]], "prefix1": [], "prefix2": [["rawdraw", "py", 1], ["dist", "normal", 2]],
                          "seed": seed, "hist": 1})
    return cases


# ------------------------------------------------------------------------------------------------------
# large inputs: the same components at sizes far beyond the small world's (size-dependent branches, chunking,
# sub-sampling shortcuts ... must still take all their randomness from the right stream)
# ------------------------------------------------------------------------------------------------------
def table_slots(call):
    """number of parent slots / elements handled by one call (input-side size measure)"""
    op = call[0]
    orig = call
    call = split_opts(call)[0]
    if op == "outcross_shuffle":
        v = call[2]
        return int(v[1]) if v and v[0] == "rand" else len(v)
    if op == "xconfig":
        return int(call[3]) * (int(call[4]) if not call[1].endswith("mate") else 2)
    if op == "mate":
        v = call[3]
        return int(v[1]) if v and v[0] == "rand" else len(v)
    if op == "tiled_choice":
        return _nelem(call[3])
    if op == "sus":
        return _nelem(call[2])
    if op == "axis_shuffle":
        return int(numpy.prod(_axis_shape(orig)))
    return 0


def _large_tables(tier):
    """(nrow, ncol, number of distinct parents): ladder of cross-table sizes, 64 ... 129 parent slots (thorough: ... 256)"""
    lad = [(32, 2, 12), (48, 2, 16), (32, 4, 16), (43, 3, 16), (64, 2, 24)]
    if tier == "thorough":
        lad += [(40, 4, 24), (50, 4, 24), (100, 2, 40), (64, 4, 32), (51, 5, 32)]
    return lad


def _large_xconfig(tier):
    lad = [("subset", 32, 4, 0), ("binary", 43, 3, 0), ("integer", 56, 2, 0), ("real", 32, 4, 0)]
    if tier == "thorough":
        lad += [("subset", 32, 4, 2), ("subset", 50, 4, 0), ("real", 80, 2, 0), ("integer", 40, 5, 0), ("binary", 90, 2, 0)]
    return lad


def _large_cheap(spec):
    """large but fast calls of the remaining size-parametrised components"""
    out = [["mate", m[0], spec, ["rand", 120 * m[2], 3 + i], 2, 3, i % 2] for i, m in enumerate(MATE)]
    out += [["xconfig", k, spec, 150, 2, 2] for k in sorted(CFG) if k.endswith("mate")]
    out += [["tiled_choice", spec, 700, 5003, False], ["tiled_choice", spec, 5, 20011, False],
            ["tiled_choice", spec, 12000, 9000, False], ["tiled_choice", spec, 300, 70001, True],
            ["sus", spec, 6007, ["rand", 900, 11]], ["sus", spec, 40, ["rand", 12001, 12]],
            ["axis_shuffle", spec, 0, 700, 33], ["axis_shuffle", spec, 1, 41, 1200],
            ["pheno", spec, 12, 9, 2, 1.0], ["pheno", spec, 30, 1, 1, 0.25, "deepcopy"]]
    # the other documented argument forms at large sizes (incl. the ones the unchanged library rejects)
    out += [["tiled_choice", spec, 700, [71, 83], False, {"a": "int"}], ["tiled_choice", spec, 300, [260, 270], True, {"a": "int", "p": 3}],
            ["tiled_choice", spec, 9000, 20011, False, {"a": "npint", "conv": "kw"}], ["tiled_choice", spec, 12000, None, False],
            ["tiled_choice", spec, 700, [41, 11, 13], False, {"p": 5, "dtype": "float64"}],
            ["sus", spec, [77, 78], ["rand", 900, 13]], ["sus", spec, None, ["rand", 12001, 14]],
            ["axis_shuffle", spec, [0, 2], {"shape": [30, 20, 40]}], ["axis_shuffle", spec, None, {"shape": [700, 33]}],
            ["axis_shuffle", spec, 0, {"shape": [20000]}]]
    return out


def large_isolation_cases(tier):
    cases = []
    for i, (nrow, ncol, nval) in enumerate(_large_tables(tier)):
        spec = [("gen", "rs")[i % 2], 7 + i]
        cases.append({"program": [["outcross_shuffle", spec, ["rand", nrow * ncol, 1 + i], ncol, nval]],
                      "gseed1": 0, "gseed2": 99})
    for i, (kind, ncross, npar, nres) in enumerate(_large_xconfig(tier)):
        spec = [("gen", "rs")[i % 2], 17 + i]
        cases.append({"program": [["xconfig", kind, spec, ncross, npar, nres, True]], "gseed1": 5, "gseed2": 2**32 - 1})
    for spec in (["gen", 7], ["rs", 7]):
        cases.append({"program": _large_cheap(spec), "gseed1": 0, "gseed2": 99})
    return cases


def large_reseed_cases(tier):
    tail = [["rawdraw", "np", 1]]
    pre2 = [["rawdraw", "py", 1], ["dist", "normal", 2]]
    progs = [[["outcross_shuffle", ["global"], ["rand", 128, 21], 4, 16]],
             [["xconfig", "subset", ["global"], 32, 4, 0, True]],
             [["xconfig", "real", ["global"], 43, 3, 0, True]],
             _large_cheap(["global"])]
    if tier == "thorough":
        progs += [[["outcross_shuffle", ["global"], ["rand", 200, 22], 2, 40]],
                  [["xconfig", "integer", ["global"], 50, 4, 0, True]], [["xconfig", "binary", ["global"], 90, 2, 0, True]]]
    return [{"program": p + tail, "prefix1": [], "prefix2": pre2, "seed": s, "hist": 1}
            for p, s in zip(progs, (0, 20240229, 2**32 - 1, 12345, 1, 2, 3))]


@st.composite
def large_call(draw, explicit):
    spec = draw(rngspec(explicit))
    kind = draw(st.sampled_from(["outcross", "outcross", "xconfig", "xconfig", "mate", "tiled_choice", "sus", "axis_shuffle"]))
    small = st.integers(0, 1000)
    if kind == "outcross":
        ncol = draw(st.sampled_from([2, 3, 4, 5]))
        slots = draw(st.integers(40, 128))
        return ["outcross_shuffle", spec, ["rand", (slots // ncol) * ncol, draw(small)], ncol,
                draw(st.sampled_from([8, 16, 64, 1000]))]
    if kind == "xconfig":
        k = draw(st.sampled_from(sorted(CFG)))
        npar = 2 if k.endswith("mate") else draw(st.sampled_from([2, 3, 4]))
        slots = draw(st.integers(40, 128))
        return ["xconfig", k, spec, slots // npar, npar, draw(st.integers(0, 1)), True]
    if kind == "mate":
        name, _cls, npar = draw(st.sampled_from(MATE))
        return ["mate", name, spec, ["rand", npar * draw(st.integers(30, 400)), draw(small)], draw(st.integers(1, 3)),
                draw(st.integers(1, 6)), draw(st.integers(0, 1))]
    if kind == "tiled_choice":
        size = draw(st.sampled_from([999, 4096, 5001, 10007, 65537, [64, 64], [3, 1667], [17, 19, 23]]))
        a = draw(st.sampled_from([None, None, "int", "npint"]))
        return _with_opts(["tiled_choice", spec, draw(st.sampled_from([3, 64, 1000, 4096, 20000])), size, draw(st.booleans())],
                          {"a": a, "p": draw(st.sampled_from([None, None, 4])), "conv": draw(_conv)})
    if kind == "sus":
        return _with_opts(["sus", spec, draw(st.sampled_from([257, 1000, 5003, 20000, [40, 50], None])),
                           ["rand", draw(st.sampled_from([2, 100, 1025, 9000])), draw(small)]], {"conv": draw(_conv)})
    if draw(st.booleans()):
        return _with_opts(["axis_shuffle", spec, draw(st.sampled_from([[0, 2], [1], 2, -3, None, [0, 1, 2]]))],
                          {"shape": draw(st.sampled_from([[30, 20, 40], [2, 513, 9], [1025, 3, 2]])), "conv": draw(_conv)})
    return ["axis_shuffle", spec, draw(st.integers(0, 1)), draw(st.sampled_from([1, 40, 1025])),
            draw(st.sampled_from([2, 300, 513]))]


@st.composite
def large_isolation_case(draw):
    slow = lambda c: c[0] == "outcross_shuffle" or (c[0] == "xconfig" and not c[1].endswith("mate"))
    program = [draw(large_call("always"))]
    if not slow(program[0]):
        # the fast kinds come in programs of up to three calls; a large cross table (slow) stands alone
        for _ in range(draw(st.integers(0, 2))):
            c = draw(large_call("always"))
            if not slow(c):
                program.append(c)
    g1 = draw(_seed)
    g2 = draw(_seed.filter(lambda x: x != g1))
    return {"program": program, "gseed1": g1, "gseed2": g2}


def each_isolation_cases(tier):
    cases = []
    for spec in (["gen", 7], ["rs", 7]):
        for c in _every_call(spec):
            cases.append({"program": [c], "gseed1": 0, "gseed2": 99})
    return cases


SUBCHECKS = [
    # slow cases first: the pool starts tasks in this order
    SubCheck("each_large_isolation", check_isolation, cases=large_isolation_cases, shards_quick=11, shards_thorough=16,
             rule="finite enumeration of LARGE inputs with an explicit Generator / RandomState under two global seeds: cross tables "
                  "of 64-129 parent slots (thorough: up to 256) through outcross_shuffle and through the four sampled "
                  "selection-configuration classes, 150 crosses through the four mate-configuration classes, 120 crosses x 2 matings "
                  "x 3 progeny through every mating protocol, tiled_choice / stochastic_universal_sampling / axis_shuffle on "
                  "10^3-10^4.8 elements, 12 environments x 9 replicates; non-trivial = global seeds differ (always)",
             required_labels=("cross_table>=128_slots", "call_size>=1000", "rng_generator", "rng_randomstate",
                              "form:maybe_unsupported+large")),
    SubCheck("each_large_reseed", check_reseed, cases=large_reseed_cases, shards_quick=4, shards_thorough=7,
             rule="the same large inputs with rng=None after prng.seed(s), behind two different histories",
             required_labels=("cross_table>=128_slots", "call_size>=1000")),
    SubCheck("large_isolation", check_isolation, large_isolation_case(), quick=3, thorough=8, shards_quick=4, shards_thorough=16,
             shrink_s=60,
             rule="generated programs of 1-3 LARGE calls (cross tables of 40-128 parent slots with 8-1000 distinct parents, all eight "
                  "configuration classes, mating of 30-400 crosses, sampling utilities on up to 65537 elements), explicit rng, two "
                  "global seeds; non-trivial = global seeds differ"),
    SubCheck("each_reseed", check_reseed, cases=each_reseed_cases, shards_quick=2, shards_thorough=4,
             rule="finite enumeration: one representative call of every component class (7 mating protocols, 8 configuration "
                  "classes, 15+2 optimiser classes, select() per decision space and optimiser, 15 prng wrappers, ...) x 3 seeds "
                  "incl. 0 and 2^32-1, followed by a raw numpy draw, behind two different histories; non-trivial = two "
                  "component kinds and differing prefixes (always)"),
    SubCheck("each_isolation", check_isolation, cases=each_isolation_cases, shards_quick=2, shards_thorough=4,
             rule="finite enumeration: one representative call of every rng-accepting component class and one call per documented "
                  "argument form of the four sampling utilities (44 forms: population array / Integral, size and axis Integral / tuple / "
                  "None, probabilities, dtypes, positional / keyword / defaulted arguments; rejected forms must leave the global streams "
                  "untouched) x {Generator, RandomState}; non-trivial = global seeds differ (always)",
             required_labels=("form:tiled_choice:a=int", "form:tiled_choice:size=None", "form:tiled_choice:size=tuple",
                              "form:tiled_choice:p=array", "form:sus:size=None", "form:sus:size=tuple", "form:axis_shuffle:axis=None",
                              "form:axis_shuffle:axis=tuple", "form:maybe_unsupported+explicit_rng")),

    SubCheck("reseed", check_reseed, reseed_case(), quick=200, thorough=600, shards_quick=4, shards_thorough=16,
             rule="generated programs of 1-8 stochastic calls (7 mating protocols, G_E_Phenotyping, 4 sampling utilities, "
                  "8 selection-configuration classes, prng.spawn, 15 prng wrappers, 15 optimiser classes + 2 legacy ones, "
                  "apply_jitter, EMBV factory, select(), RandomSelection.problem, raw draws) run twice after prng.seed(s) behind two "
                  "different prior histories; non-trivial = >= 2 different component kinds and the two prefixes differ",
             required_labels=("has:mate", "has:pheno", "has:xconfig", "has:spawn", "has:dist", "has:opt", "has:select",
                              "has:jitter", "has:embv", "has_pymoo_optimiser", "has_plain_optimiser", "seed0",
                              "prefixes_differ")),
    SubCheck("isolation", check_isolation, isolation_case(), quick=200, thorough=600, shards_quick=4, shards_thorough=16,
             rule="generated programs of 1-4 calls of components that accept an rng argument, each given its own "
                  "default_rng(k)/RandomState(k), executed under two different global seeds; global random / numpy.random "
                  "states compared byte-for-byte around every call; non-trivial = the two global seeds differ",
             required_labels=("has:mate", "has:pheno", "has:xconfig", "has:opt", "has:select", "rng_generator",
                              "rng_randomstate", "form:tiled_choice:a=int", "form:maybe_unsupported+explicit_rng")),
    SubCheck("each_persistent", check_persistent, cases=persistent_cases, shards_quick=2, shards_thorough=4,
             rule="finite enumeration: every long-lived component kind (7 mating protocols, G_E_Phenotyping and its copy()/deepcopy() "
                  "forms, hill-climber, selection protocol), created with rng=None before prng.seed(s), used twice after it, behind two histories"),
    SubCheck("persistent", check_persistent, persistent_case(), quick=100, thorough=400, shards_quick=4, shards_thorough=16,
             rule="generated sequences of 1-6 uses of long-lived components created before the re-seeding (as a user script does: build "
                  "protocols once, seed, run); outputs after prng.seed(s) must not depend on the history before it"),
    SubCheck("subprocess", check_subprocess, subprocess_case(), quick=3, thorough=12, shards_quick=2, shards_thorough=16,
             rule="the same program executed in two fresh interpreters (different prior histories) and in process after "
                  "prng.seed(s); non-trivial = >= 2 component kinds"),
    SubCheck("subprocess_history", check_subprocess_history, subprocess_history_case(), quick=3, thorough=10, shards_quick=4,
             shards_thorough=16, shrink_s=40,
             rule="programs of 1-2 UnconstrainedSetGeneticAlgorithm.optimize calls (deap; generated weight vectors of 1-3 objectives "
                  "with either sign, set sizes 2-7 out of 6-30, 2-5 generations) mixed with 0-3 other stochastic calls, executed after "
                  "prng.seed(s) in a fresh interpreter, in an interpreter whose history holds the same optimiser class run with ANOTHER "
                  "weight vector of the same length (plus other stochastic calls), and in this long-lived worker process; non-trivial = "
                  "the history contains such a differently-weighted run",
             required_labels=("has:setga", "history:same_component_other_weights_same_length")),
]
