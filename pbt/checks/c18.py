"""C18 -- haplotype-block values conserve genomic value and bound progeny.

Sub-checks
    apportion   nhaploblk_chrom: every chromosome >= 1 block, exactly the requested total, never more than its quota + 1,
                equals the documented greedy rule; too few blocks -> clean ValueError
    bins        haplobin / haplobin_bounds: partition predicate (ordered, contiguous, within chromosomes, every requested
                block used), equal-width reference assignment, run-length bounds
    haplomat    the four block-value builders (haplo.haplomat and the OHV / OPV / GenotypeBuilder ``_calc_haplomat``):
                every entry written and finite, blocks sum to the chromosome copy's additive value, block values equal
                the reference partition's
    ohv         OHV matrices of the four OHV problem classes and of the four OptimalHaploidValue*Selection.problem:
                ploidy * sum_b max_{parents,phases}; bound / attainment by doubled haploids recombining only at block
                boundaries (evaluated marker by marker); invariance to the ``mem`` chunk size
    opv         OPV / GenotypeBuilder latent functions; OPV of a set bounds the OHV of every cross inside it
    history     ONE problem object (OPV / GenotypeBuilder / the four OHV classes) driven through a drawn history of
                "evaluate" (latentfn or evalfn), "assign new block values through the public setter" (haplomat / ohvmat,
                new genotypes and effects, possibly a new number of blocks), "edit the block values in place" (write into
                the array the public getter returns, or into the caller's own buffer that was handed to the constructor /
                setter: whole array replaced, some taxa replaced, or scaled), "assign nbestfndr"; after every step the
                value reported must be the definition applied to the block values the object holds NOW

Oracles are Python loops with math.fsum over the raw 0/1 calls and effects, on a partition computed by the harness from
the marker positions (numpy.linspace edges, closed bins, a marker on an inner boundary belongs to the later bin).

Every genomic model handed to a ``_calc_haplomat`` / ``from_pgmat_gpmod`` / protocol ``problem`` routine is drawn with its
documented optional components absent and present (``MODEL_SPEC``: miscellaneous random effects ``u_misc`` of 0-3 rows with
arbitrary values, 1-3 fixed-effect rows, trait names or None, model name, hyperparameters, the additive+dominance subclass
with non-zero dominance effects).  The oracle reads only the additive marker effects the model was given as ``u_a``.

``numpy.empty`` is replaced, while pybrops code runs, by an allocator that fills the new array with NaN (floats) or a
sentinel (ints).  The contents of ``numpy.empty`` are unspecified, so this is one admissible behaviour; it makes
"an element was never written" observable deterministically instead of depending on what the heap happened to contain.
"""
import contextlib
import itertools
import math
from fractions import Fraction

import numpy
from hypothesis import strategies as st

from pbt import compat  # noqa: F401
from pbt.core import SubCheck

from pybrops.core.util import haplo as H
from pybrops.popgen.gmat.DensePhasedGenotypeMatrix import DensePhasedGenotypeMatrix
from pybrops.model.gmod.DenseAdditiveLinearGenomicModel import DenseAdditiveLinearGenomicModel
from pybrops.model.gmod.DenseAdditiveDominanceLinearGenomicModel import DenseAdditiveDominanceLinearGenomicModel
import pybrops.breed.prot.sel.prob.OptimalHaploidValueSelectionProblem as OHVM
from pybrops.breed.prot.sel.prob.OptimalPopulationValueSelectionProblem import (
    OptimalPopulationValueSubsetSelectionProblem as OPVP)
from pybrops.breed.prot.sel.prob.GenotypeBuilderSelectionProblem import GenotypeBuilderSubsetSelectionProblem as GBP
import pybrops.breed.prot.sel.OptimalHaploidValueSelection as OHVPROT

ASSUMPTIONS = [
    "genetic positions are non-decreasing within each chromosome and chromosomes are contiguous runs (the documented "
    "input constraint of every function in pybrops.core.util.haplo)",
    "numpy.empty is replaced by a NaN/sentinel-filling allocator while pybrops code runs (its contents are unspecified; "
    "this makes never-written elements observable deterministically)",
    "F-C18-a signature is computed by the harness from the case only: equal-width edges numpy.linspace(first,last,nb+1) per "
    "chromosome (nb from the harness' own greedy apportionment), closed bins, inner-boundary markers counted in the "
    "later bin; the signature holds when some bin receives no marker",
    "a RuntimeError/ValueError 'more blocks than markers on a chromosome' for a total between the chromosome count and "
    "the marker count is accepted as a clean rejection (the code raises it deliberately); it is counted by a label",
    "genotypes are 0/1 calls, effects finite float64",
    "the 'additive value' of a chromosome copy is the sum over its markers of allele x additive marker effect (the u_a "
    "matrix of the genomic model); fixed effects (beta), miscellaneous random effects (u_misc), dominance effects (u_d of "
    "the additive+dominance subclass), trait names, model name and hyperparameters of the model are drawn absent and "
    "present and must not influence any block value or optimal value",
    "history: a problem object's public setters (haplomat / ohvmat / nbestfndr) are part of its interface; after an "
    "assignment the optimal values it reports are those of the block values it holds now (its own public attribute), "
    "whatever was evaluated before. The assigned block values are computed by the harness from new 0/1 genotypes and "
    "effects on the same markers (an equal-width bin without a marker contributes the empty sum 0.0); ploidy, number of "
    "taxa and traits stay fixed over the history, the number of blocks may change. In-place edits (writes into the array "
    "the public getter returns, or into the caller's buffer handed to the constructor / setter) are exercised; what the "
    "object holds after such an edit is decided by reading its public getter: the new values (then the oracle is the "
    "definition on the new data), the old values (an implementation that copies: oracle stays on the old data) or "
    "neither (history abandoned, counted by a label). Nothing is asserted about WHETHER an edit is observed, only that "
    "the values reported agree with the block values the public attribute shows at the time of the call. OHV objects are evaluated on a single "
    "cross (one-hot vector for the Real/Integer/Binary classes) so that any aggregate over the selection equals that "
    "cross's OHV. obj_wt=1.0 is passed explicitly; the identity objective transformation is the documented default.",
]

EPS = 2.0 ** -52
INT_SENTINEL = -(2 ** 40)


# ----------------------------------------------------------------------------------------------------------------------
# poisoned allocator
# ----------------------------------------------------------------------------------------------------------------------
_real_empty = numpy.empty


def _poison_empty(shape, dtype=float, *a, **k):
    out = _real_empty(shape, dtype, *a, **k)
    kind = out.dtype.kind
    if kind == "f":
        out.fill(numpy.nan)
    elif kind in "iu":
        out.fill(INT_SENTINEL if out.dtype.itemsize >= 8 else numpy.iinfo(out.dtype).min)
    return out


@contextlib.contextmanager
def poisoned():
    numpy.empty = _poison_empty
    try:
        yield
    finally:
        numpy.empty = _real_empty


# ----------------------------------------------------------------------------------------------------------------------
# reference model of the partition (harness side; computed from the case only)
# ----------------------------------------------------------------------------------------------------------------------
def positions_of(lay):
    """list (per chromosome) of lists of python floats, non-decreasing"""
    out = []
    for ch in lay["chroms"]:
        x = float(ch["start"])
        pos = [x]
        for inc in ch["incs"]:
            x = x + float(inc)
            pos.append(x)
        out.append(pos)
    return out


def flat_arrays(chroms):
    genpos = numpy.array([x for ch in chroms for x in ch], dtype="float64")
    lens = [len(ch) for ch in chroms]
    stix = numpy.array([sum(lens[:i]) for i in range(len(lens))], dtype="int64")
    spix = stix + numpy.array(lens, dtype="int64")
    return genpos, stix, spix, numpy.array(lens, dtype="int64")


def ref_apportion(total, chroms):
    """The documented rule: one block each, then one at a time to the chromosome furthest below its share by length.

    Written with python floats in the same order of operations as `(total / sum(len)) * len`, so that exact ties are
    broken identically (first lowest).  A genome of total length zero has no defined share: everything beyond the first
    block per chromosome goes to the first chromosome (the argmin of an all-NaN vector).
    """
    nchr = len(chroms)
    genlen = [ch[-1] - ch[0] for ch in chroms]
    tot = 0.0
    for g in genlen:
        tot = tot + g
    n = [1] * nchr
    if tot == 0.0:
        n[0] += total - nchr
        return n
    c = total / tot
    ideal = [c * g for g in genlen]
    for _ in range(total - nchr):
        diff = [n[i] - ideal[i] for i in range(nchr)]
        ix = min(range(nchr), key=lambda i: (diff[i], i))
        n[ix] += 1
    return n


def ref_labels(chroms, nblk):
    """Equal-width assignment: closed bins over numpy.linspace edges; a marker on an inner boundary -> later bin.

    Returns (labels, empty) where empty lists the (chromosome, bin) pairs that receive no marker.
    """
    labels = []
    empty = []
    boundary = False
    base = 0
    for c, ch in enumerate(chroms):
        nb = int(nblk[c])
        edges = [float(e) for e in numpy.linspace(ch[0], ch[-1], nb + 1)]
        used = set()
        for x in ch:
            lab = None
            for j in range(nb):
                if edges[j] <= x <= edges[j + 1]:
                    lab = j
            if lab is None:      # cannot happen for ch[0] <= x <= ch[-1]; keep the oracle total
                lab = 0 if x < edges[0] else nb - 1
            if any(x == edges[j] for j in range(1, nb)) and ch[0] < x < ch[-1]:
                boundary = True
            used.add(lab)
            labels.append(base + lab)
        for j in range(nb):
            if j not in used:
                empty.append((c, j))
        base += nb
    return labels, empty, boundary


def rle(labels):
    st_, sp_ = [0], []
    for i in range(1, len(labels)):
        if labels[i] != labels[i - 1]:
            sp_.append(i)
            st_.append(i)
    sp_.append(len(labels))
    return st_, sp_


# self-tests of the reference model on hand-computed examples (exit 2 through the import failure path if wrong)
assert ref_apportion(3, [[0.0, 0.01, 0.02, 1.0]]) == [3]
assert ref_apportion(4, [[0.0, 1.0], [0.0, 3.0]]) == [1, 3]
assert ref_apportion(2, [[0.0, 1.0], [5.0, 5.0]]) == [1, 1]
assert ref_apportion(3, [[1.0, 1.0, 1.0]]) == [3]
assert ref_labels([[0.0, 0.01, 0.02, 1.0]], [3])[:2] == ([0, 0, 0, 2], [(0, 1)])
assert ref_labels([[0.0, 1.0, 2.0, 3.0]], [3])[:2] == ([0, 1, 2, 2], [])
assert ref_labels([[0.0, 2.0, 2.5, 3.0]], [3])[:2] == ([0, 2, 2, 2], [(0, 1)])
assert ref_labels([[0.0, 1.0], [4.0, 4.0, 4.0]], [1, 1])[:2] == ([0, 0, 1, 1, 1], [])
assert ref_labels([[4.0, 4.0, 4.0]], [2])[:2] == ([1, 1, 1], [(0, 0)])
assert rle([0, 0, 1, 3, 3]) == ([0, 2, 3], [2, 3, 5])


# ----------------------------------------------------------------------------------------------------------------------
# strategies
# ----------------------------------------------------------------------------------------------------------------------
SMALL = [0.0, 0.0, 0.001, 0.01]
POOL = [0.0, 0.0, 0.01, 0.1, 0.25, 0.5, 1.0, 1.0, 3.0]


@st.composite
def chrom_strategy(draw, max_mk):
    kind = draw(st.sampled_from(["even", "even", "even", "cluster", "cluster", "ties", "random", "random", "random",
                                 "jitter", "jitter", "zero", "single"]))
    n = 1 if kind == "single" else draw(st.integers(2, max_mk))
    start = draw(st.sampled_from([0.0, 0.0, 0.0, 0.5, 10.0, -1.0]))
    if kind == "even":
        step = draw(st.sampled_from([0.25, 0.5, 1.0, 0.1, 0.3]))
        incs = [step] * (n - 1)
    elif kind == "cluster":
        incs = [draw(st.sampled_from(SMALL)) for _ in range(n - 1)]
        for _ in range(draw(st.integers(1, 2))):
            if n > 1:
                incs[draw(st.integers(0, n - 2))] = draw(st.sampled_from([1.0, 5.0, 0.5]))
    elif kind == "ties":
        incs = [draw(st.sampled_from([0.0, 0.0, 0.5, 1.0])) for _ in range(n - 1)]
    elif kind == "zero":
        incs = [0.0] * (n - 1)
    elif kind == "jitter":                      # roughly even spacing: bins rarely empty, boundaries rarely hit
        incs = [draw(st.sampled_from([0.75, 1.0, 1.0, 1.25, 0.9, 1.1])) for _ in range(n - 1)]
    elif kind == "random":
        incs = [draw(st.one_of(st.sampled_from(POOL), st.floats(0.0, 2.0, allow_nan=False, allow_subnormal=False)))
                for _ in range(n - 1)]
    else:
        incs = []
    return {"start": start, "incs": incs}


@st.composite
def layout_strategy(draw, max_chr=4, max_mk=10):
    nchr = draw(st.integers(1, max_chr))
    return {"chroms": [draw(chrom_strategy(max_mk)) for _ in range(nchr)]}


NB_SPEC = st.fixed_dictionaries({
    "mode": st.sampled_from(["nchr", "nmk", "mid", "mid", "mid", "low", "low", "low", "below", "above"]),
    "raw": st.integers(0, 10 ** 6)})


def total_blocks(spec, nchr, p):
    mode, raw = spec["mode"], int(spec["raw"])
    if mode == "nchr":
        return nchr
    if mode == "nmk":
        return p
    if mode == "mid":
        return nchr + raw % (p - nchr + 1)
    if mode == "low":
        return min(p, nchr + 1 + raw % 3)
    if mode == "below":
        return raw % nchr
    return p + 1 + raw % 3


@st.composite
def apportion_case(draw):
    return {"layout": draw(layout_strategy(max_chr=5, max_mk=10)), "nb": draw(NB_SPEC)}


@st.composite
def bins_case(draw):
    lay = draw(layout_strategy())
    raws = [draw(st.integers(0, 10 ** 6)) for _ in lay["chroms"]]
    mode = draw(st.sampled_from(["raw", "raw", "raw", "one", "all"]))
    free = draw(st.lists(st.integers(0, 6), min_size=1, max_size=25))
    return {"layout": lay, "nblk_raw": raws, "nblk_mode": mode, "free_labels": free}


# The genomic model handed to the library is drawn with its documented optional components absent and present; the
# oracle never looks at the model, only at the additive marker effects (``build_u``) the model was given as ``u_a``.
MODEL_SPEC = st.fixed_dictionaries({
    "cls": st.sampled_from(["A", "A", "A", "AD"]),                   # additive / additive + dominance linear model
    "nmisc": st.sampled_from([0, 0, 1, 1, 2, 3]),                    # rows of u_misc (0 -> the argument is None)
    "misc_kind": st.sampled_from(["ints", "floats", "big", "mixed_scale", "zeros"]),
    "nbeta": st.sampled_from([1, 1, 2, 3]),                          # fixed-effect rows
    "beta_kind": st.sampled_from(["zeros", "values"]),
    "dom_kind": st.sampled_from(["none", "values", "values"]),       # u_d of the AD model (None -> zeros by the class)
    "trait": st.sampled_from(["names", "names", "none", "other"]),
    "model_name": st.sampled_from([None, None, "", "rrBLUP fit #3"]),
    "hyperparams": st.sampled_from(["none", "none", "empty", "some"]),
    "seed": st.integers(0, 2 ** 32 - 1)})


@st.composite
def geno_spec(draw):
    return {"model": draw(MODEL_SPEC),
            "ploidy": draw(st.sampled_from([2, 2, 2, 2, 1, 3])),
            "ntaxa": draw(st.sampled_from([1, 2, 3, 3, 4, 4, 5, 6])),
            "gkind": draw(st.sampled_from(["random", "random", "random", "inbred", "all0", "all1"])),
            "gseed": draw(st.integers(0, 2 ** 32 - 1)),
            "ntrait": draw(st.sampled_from([1, 1, 2, 3])),
            "ukind": draw(st.sampled_from(["ints", "ints", "floats", "floats", "mixed_scale", "zeros", "neg"])),
            "useed": draw(st.integers(0, 2 ** 32 - 1))}


@st.composite
def haplomat_case(draw):
    return {"layout": draw(layout_strategy()), "nb": draw(NB_SPEC), "g": draw(geno_spec()),
            "impl": draw(st.sampled_from(["haplo", "ohv", "opv", "gb"])),
            "ohvcls": draw(st.sampled_from(["Subset", "Subset", "Real", "Integer", "Binary"]))}


@st.composite
def ohv_case(draw):
    spec = draw(st.fixed_dictionaries({
        "mode": st.sampled_from(["nchr", "nmk", "mid", "mid", "low", "low", "low"]), "raw": st.integers(0, 10 ** 6)}))
    return {"layout": draw(layout_strategy(max_chr=3, max_mk=8)), "nb": spec, "g": draw(geno_spec()),
            "cls": draw(st.sampled_from(["Subset", "Subset", "Real", "Integer", "Binary", "protocol"])),
            "protocol_cls": draw(st.sampled_from(["Subset", "Subset", "Real", "Integer", "Binary"])),
            "nparent": draw(st.sampled_from([1, 2, 2, 2, 3])),
            "unique": draw(st.booleans()),
            "mem": draw(st.sampled_from([None, 1, 2, 3, 1024])),
            "dhseed": draw(st.integers(0, 2 ** 32 - 1))}


@st.composite
def opv_case(draw):
    spec = draw(st.fixed_dictionaries({
        "mode": st.sampled_from(["nchr", "nmk", "mid", "mid", "low", "low", "low"]), "raw": st.integers(0, 10 ** 6)}))
    return {"layout": draw(layout_strategy(max_chr=3, max_mk=8)), "nb": spec, "g": draw(geno_spec()),
            "sel": [draw(st.integers(0, 10 ** 6)) for _ in range(draw(st.integers(1, 6)))],
            "nbest_raw": draw(st.integers(0, 10 ** 6))}


HIST_G = st.fixed_dictionaries({
    "gkind": st.sampled_from(["random", "random", "random", "inbred", "all0", "all1"]),
    "gseed": st.integers(0, 2 ** 32 - 1),
    "ukind": st.sampled_from(["ints", "ints", "floats", "floats", "mixed_scale", "zeros", "neg"]),
    "useed": st.integers(0, 2 ** 32 - 1)})


@st.composite
def history_op(draw):
    kind = draw(st.sampled_from(["eval", "eval", "eval", "eval", "set", "set", "edit", "edit", "nbest"]))
    if kind == "eval":
        return ["eval", [draw(st.integers(0, 10 ** 6)) for _ in range(draw(st.integers(1, 5)))],
                draw(st.sampled_from(["latentfn", "latentfn", "evalfn"]))]
    if kind == "set":
        # new genotypes and effects on the same markers; optionally re-partitioned into another number of blocks
        return ["set", draw(HIST_G), draw(st.one_of(st.none(), st.none(), st.integers(0, 10 ** 6)))]
    if kind == "edit":
        # in-place edit of the block-value array (same shape): through the array the getter returns, or through the
        # caller's own buffer; whole array <- new genotypes and effects / some taxa <- new genotypes / array *= k
        return ["edit", draw(HIST_G), draw(st.sampled_from(["getter", "buffer"])),
                draw(st.sampled_from(["replace", "replace", "partial", "scale"])),
                draw(st.integers(0, 10 ** 6)), draw(st.sampled_from([2.0, 0.5, -1.0, -4.0]))]
    return ["nbest", draw(st.integers(0, 10 ** 6))]


@st.composite
def history_case(draw):
    spec = draw(st.fixed_dictionaries({
        "mode": st.sampled_from(["nchr", "nmk", "mid", "mid", "low", "low", "low"]), "raw": st.integers(0, 10 ** 6)}))
    return {"layout": draw(layout_strategy(max_chr=3, max_mk=8)), "nb": spec, "g": draw(geno_spec()),
            "obj": draw(st.sampled_from(["opv", "opv", "gb", "gb", "ohv"])),
            "build": draw(st.sampled_from(["from_pgmat_gpmod", "from_pgmat_gpmod", "constructor"])),
            "ohvcls": draw(st.sampled_from(["Subset", "Subset", "Real", "Integer", "Binary"])),
            "nparent": draw(st.sampled_from([1, 2, 2, 3])),
            "unique": draw(st.booleans()),
            "nbest_raw": draw(st.integers(0, 10 ** 6)),
            "ops": draw(st.lists(history_op(), min_size=3, max_size=9))}


# ----------------------------------------------------------------------------------------------------------------------
# deterministic builders
# ----------------------------------------------------------------------------------------------------------------------
def build_geno(g, p):
    m, n = g["ploidy"], g["ntaxa"]
    rng = numpy.random.default_rng(g["gseed"])
    if g["gkind"] == "all0":
        a = numpy.zeros((m, n, p), dtype="int8")
    elif g["gkind"] == "all1":
        a = numpy.ones((m, n, p), dtype="int8")
    else:
        a = rng.integers(0, 2, size=(m, n, p)).astype("int8")
        if g["gkind"] == "inbred":
            a[:] = a[0]
    return a


def build_u(g, p):
    t = g["ntrait"]
    rng = numpy.random.default_rng(g["useed"])
    k = g["ukind"]
    if k == "zeros":
        u = numpy.zeros((p, t))
    elif k == "ints":
        u = rng.integers(-3, 4, size=(p, t)).astype("float64")
    elif k == "neg":
        u = -rng.integers(1, 5, size=(p, t)).astype("float64") / 4.0
    elif k == "floats":
        u = rng.normal(size=(p, t))
    else:
        u = rng.normal(size=(p, t)) * 10.0 ** rng.integers(-6, 7, size=(p, t))
    return numpy.ascontiguousarray(u, dtype="float64")


def build_pgmat(geno, chroms):
    p = geno.shape[2]
    chrgrp = numpy.array([c + 1 for c, ch in enumerate(chroms) for _ in ch], dtype="int64")
    phypos = numpy.arange(1, p + 1, dtype="int64") * 10
    genpos = numpy.array([x for ch in chroms for x in ch], dtype="float64")
    pg = DensePhasedGenotypeMatrix(geno.copy(), vrnt_chrgrp=chrgrp, vrnt_phypos=phypos, vrnt_genpos=genpos)
    pg.group_vrnt()
    return pg


LEGACY_MODEL = {"cls": "A", "nmisc": 0, "misc_kind": "zeros", "nbeta": 1, "beta_kind": "zeros", "dom_kind": "none",
                "trait": "names", "model_name": None, "hyperparams": "none", "seed": 0}


def model_spec_of(g):
    """cases saved before the model was drawn (regress/, replays/) have no "model" entry: the model they were run with"""
    ms = g.get("model")
    return dict(LEGACY_MODEL) if ms is None else ms


def build_gpmod(u, ms=None):
    """genomic model whose additive marker effects are ``u``; everything else about it comes from the model spec"""
    ms = dict(LEGACY_MODEL) if ms is None else ms
    p, t = u.shape
    rng = numpy.random.default_rng(int(ms["seed"]))

    def values(kind, rows):
        if kind == "zeros":
            a = numpy.zeros((rows, t))
        elif kind == "ints":
            a = rng.integers(-9, 10, size=(rows, t)).astype("float64")
        elif kind == "big":
            a = rng.integers(1, 10, size=(rows, t)).astype("float64") * 1000.0 * rng.choice([-1.0, 1.0], size=(rows, t))
        elif kind == "floats":
            a = rng.normal(size=(rows, t))
        else:
            a = rng.normal(size=(rows, t)) * 10.0 ** rng.integers(-6, 7, size=(rows, t))
        return numpy.ascontiguousarray(a, dtype="float64")

    nmisc = int(ms["nmisc"])
    u_misc = None if nmisc == 0 else values(ms["misc_kind"], nmisc)
    beta = values("zeros" if ms["beta_kind"] == "zeros" else "ints", int(ms["nbeta"]))
    if ms["trait"] == "none":
        trait = None
    elif ms["trait"] == "names":
        trait = numpy.array(["t%d" % i for i in range(t)], dtype=object)
    else:
        trait = numpy.array([("yield (kg/ha)", "prot\u00e9ine", "")[i % 3] for i in range(t)], dtype=object)
    hyper = {"none": None, "empty": {}, "some": {"lambda": 0.25, "nfolds": 5, "grid": [0.1, 1.0]}}[ms["hyperparams"]]
    if ms["cls"] == "AD":
        u_d = None if ms["dom_kind"] == "none" else values("ints", p) * 3.0 + 0.5
        return DenseAdditiveDominanceLinearGenomicModel(beta=beta, u_misc=u_misc, u_a=u.copy(), u_d=u_d, trait=trait,
                                                        model_name=ms["model_name"], hyperparams=hyper)
    return DenseAdditiveLinearGenomicModel(beta=beta, u_misc=u_misc, u_a=u.copy(), trait=trait,
                                           model_name=ms["model_name"], hyperparams=hyper)


def label_model(ctx, ms, where):
    """generator statistics of the model's optional components; ``where`` = routine / class the model is handed to"""
    misc = int(ms["nmisc"]) > 0
    ctx.label("model_u_misc_present", misc)
    ctx.label("model_u_misc_present:" + where, misc)
    ctx.label("model_u_misc_absent:" + where, not misc)
    ctx.label("model_u_misc_rows=%d" % int(ms["nmisc"]))
    ctx.label("model_several_fixed_effect_rows", int(ms["nbeta"]) > 1)
    ctx.label("model_nonzero_fixed_effects", ms["beta_kind"] != "zeros")
    ctx.label("model_class=additive+dominance", ms["cls"] == "AD")
    ctx.label("model_class=additive+dominance_with_u_misc", ms["cls"] == "AD" and misc)
    ctx.label("model_nonzero_dominance_effects", ms["cls"] == "AD" and ms["dom_kind"] != "none")
    ctx.label("model_trait_names_absent", ms["trait"] == "none")
    ctx.label("model_name_given", ms["model_name"] is not None)
    ctx.label("model_hyperparams_given", ms["hyperparams"] != "none")
    ctx.label("model_all_optional_arguments_default", not misc and ms["cls"] == "A" and ms["trait"] == "none"
              and ms["model_name"] is None and ms["hyperparams"] == "none")


def ref_blockvalues(geno, u, labels, nblocks):
    """bv[ph][i][b][t] by math.fsum over the markers carrying label b; absS = largest sum of |terms| of a haplotype"""
    m, n, p = geno.shape
    t = u.shape[1]
    members = [[j for j in range(p) if labels[j] == b] for b in range(nblocks)]
    bv = [[[[math.fsum(float(geno[ph, i, j]) * float(u[j, k]) for j in members[b]) for k in range(t)]
            for b in range(nblocks)] for i in range(n)] for ph in range(m)]
    return bv


def hap_totals(geno, u):
    m, n, p = geno.shape
    t = u.shape[1]
    tot = [[[math.fsum(float(geno[ph, i, j]) * float(u[j, k]) for j in range(p)) for k in range(t)]
            for i in range(n)] for ph in range(m)]
    return tot


def abs_scale(u):
    """sum of absolute values of the terms of the largest possible haplotype sum, per trait"""
    return [math.fsum(abs(float(x)) for x in u[:, k]) for k in range(u.shape[1])]


def prepare(case, ctx):
    chroms = positions_of(case["layout"])
    nchr = len(chroms)
    p = sum(len(ch) for ch in chroms)
    total = total_blocks(case["nb"], nchr, p)
    lens = [len(ch) for ch in chroms]
    info = {"chroms": chroms, "nchr": nchr, "p": p, "total": total, "lens": lens, "valid": False, "sig": False}
    ctx.label("nhaploblk=nchr", total == nchr)
    ctx.label("nhaploblk=nmarkers", total == p)
    ctx.label("nhaploblk<nchr", total < nchr)
    ctx.label("nhaploblk>nmarkers", total > p)
    ctx.label("zero_length_chromosome", any(ch[-1] == ch[0] and len(ch) > 1 for ch in chroms))
    ctx.label("zero_length_genome", all(ch[-1] == ch[0] for ch in chroms))
    if total < nchr:
        return info
    nblk = ref_apportion(total, chroms)
    info["nblk"] = nblk
    info["overflow"] = any(nblk[c] > lens[c] for c in range(nchr))
    ctx.label("rejected_more_blocks_than_markers_on_a_chromosome", info["overflow"])
    if info["overflow"]:
        return info
    labels, empty, boundary = ref_labels(chroms, nblk)
    info.update(valid=True, labels=labels, empty=empty, sig=bool(empty), boundary=boundary)
    ctx.label("empty_equal_width_bin", info["sig"])
    ctx.label("marker_on_inner_boundary", boundary)
    ctx.label("marker_on_inner_boundary_and_all_bins_used", boundary and not info["sig"])
    ctx.label(">=2_blocks_on_a_chromosome", any(b >= 2 for b in nblk))
    ctx.label("full_oracle(all_bins_used)_and_>=2_blocks_on_a_chromosome", any(b >= 2 for b in nblk) and not info["sig"])
    ctx.label("full_oracle_and_>=2_chromosomes_and_>=2_blocks_on_one", any(b >= 2 for b in nblk) and not info["sig"] and nchr >= 2)
    ctx.nontrivial(any(b >= 2 for b in nblk) and not info["sig"])
    return info


# ----------------------------------------------------------------------------------------------------------------------
# sub-check: apportion
# ----------------------------------------------------------------------------------------------------------------------
def check_apportion(case, ctx):
    chroms = positions_of(case["layout"])
    nchr = len(chroms)
    p = sum(len(ch) for ch in chroms)
    total = total_blocks(case["nb"], nchr, p)
    genpos, stix, spix, lens = flat_arrays(chroms)
    ctx.label("nchr=%d" % nchr)
    ctx.label("nhaploblk<nchr", total < nchr)
    ctx.label("nhaploblk=nchr", total == nchr)
    ctx.label("nhaploblk=nmarkers", total == p)
    genlen = [Fraction(ch[-1]) - Fraction(ch[0]) for ch in chroms]
    ctx.label("zero_length_genome", sum(genlen) == 0)
    ctx.label("some_zero_length_chromosome", any(g == 0 for g in genlen) and sum(genlen) != 0)
    snap = genpos.copy()
    if total < nchr:
        # fewer blocks than chromosomes cannot give every chromosome a block: documented ValueError
        if not ctx.known("F-C18-b", True):
            try:
                with poisoned():
                    H.nhaploblk_chrom(total, genpos, stix, spix)
            except ValueError:
                pass
            else:
                ctx.fail("apportion.too_few_blocks_accepted", "nhaploblk=%d nchr=%d returned normally" % (total, nchr))
        return
    with poisoned():
        out = H.nhaploblk_chrom(total, genpos, stix, spix)
    ctx.nontrivial(total > nchr and nchr > 1)
    ctx.check(isinstance(out, numpy.ndarray) and out.shape == (nchr,) and out.dtype.kind in "iu", "apportion.shape_dtype",
              lambda: "%r" % (out,))
    got = [int(x) for x in out]
    ctx.check(all(x >= 1 for x in got), "apportion.every_chromosome_at_least_one_block", lambda: str(got))
    ctx.check(sum(got) == total, "apportion.uses_exactly_requested_total", lambda: "%s sums to %d, requested %d" % (got, sum(got), total))
    tot = sum(genlen)
    if tot != 0:
        # share by genetic length: a chromosome that received extra blocks was below its share when it received the last
        for c in range(nchr):
            ideal = Fraction(total) * genlen[c] / tot
            # informational only: the property promises >= 1 per chromosome and the exact total, not a particular
            # apportionment rule, so a different (valid) rule must not raise an alarm
            ctx.label("info:apportion_above_share_by_length", not (got[c] == 1 or got[c] < ideal + 1))
    ref = ref_apportion(total, chroms)
    ctx.label("info:apportion_differs_from_greedy_reference", got != ref)
    ctx.check((genpos == snap).all(), "apportion.input_mutated")


# ----------------------------------------------------------------------------------------------------------------------
# sub-check: bins
# ----------------------------------------------------------------------------------------------------------------------
def check_bins(case, ctx):
    chroms = positions_of(case["layout"])
    nchr = len(chroms)
    genpos, stix, spix, lens = flat_arrays(chroms)
    p = len(genpos)
    if case["nblk_mode"] == "one":
        nblk = [1] * nchr
    elif case["nblk_mode"] == "all":
        nblk = [len(ch) for ch in chroms]
    else:
        nblk = [1 + int(r) % len(ch) for r, ch in zip(case["nblk_raw"], chroms)]
    total = sum(nblk)
    ref, empty, boundary = ref_labels(chroms, nblk)
    sig = bool(empty)
    ctx.label("empty_equal_width_bin", sig)
    ctx.label("marker_on_inner_boundary", boundary)
    ctx.label("marker_on_inner_boundary_and_all_bins_used", boundary and not sig)
    ctx.label("nblk=markers_on_every_chromosome", all(b == len(ch) for b, ch in zip(nblk, chroms)))
    ctx.label("one_block_per_chromosome", all(b == 1 for b in nblk))
    ctx.label("zero_length_chromosome_with_>1_block", any(ch[-1] == ch[0] and b > 1 for b, ch in zip(nblk, chroms)))
    ctx.nontrivial(any(b >= 2 for b in nblk))

    with poisoned():
        hb = H.haplobin(numpy.array(nblk, dtype="int64"), genpos, stix, spix)
    ctx.check(isinstance(hb, numpy.ndarray) and hb.shape == (p,) and hb.dtype.kind in "iu", "haplobin.shape_dtype",
              lambda: "%r" % (hb,))
    got = [int(x) for x in hb]
    # every marker assigned to exactly one of the requested blocks
    ctx.check(all(0 <= x < total for x in got), "haplobin.every_marker_assigned_a_requested_block",
              lambda: "labels %s, %d blocks requested" % (got, total))
    # ordered
    ctx.check(all(got[i] <= got[i + 1] for i in range(p - 1)), "haplobin.labels_non_decreasing", lambda: str(got))
    # within chromosomes: the label ranges of the chromosomes are the consecutive ranges given by nblk
    base = 0
    within = True
    for c in range(nchr):
        seg = got[int(stix[c]):int(spix[c])]
        if not all(base <= x < base + nblk[c] for x in seg):
            within = False
        base += nblk[c]
    ctx.check(within, "haplobin.block_spans_chromosomes_or_wrong_chromosome_range",
              lambda: "labels %s nblk %s chromosome lengths %s" % (got, nblk, [len(ch) for ch in chroms]))
    # exactly the requested total is used  (this is the clause F-C18-a breaks)
    if not ctx.known("F-C18-a", sig):
        ctx.check(len(set(got)) == total, "haplobin.uses_exactly_requested_total",
                  lambda: "genpos %s nblk %s -> labels %s use %d distinct blocks, %d requested" % (
                      [list(ch) for ch in chroms], nblk, got, len(set(got)), total))
    # equal-width reference; only where every bin holds a marker (what a bin-less block should become is not specified)
    if not sig:
        # informational only: which side a marker lying exactly on a bin boundary goes to is not part of the property
        ctx.label("info:binning_differs_from_equal_width_reference", got != ref)

    # bounds = run-length encoding of the labels
    for name, lab in (("own", got), ("free", None)):
        if lab is None:
            lab = []
            x = 0
            for r in case["free_labels"]:
                x += (0, 0, 0, 1, 1, 2, 5)[int(r)]
                lab.append(x)
        with poisoned():
            b = H.haplobin_bounds(numpy.array(lab, dtype="int64"))
        ctx.check(isinstance(b, tuple) and len(b) == 3, "bounds.returns_triple")
        hst, hsp, hln = b
        rst, rsp = rle(lab)
        ctx.check([int(x) for x in hst] == rst and [int(x) for x in hsp] == rsp, "bounds.run_length_encoding",
                  lambda: "labels %s: got %s / %s expected %s / %s" % (lab, list(hst), list(hsp), rst, rsp))
        ctx.check([int(x) for x in hln] == [b_ - a_ for a_, b_ in zip(rst, rsp)], "bounds.lengths",
                  lambda: "labels %s lengths %s" % (lab, list(hln)))
        ctx.check(sum(int(x) for x in hln) == len(lab) and all(int(x) >= 1 for x in hln), "bounds.cover_every_marker_once")


# ----------------------------------------------------------------------------------------------------------------------
# sub-check: haplomat
# ----------------------------------------------------------------------------------------------------------------------
REJECT = (RuntimeError, ValueError)


def call_haplomat(impl, total, geno, u, chroms, ms=None, ohvcls="Subset"):
    genpos, stix, spix, lens = flat_arrays(chroms)
    if impl == "haplo":
        return H.haplomat(total, geno.copy(), genpos, stix, spix, lens, u.copy())
    pg = build_pgmat(geno, chroms)
    gm = build_gpmod(u, ms)
    if impl == "ohv":
        return getattr(OHVM, "OptimalHaploidValue%sSelectionProblem" % ohvcls)._calc_haplomat(pg, gm, total)
    if impl == "opv":
        return OPVP._calc_haplomat(pg, gm, total)
    return GBP._calc_haplomat(pg, gm, total)


def check_blockmatrix(hm, geno, u, info, ctx, prefix):
    """clauses about an (m,n,b,t) block-value array; returns True when the values may be used further"""
    m, n, p = geno.shape
    t = u.shape[1]
    total = info["total"]
    ok = ctx.check(isinstance(hm, numpy.ndarray) and hm.shape == (m, n, total, t), prefix + ".shape",
                   lambda: "shape %s expected %s" % (getattr(hm, "shape", None), (m, n, total, t)))
    if not ok:
        return False
    scale = abs_scale(u)
    known = ctx.known("F-C18-a", info["sig"])
    if not known:
        fin = bool(numpy.isfinite(hm).all())
        ctx.check(fin, prefix + ".every_block_value_written_and_finite",
                  lambda: "genpos %s nhaploblk %d: %d of %d entries are NaN/inf (never written); blocks with unwritten entries: %s" % (
                      [list(ch) for ch in info["chroms"]], total, int((~numpy.isfinite(hm)).sum()), hm.size,
                      sorted(set(numpy.nonzero(~numpy.isfinite(hm))[2].tolist()))))
        tot = hap_totals(geno, u)
        for ph in range(m):
            for i in range(n):
                for k in range(t):
                    s = math.fsum(float(x) for x in hm[ph, i, :, k])
                    tol = 8 * (p + total) * EPS * scale[k]
                    ctx.check(abs(s - tot[ph][i][k]) <= tol, prefix + ".blocks_sum_to_haplotype_value",
                              lambda: "phase %d taxon %d trait %d: blocks %s sum to %r, haplotype value %r" % (
                                  ph, i, k, hm[ph, i, :, k].tolist(), s, tot[ph][i][k]))
    if info["sig"]:
        return False
    bv = ref_blockvalues(geno, u, info["labels"], total)
    for ph in range(m):
        for i in range(n):
            for b in range(total):
                for k in range(t):
                    tol = 8 * p * EPS * scale[k]
                    ctx.check(abs(float(hm[ph, i, b, k]) - bv[ph][i][b][k]) <= tol, prefix + ".block_value",
                              lambda: "phase %d taxon %d block %d trait %d: %r expected %r (labels %s)" % (
                                  ph, i, b, k, float(hm[ph, i, b, k]), bv[ph][i][b][k], info["labels"]))
    return True


def check_haplomat(case, ctx):
    info = prepare(case, ctx)
    chroms, total, p = info["chroms"], info["total"], info["p"]
    geno = build_geno(case["g"], p)
    u = build_u(case["g"], p)
    impl = case["impl"]
    ctx.label("impl=" + impl)
    ms = model_spec_of(case["g"])
    if impl != "haplo":                              # haplo.haplomat takes the effect matrix itself, no model
        label_model(ctx, ms, impl)
    gsnap, usnap = geno.copy(), u.copy()
    try:
        with poisoned():
            hm = call_haplomat(impl, total, geno, u, chroms, ms, case.get("ohvcls", "Subset"))
    except REJECT as e:
        if total < info["nchr"]:
            return                                  # documented rejection
        if info.get("overflow"):
            return                                  # documented rejection (more blocks than markers on a chromosome)
        ctx.fail("haplomat.valid_input_rejected", "%s: %s (nhaploblk %d, per chromosome %s, markers %s)" % (
            type(e).__name__, e, total, info.get("nblk"), info["lens"]))
        return
    if total < info["nchr"]:
        ctx.fail("haplomat.too_few_blocks_accepted", "nhaploblk=%d < nchr=%d returned normally" % (total, info["nchr"]))
        return
    if info.get("overflow"):
        ctx.fail("haplomat.more_blocks_than_markers_accepted", "per chromosome %s, markers %s" % (info["nblk"], info["lens"]))
        return
    check_blockmatrix(hm, geno, u, info, ctx, "haplomat")
    ctx.check((geno == gsnap).all() and (u == usnap).all(), "haplomat.input_mutated")


# ----------------------------------------------------------------------------------------------------------------------
# sub-check: ohv
# ----------------------------------------------------------------------------------------------------------------------
def ref_xmap(n, d, unique):
    it = itertools.combinations(range(n), d) if unique else itertools.combinations_with_replacement(range(n), d)
    return [list(x) for x in it]


def check_ohv(case, ctx):
    info = prepare(case, ctx)
    if not info["valid"]:
        ctx.label("not_evaluated(rejected_layout)")
        # the constructor must reject, not return numbers
        chroms, p = info["chroms"], info["p"]
        geno, u = build_geno(case["g"], p), build_u(case["g"], p)
        try:
            with poisoned():
                OHVM.OptimalHaploidValueSubsetSelectionProblem._calc_haplomat(
                    build_pgmat(geno, chroms), build_gpmod(u, model_spec_of(case["g"])), info["total"])
        except REJECT:
            return
        ctx.fail("ohv.more_blocks_than_markers_accepted", "per chromosome %s, markers %s" % (info.get("nblk"), info["lens"]))
        return
    chroms, total, p = info["chroms"], info["total"], info["p"]
    g = case["g"]
    geno, u = build_geno(g, p), build_u(g, p)
    m, n, t = g["ploidy"], g["ntaxa"], g["ntrait"]
    d = int(case["nparent"])
    unique = bool(case["unique"])
    if unique and d > n:
        d = n
    xm = ref_xmap(n, d, unique)
    ctx.label("cls=" + case["cls"])
    ctx.label("protocol_cls=" + case.get("protocol_cls", "Subset"), case["cls"] == "protocol")
    ctx.label("nparent=%d" % d)
    ctx.label("selfing_configs", not unique)
    ms = model_spec_of(g)
    label_model(ctx, ms, case["cls"])
    pg, gm = build_pgmat(geno, chroms), build_gpmod(u, ms)
    nx = len(xm)
    with poisoned():
        if case["cls"] == "protocol":
            pcls = getattr(OHVPROT, "OptimalHaploidValue%sSelection" % case.get("protocol_cls", "Subset"))
            prot = pcls(ntrait=t, nhaploblk=total, unique_parents=unique, ncross=1, nparent=d, nmating=1, nprogeny=1, nobj=t)
            prob = prot.problem(pg, None, None, None, gm, 0, 1)
        else:
            cls = getattr(OHVM, "OptimalHaploidValue%sSelectionProblem" % case["cls"])
            if case["cls"] == "Subset":
                kw = dict(ndecn=1, decn_space=numpy.arange(nx), decn_space_lower=numpy.array([0]),
                          decn_space_upper=numpy.array([nx - 1]))
            else:
                lo, up = numpy.zeros(nx), numpy.ones(nx)
                if case["cls"] != "Real":
                    lo, up = lo.astype("int64"), up.astype("int64")
                kw = dict(ndecn=nx, decn_space=numpy.stack([lo, up]), decn_space_lower=lo, decn_space_upper=up)
            prob = cls.from_pgmat_gpmod(nparent=d, nhaploblk=total, unique_parents=unique, pgmat=pg, gpmod=gm, nobj=t, **kw)
    ohv = prob.ohvmat
    gxm = numpy.asarray(prob.decn_space_xmap).tolist()
    ctx.check(gxm == xm, "ohv.cross_map", lambda: "xmap %s expected %s" % (gxm, xm))
    ok = ctx.check(isinstance(ohv, numpy.ndarray) and ohv.shape == (nx, t), "ohv.shape",
                   lambda: "%s expected %s" % (getattr(ohv, "shape", None), (nx, t)))
    if not ok or gxm != xm:
        return
    known = ctx.known("F-C18-a", info["sig"])
    if not known:
        ctx.check(bool(numpy.isfinite(ohv).all()), "ohv.finite_for_valid_input",
                  lambda: "genpos %s nhaploblk %d: ohvmat %s" % ([list(ch) for ch in chroms], total, ohv.tolist()))
    if info["sig"]:
        return
    labels = info["labels"]
    bv = ref_blockvalues(geno, u, labels, total)
    scale = abs_scale(u)
    tot = hap_totals(geno, u)
    members = [[j for j in range(p) if labels[j] == b] for b in range(total)]
    rng = numpy.random.default_rng(case["dhseed"])
    for ci, par in enumerate(xm):
        sources = [(ph, i) for i in par for ph in range(m)]
        nchoice = len(sources) ** total
        exhaustive = nchoice <= 256
        ctx.label("dh_enumeration_exhaustive", exhaustive)
        for k in range(t):
            tol = 8 * (p + total) * EPS * scale[k] * m
            ref = m * math.fsum(max(bv[ph][i][b][k] for (ph, i) in sources) for b in range(total))
            got = float(ohv[ci, k])
            ctx.check(abs(got - ref) <= tol, "ohv.value", lambda: "cross %s trait %d: ohv %r expected %r (labels %s)" % (
                par, k, got, ref, labels))
            # whole parental haplotypes are block-boundary recombinants too
            for (ph, i) in sources:
                ctx.check(got >= m * tot[ph][i][k] - tol, "ohv.at_least_doubled_parental_haplotype",
                          lambda: "cross %s trait %d: ohv %r < %d * haplotype value %r" % (par, k, got, m, tot[ph][i][k]))
            # doubled haploids that recombine only at block boundaries, evaluated marker by marker
            if exhaustive:
                choices = itertools.product(range(len(sources)), repeat=total)
            else:
                choices = (tuple(int(x) for x in rng.integers(0, len(sources), size=total)) for _ in range(24))
            best = None
            for ch in choices:
                val = m * math.fsum(float(geno[sources[ch[b]][0], sources[ch[b]][1], j]) * float(u[j, k])
                                    for b in range(total) for j in members[b])
                ctx.check(got >= val - tol, "ohv.at_least_block_boundary_doubled_haploid",
                          lambda: "cross %s trait %d: ohv %r < doubled haploid %r built from sources %s" % (
                              par, k, got, val, [sources[c_] for c_ in ch]))
                best = val if best is None else max(best, val)
            if exhaustive:
                ctx.check(abs(best - got) <= tol, "ohv.attained_by_best_block_boundary_doubled_haploid",
                          lambda: "cross %s trait %d: ohv %r, best doubled haploid %r" % (par, k, got, best))
    # chunk size is an implementation detail
    hm = numpy.array(bv, dtype="float64")
    with poisoned():
        alt = OHVM.OptimalHaploidValueSubsetSelectionProblem._calc_ohvmat(m, hm, numpy.array(xm, dtype="int64"), mem=case["mem"])
    ctx.check(alt.shape == ohv.shape and bool(numpy.all(numpy.abs(alt - ohv) <= 8 * (p + total) * EPS * m * max(scale + [0.0]))),
              "ohv.independent_of_mem_chunk", lambda: "mem=%r: %s vs %s" % (case["mem"], alt.tolist(), ohv.tolist()))


# ----------------------------------------------------------------------------------------------------------------------
# sub-check: opv
# ----------------------------------------------------------------------------------------------------------------------
def check_opv(case, ctx):
    info = prepare(case, ctx)
    if not info["valid"]:
        ctx.label("not_evaluated(rejected_layout)")
        return
    chroms, total, p = info["chroms"], info["total"], info["p"]
    g = case["g"]
    geno, u = build_geno(g, p), build_u(g, p)
    m, n, t = g["ploidy"], g["ntaxa"], g["ntrait"]
    x = []
    for r in case["sel"]:                      # a subset: distinct members, order as drawn
        if int(r) % n not in x:
            x.append(int(r) % n)
    k_sel = len(x)
    ctx.label("selected=%d" % k_sel)
    ctx.label("selected_all_taxa", k_sel == n)
    nbest = 1 + int(case["nbest_raw"]) % k_sel
    ms = model_spec_of(g)
    label_model(ctx, ms, "opv+gb")
    pg, gm = build_pgmat(geno, chroms), build_gpmod(u, ms)
    common = dict(ndecn=k_sel, decn_space=numpy.arange(n), decn_space_lower=numpy.repeat(0, k_sel),
                  decn_space_upper=numpy.repeat(n - 1, k_sel), nobj=t)
    with poisoned():
        opv = OPVP.from_pgmat_gpmod(nhaploblk=total, pgmat=pg, gpmod=gm, **common)
        gb = GBP.from_pgmat_gpmod(pgmat=pg, gpmod=gm, nhaploblk=total, nbestfndr=nbest, **common)
        xa = numpy.array(x, dtype="int64")
        lo = opv.latentfn(xa)
        lg = gb.latentfn(xa)
    use1 = check_blockmatrix(opv.haplomat, geno, u, info, ctx, "opv.haplomat")
    use2 = check_blockmatrix(gb.haplomat, geno, u, info, ctx, "gb.haplomat")
    ok = ctx.check(numpy.shape(lo) == (t,) and numpy.shape(lg) == (t,), "opv.latent_shape",
                   lambda: "%s %s" % (numpy.shape(lo), numpy.shape(lg)))
    if not ok:
        return
    if not ctx.known("F-C18-a", info["sig"]):
        ctx.check(bool(numpy.isfinite(lo).all()), "opv.finite_for_valid_input",
                  lambda: "genpos %s nhaploblk %d: latent %s" % ([list(ch) for ch in chroms], total, numpy.asarray(lo).tolist()))
        ctx.check(bool(numpy.isfinite(lg).all()), "gb.finite_for_valid_input",
                  lambda: "genpos %s nhaploblk %d: latent %s" % ([list(ch) for ch in chroms], total, numpy.asarray(lg).tolist()))
    if info["sig"] or not (use1 and use2):
        return
    bv = ref_blockvalues(geno, u, info["labels"], total)
    scale = abs_scale(u)
    tot = hap_totals(geno, u)
    for k in range(t):
        tol = 8 * (p + total) * EPS * scale[k] * m
        ref = m * math.fsum(max(bv[ph][i][b][k] for i in x for ph in range(m)) for b in range(total))
        got = -float(lo[k])
        ctx.check(abs(got - ref) <= tol, "opv.value", lambda: "selection %s trait %d: opv %r expected %r" % (x, k, got, ref))
        # a population value bounds every haplotype it contains, and every cross among its members
        for i in x:
            for ph in range(m):
                ctx.check(got >= m * tot[ph][i][k] - tol, "opv.at_least_doubled_member_haplotype",
                          lambda: "opv %r < %d * %r" % (got, m, tot[ph][i][k]))
        members = sorted(set(x))
        for a in members:
            for b_ in members:
                ohv_ab = m * math.fsum(max(bv[ph][i][b][k] for i in (a, b_) for ph in range(m)) for b in range(total))
                ctx.check(got >= ohv_ab - tol, "opv.at_least_ohv_of_member_cross")
        # genotype builder: per block, mean of the nbest largest best-phase values among the selected
        refg = 0.0
        terms = []
        for b in range(total):
            best = sorted(max(bv[ph][i][b][k] for ph in range(m)) for i in x)
            terms.extend(best[len(best) - nbest:])
        refg = (m / nbest) * math.fsum(terms)
        gotg = -float(lg[k])
        ctx.check(abs(gotg - refg) <= tol * k_sel, "gb.value",
                  lambda: "selection %s nbest %d trait %d: gb %r expected %r" % (x, nbest, k, gotg, refg))
        ctx.check(gotg <= got + tol * k_sel, "gb.not_above_opv")
        if nbest == 1:
            ctx.check(abs(gotg - got) <= tol * k_sel, "gb.equals_opv_when_one_founder")


# ----------------------------------------------------------------------------------------------------------------------
# sub-check: history (one problem object: use, modify through the public setters, use again)
# ----------------------------------------------------------------------------------------------------------------------
def block_state(chroms, total, g, gspec, p):
    """harness-side state after (re)assignment: genotypes, effects, partition, block values -- from the case only.

    A bin that receives no marker gets the value of the empty sum, 0.0, for every chromosome copy (the block values are
    produced by the harness here and handed to the object through its public constructor / setter)."""
    spec = dict(g)
    spec.update(gspec)
    return block_state_arrays(chroms, total, build_geno(spec, p), build_u(spec, p))


def block_state_arrays(chroms, total, geno, u):
    nblk = ref_apportion(total, chroms)
    labels, empty, _ = ref_labels(chroms, nblk)
    bv = ref_blockvalues(geno, u, labels, total)
    return {"geno": geno, "u": u, "total": total, "labels": labels, "bv": bv, "empty": bool(empty),
            "hm": numpy.array(bv, dtype="float64"), "scale": abs_scale(u), "tot": hap_totals(geno, u)}


def check_history(case, ctx):
    chroms = positions_of(case["layout"])
    nchr = len(chroms)
    lens = [len(ch) for ch in chroms]
    p = sum(lens)
    g = case["g"]
    m, n, t = g["ploidy"], g["ntaxa"], g["ntrait"]
    kind = case["obj"]
    ctx.label("object=" + kind)

    def admissible(total):
        nb = ref_apportion(total, chroms)
        return all(nb[c] <= lens[c] for c in range(nchr))

    total = total_blocks(case["nb"], nchr, p)
    if not admissible(total):
        total = nchr                                   # one block per chromosome is always admissible
    state = block_state(chroms, total, g, {}, p)
    # cross map of the OHV objects (fixed for the life of the object)
    d = int(case["nparent"])
    unique = bool(case["unique"])
    if unique and d > n:
        d = n
    xm = ref_xmap(n, d, unique)
    nx = len(xm)

    def ref_ohv(stt):
        return [[m * math.fsum(max(stt["bv"][ph][i][b][k] for i in par for ph in range(m)) for b in range(stt["total"]))
                 for k in range(t)] for par in xm]

    # ---- construction --------------------------------------------------------------------------------------------
    # from_pgmat_gpmod only where the library's own partition is fully specified (every equal-width bin holds a marker);
    # otherwise the object is built through its constructor from the harness' block values
    route = case["build"] if not state["empty"] else "constructor"
    ctx.label("built_by=" + route)
    ms = model_spec_of(g)
    if route == "from_pgmat_gpmod":                  # the constructor route takes block values, no model
        label_model(ctx, ms, "history_" + kind)
    nbest = 1 + int(case["nbest_raw"]) % n
    with poisoned():
        if kind in ("opv", "gb"):
            k_dec = n
            common = dict(ndecn=k_dec, decn_space=numpy.arange(n), decn_space_lower=numpy.repeat(0, k_dec),
                          decn_space_upper=numpy.repeat(n - 1, k_dec), nobj=t, obj_wt=1.0)
            if kind == "gb":
                common["nbestfndr"] = nbest
            cls = OPVP if kind == "opv" else GBP
            if route == "from_pgmat_gpmod":
                prob = cls.from_pgmat_gpmod(nhaploblk=total, pgmat=build_pgmat(state["geno"], chroms),
                                            gpmod=build_gpmod(state["u"], ms), **common)
                assigned = None
            else:
                assigned = state["hm"].copy()
                prob = cls(haplomat=assigned, **common)
        else:
            ocls = case["ohvcls"] if route == "from_pgmat_gpmod" else "Subset"
            ctx.label("ohvcls=" + ocls)
            if ocls == "Subset":
                kw = dict(ndecn=1, decn_space=numpy.arange(nx), decn_space_lower=numpy.array([0]),
                          decn_space_upper=numpy.array([nx - 1]))
            else:
                lo, up = numpy.zeros(nx), numpy.ones(nx)
                if ocls != "Real":
                    lo, up = lo.astype("int64"), up.astype("int64")
                kw = dict(ndecn=nx, decn_space=numpy.stack([lo, up]), decn_space_lower=lo, decn_space_upper=up)
            cls = getattr(OHVM, "OptimalHaploidValue%sSelectionProblem" % ocls)
            if route == "from_pgmat_gpmod":
                prob = cls.from_pgmat_gpmod(nparent=d, nhaploblk=total, unique_parents=unique,
                                            pgmat=build_pgmat(state["geno"], chroms), gpmod=build_gpmod(state["u"], ms),
                                            nobj=t, obj_wt=1.0, **kw)
                assigned = None
            else:
                assigned = numpy.array(ref_ohv(state), dtype="float64").reshape(nx, t)
                prob = cls(ohvmat=assigned, decn_space_xmap=numpy.array(xm, dtype="int64").reshape(nx, d), nobj=t,
                           obj_wt=1.0, **kw)
    snap = None if assigned is None else assigned.copy()

    # ---- history -------------------------------------------------------------------------------------------------
    evaluated = False          # the object has been used at least once
    modified_after_use = False
    nsets = 0
    nedits = 0
    edited_after_use = False
    set_after_use = False
    last_change = None
    for op in case["ops"]:
        name = op[0]
        if name == "nbest" and kind != "gb":
            name = "eval"
            op = ["eval", [op[1]], "latentfn"]
        if name == "set":
            raw = op[2]
            newtotal = state["total"]
            if raw is not None:
                cand = nchr + int(raw) % (p - nchr + 1)
                if admissible(cand):
                    newtotal = cand
            ctx.label("set_changes_number_of_blocks", newtotal != state["total"])
            state = block_state(chroms, newtotal, g, op[1], p)
            with poisoned():
                if kind == "ohv":
                    assigned = numpy.array(ref_ohv(state), dtype="float64").reshape(nx, t)
                    prob.ohvmat = assigned
                else:
                    assigned = state["hm"].copy()
                    prob.haplomat = assigned
            snap = assigned.copy()
            nsets += 1
            last_change = "setter"
            edited_after_use = False
            if evaluated:
                modified_after_use = True
                set_after_use = True
            got_attr = prob.ohvmat if kind == "ohv" else prob.haplomat
            ctx.check(isinstance(got_attr, numpy.ndarray) and got_attr.shape == snap.shape and bool((got_attr == snap).all()),
                      "history.getter_returns_assigned_values",
                      lambda: "assigned %s, attribute reads %s" % (snap.tolist(), numpy.asarray(got_attr).tolist()))
            continue
        if name == "edit":
            gspec, via, extent, raw, fac = op[1], op[2], op[3], int(op[4]), float(op[5])
            if via == "buffer" and assigned is None:
                via = "getter"                     # built by from_pgmat_gpmod: the caller never owned the array
            spec = dict(g)
            spec.update(gspec)
            if extent == "replace":                # new genotypes and effects on the same markers and blocks
                new = block_state_arrays(chroms, state["total"], build_geno(spec, p), build_u(spec, p))
                rows = list(range(n))
            elif extent == "partial":              # some taxa replaced by new genotypes, effects unchanged
                rows = sorted(set([raw % n] + [i for i in range(n) if (raw >> (i + 3)) & 1]))
                geno2 = state["geno"].copy()
                geno2[:, rows, :] = build_geno(spec, p)[:, rows, :]
                new = block_state_arrays(chroms, state["total"], geno2, state["u"])
            else:                                  # every block value multiplied by a power of two (= effects scaled)
                if kind == "ohv":
                    fac = abs(fac)                 # an OHV matrix scales with the effects only for a positive factor
                new = block_state_arrays(chroms, state["total"], state["geno"], state["u"] * fac)
                rows = list(range(n))
            want = numpy.array(ref_ohv(new), dtype="float64").reshape(nx, t) if kind == "ohv" else new["hm"]
            old = (prob.ohvmat if kind == "ohv" else prob.haplomat).copy()
            target = assigned if via == "buffer" else (prob.ohvmat if kind == "ohv" else prob.haplomat)
            writable = isinstance(target, numpy.ndarray) and target.flags.writeable and target.shape == want.shape
            ctx.label("inplace_edit_target_not_writable", not writable)
            if not writable:
                continue

            def write(arr):
                if extent == "scale":
                    arr *= fac                     # `arr` is a local name: no setter is involved
                elif extent == "partial" and kind != "ohv":
                    arr[:, rows, :, :] = want[:, rows, :, :]
                elif extent == "partial":
                    for r in range(nx):
                        if any(i in rows for i in xm[r]):
                            arr[r, :] = want[r, :]
                else:
                    arr[...] = want

            shown = old.copy()                     # what the attribute shows if the object holds the edited array
            write(shown)
            write(target)
            del target
            # what the object holds now is what its public attribute shows
            cur = prob.ohvmat if kind == "ohv" else prob.haplomat
            if not (isinstance(cur, numpy.ndarray) and cur.shape == want.shape):
                ctx.label("inplace_edit_outcome_undetermined")
                return
            if bool((cur == shown).all()):
                state = new
                ctx.label("inplace_edit_shown_by_getter")
            elif bool((cur == old).all()):
                ctx.label("inplace_edit_not_shown_by_getter(object_holds_a_copy)")
            else:
                ctx.label("inplace_edit_outcome_undetermined")
                return
            snap = cur.copy()
            if assigned is not None and not bool((assigned == snap).all()):
                assigned = None                    # the object holds a copy: only the attribute is compared from now on
            nedits += 1
            last_change = "inplace_edit(%s,%s)" % (via, extent)
            ctx.label("inplace_edit_via=" + via)
            ctx.label("inplace_edit_extent=" + extent)
            ctx.label("inplace_edit_changes_values", not bool((old == cur).all()))
            if evaluated:
                modified_after_use = True
                edited_after_use = True
            continue
        if name == "nbest":
            nbest = 1 + int(op[1]) % n
            with poisoned():
                prob.nbestfndr = nbest
            if evaluated:
                modified_after_use = True
            ctx.label("nbestfndr_assigned_after_use", evaluated)
            continue
        # ---- evaluate ----
        via = op[2]
        ctx.label("via=" + via)
        bv, scale, tot, total = state["bv"], state["scale"], state["tot"], state["total"]
        after = ("after_" + last_change) if last_change else "as_built"
        if kind == "ohv":
            ci = int(op[1][0]) % nx
            if prob.__class__.__name__.startswith("OptimalHaploidValueSubset"):
                xa = numpy.array([ci], dtype="int64")
            else:
                xa = numpy.zeros(nx, dtype="float64" if "Real" in prob.__class__.__name__ else "int64")
                xa[ci] = 1
        else:
            x = []
            for r in op[1]:
                if int(r) % n not in x:
                    x.append(int(r) % n)
            if kind == "gb":
                for i in range(n):                  # the builder needs at least nbestfndr selected members
                    if len(x) >= nbest:
                        break
                    if i not in x:
                        x.append(i)
            xa = numpy.array(x, dtype="int64")
        with poisoned():
            if via == "evalfn":
                res = prob.evalfn(xa)
                lat = res[0]
            else:
                lat = prob.latentfn(xa)
        ctx.label("evaluated_again_after_setter_after_evaluation", set_after_use)
        ctx.label("evaluated_again_after_inplace_edit_after_evaluation", edited_after_use)
        ctx.label("evaluated_again_after_inplace_edit_after_evaluation:" + kind, edited_after_use)
        ctx.nontrivial(modified_after_use)
        evaluated = True
        ok = ctx.check(numpy.shape(lat) == (t,), "history.latent_shape", lambda: "%s" % (numpy.shape(lat),))
        if not ok:
            return
        for k in range(t):
            tol = 8 * (p + total) * EPS * scale[k] * m
            got = -float(lat[k])
            if kind == "ohv":
                ref = ref_ohv(state)[ci][k]
                ctx.check(abs(got - ref) <= tol, "history.ohv_of_single_cross",
                          lambda: "%s, cross %s trait %d: reported %r, ploidy * sum over blocks of the best block value "
                                  "of the CURRENT data %r" % (after, xm[ci], k, got, ref))
                continue
            ref = m * math.fsum(max(bv[ph][i][b][k] for i in x for ph in range(m)) for b in range(total))
            if kind == "opv":
                ctx.check(abs(got - ref) <= tol, "history.opv_value",
                          lambda: "%s, selection %s trait %d: reported %r, ploidy * sum over blocks of the best block "
                                  "value among the selected in the block values the object holds now %r" % (after, x, k, got, ref))
                for i in x:
                    for ph in range(m):
                        ctx.check(got >= m * tot[ph][i][k] - tol, "history.opv_at_least_doubled_member_haplotype",
                                  lambda: "%s: opv %r < %d * haplotype value %r of the current genotypes" % (
                                      after, got, m, tot[ph][i][k]))
            else:
                terms = []
                for b in range(total):
                    best = sorted(max(bv[ph][i][b][k] for ph in range(m)) for i in x)
                    terms.extend(best[len(best) - nbest:])
                refg = (m / nbest) * math.fsum(terms)
                ctx.check(abs(got - refg) <= tol * len(x), "history.gb_value",
                          lambda: "%s, selection %s nbestfndr %d trait %d: reported %r expected %r" % (
                              after, x, nbest, k, got, refg))
                ctx.check(got <= ref + tol * len(x), "history.gb_not_above_opv")
        # evaluation must not alter the block values the object holds
        if snap is not None:
            cur = prob.ohvmat if kind == "ohv" else prob.haplomat
            ctx.check(cur.shape == snap.shape and bool((cur == snap).all())
                      and (assigned is None or bool((assigned == snap).all())),
                      "history.evaluation_altered_block_values")
    ctx.label("history_has_setter", nsets > 0)
    ctx.label("history_has_inplace_edit", nedits > 0)


SUBCHECKS = [
    SubCheck("apportion", check_apportion, apportion_case(), quick=600, thorough=4000, shards_quick=2,
             rule="generated layouts (1-5 chromosomes x 1-10 markers; even / clustered / tied / zero-length / single-marker "
                  "patterns) x requested total (nchr, nmarkers, between, below, above); non-trivial = >=2 chromosomes and "
                  "at least one block to apportion beyond the first per chromosome",
             required_labels=("nhaploblk=nchr", "nhaploblk=nmarkers", "nhaploblk<nchr", "zero_length_genome")),
    SubCheck("bins", check_bins, bins_case(), quick=900, thorough=5000, shards_quick=2,
             rule="generated layouts x per-chromosome block counts in 1..markers; non-trivial = >=2 blocks on a chromosome and every equal-width bin holds a marker (full oracle evaluated)",
             required_labels=("empty_equal_width_bin", "marker_on_inner_boundary_and_all_bins_used",
                              "nblk=markers_on_every_chromosome", "one_block_per_chromosome")),
    SubCheck("haplomat", check_haplomat, haplomat_case(), quick=800, thorough=4000, shards_quick=4,
             rule="layout x total x 0/1 genotypes (ploidy 1-3, 1-5 taxa) x effects (1-3 traits) x implementation x genomic "
                  "model (u_misc 0-3 rows, 1-3 fixed-effect rows, additive / additive+dominance class, optional names); "
                  "non-trivial = >=2 blocks on a chromosome and every equal-width bin holds a marker (full oracle evaluated)",
             required_labels=("empty_equal_width_bin", "marker_on_inner_boundary_and_all_bins_used", "nhaploblk=nchr",
                              "nhaploblk=nmarkers", "impl=haplo", "impl=ohv", "impl=opv", "impl=gb",
                              "model_u_misc_present:ohv", "model_u_misc_present:opv", "model_u_misc_present:gb",
                              "model_u_misc_absent:ohv", "model_u_misc_absent:opv", "model_u_misc_absent:gb",
                              "model_class=additive+dominance_with_u_misc", "model_several_fixed_effect_rows",
                              "model_trait_names_absent", "model_name_given", "model_hyperparams_given")),
    SubCheck("ohv", check_ohv, ohv_case(), quick=400, thorough=2500, shards_quick=4,
             rule="layout (<=3 chromosomes x <=8 markers) x total x genotypes x effects x genomic model (optional components "
                  "absent / present) x problem class or protocol class x nparent 1-3 x "
                  "unique/selfing cross maps; non-trivial = >=2 blocks on a chromosome and every equal-width bin holds a marker (full oracle evaluated)",
             required_labels=("empty_equal_width_bin", "dh_enumeration_exhaustive", "cls=protocol", "cls=Subset",
                              "model_u_misc_present:Subset", "model_u_misc_present:Real", "model_u_misc_present:Integer",
                              "model_u_misc_present:Binary", "model_u_misc_present:protocol", "model_u_misc_absent:Subset",
                              "model_class=additive+dominance", "model_several_fixed_effect_rows",
                              "model_trait_names_absent")),
    SubCheck("opv", check_opv, opv_case(), quick=400, thorough=3000, shards_quick=4,
             rule="layout x total x genotypes x effects x genomic model (optional components absent / present) x selected "
                  "subset (1-5 distinct members) x nbestfndr; "
                  "non-trivial = >=2 blocks on a chromosome and every equal-width bin holds a marker (full oracle evaluated)",
             required_labels=("empty_equal_width_bin", "model_u_misc_present:opv+gb", "model_u_misc_absent:opv+gb",
                              "model_class=additive+dominance", "model_several_fixed_effect_rows")),
    SubCheck("history", check_history, history_case(), quick=300, thorough=2500, shards_quick=4,
             rule="one OPV / GenotypeBuilder / OHV problem object (built by from_pgmat_gpmod or by its constructor) x a history of "
                  "3-9 operations: evaluate (latentfn / evalfn), assign new block values through the public haplomat / ohvmat "
                  "setter (new genotypes and effects, same or new number of blocks), edit the block values in place (through "
                  "the getter's array or the caller's buffer; replace / some taxa / scale), assign nbestfndr; non-trivial = an "
                  "evaluation that follows a modification (setter or in-place) that itself followed an earlier evaluation",
             required_labels=("evaluated_again_after_setter_after_evaluation", "object=opv", "object=gb", "object=ohv",
                              "built_by=from_pgmat_gpmod", "built_by=constructor", "set_changes_number_of_blocks",
                              "via=evalfn", "nbestfndr_assigned_after_use",
                              "evaluated_again_after_inplace_edit_after_evaluation:opv",
                              "evaluated_again_after_inplace_edit_after_evaluation:gb",
                              "evaluated_again_after_inplace_edit_after_evaluation:ohv",
                              "inplace_edit_via=getter", "inplace_edit_via=buffer", "inplace_edit_extent=replace",
                              "inplace_edit_extent=partial", "inplace_edit_extent=scale", "inplace_edit_shown_by_getter",
                              "model_u_misc_present:history_opv", "model_u_misc_present:history_gb",
                              "model_u_misc_present:history_ohv")),
]
