"""C04 -- genomic-model predictions are linear, label-preserving and self-consistent.

Oracle: the documented definitions evaluated in Python on the raw allele calls -- ``math.fsum`` over explicit term
lists for predictions (ulp-scaled tolerance ``k*eps*sum|terms|``), exact rationals for genic variance and allele
statistics, population variance of the oracle values for var_A/var_G.  For rrBLUP: the training mean, exact zeros for
monomorphic markers, the penalised least-squares criterion against the all-zero solution and the residual of the
routine's own penalised normal equations, with a bound derived from the Gauss-Seidel stopping rule (see
``_normal_equation_bound``).
"""
import math
from fractions import Fraction

import numpy
from hypothesis import strategies as st

from pbt import compat  # noqa: F401
from pbt.core import SubCheck

from pybrops.popgen.gmat.DenseGenotypeMatrix import DenseGenotypeMatrix
from pybrops.popgen.gmat.DensePhasedGenotypeMatrix import DensePhasedGenotypeMatrix
from pybrops.popgen.bvmat.DenseGenomicEstimatedBreedingValueMatrix import DenseGenomicEstimatedBreedingValueMatrix
from pybrops.breed.prot.gt.DenseUnphasedGenotyping import DenseUnphasedGenotyping
from pybrops.breed.prot.bv.TrueBreedingValue import TrueBreedingValue
from pybrops.model.gmod.DenseAdditiveLinearGenomicModel import DenseAdditiveLinearGenomicModel
from pybrops.model.gmod.DenseAdditiveDominanceLinearGenomicModel import DenseAdditiveDominanceLinearGenomicModel
from pybrops.model.gmod.rrBLUPModel0 import rrBLUPModel0, rrBLUP_ML0

EPS = 2.220446049250313e-16

ASSUMPTIONS = [
    "allele calls are 0/1 per chromosome copy (phased) or dosages 0..ploidy (unphased / raw arrays)",
    "the GEBV/GEGV location is Xstar @ beta with Xstar = [1, 1/q, ..., 1/q] (q = number of fixed effects), as documented "
    "in the property anchors; q = 1 in most cases",
    "a raw dosage ndarray carries no ploidy: the dominance design of a raw array (dosage == 1) and the default ploidy of "
    "var_a/bulmer are only compared with the genotype-matrix result for diploids; otherwise ploidy is passed explicitly",
    "integer output dtypes are requested only when they can hold ploidy*ntaxa",
    "marker and fixed effects are exactly +-0 or have magnitude in [1e-6, 1e3] (no subnormal numbers)",
    "score: only response matrices whose total sum of squares is well above its own rounding error",
    "rrBLUP normal-equation clause: only n > number of polymorphic markers, bound from the Gauss-Seidel stopping rule",
    "rrBLUP fit on float-coded genotypes: binary64 dosages in [0, ploidy]; a marker is monomorphic iff all its training "
    "records carry the same value (exact comparison), whatever that value is",
]

# sizes d = ploidy*n at which (1.0/d)*d != 1.0 in binary64 (recomputed, not hard-coded)
ROUNDING_D = [d for d in range(1, 500) if (1.0 / d) * d != 1.0]


def rounding_n(ploidy, nmax=110):
    return [d // ploidy for d in ROUNDING_D if d % ploidy == 0 and d // ploidy <= nmax]


# ----------------------------------------------------------------------------------------------------------------------
# generators
# ----------------------------------------------------------------------------------------------------------------------
EFFECT = st.one_of(
    st.sampled_from([0.0, 0.0, 0.0, -0.0, 1.0, -1.0, 0.5, -0.25, 2.0, -3.0, 1e-3, -1e3]),
    # no subnormal / vanishing magnitudes: standardising a trait whose spread is ~1e-320 overflows 1/scale, and
    # ulp-relative error bounds do not hold for subnormal numbers; the linear formula does not care about magnitude
    st.floats(1e-6, 10.0, allow_nan=False, allow_infinity=False, width=64),
    st.floats(-10.0, -1e-6, allow_nan=False, allow_infinity=False, width=64),
)


@st.composite
def geno_strategy(draw, nmax, pmax):
    ploidy = draw(st.sampled_from([2, 2, 2, 1, 4]))
    rset = rounding_n(ploidy)
    n = draw(st.one_of(st.integers(1, 3), st.integers(2, 12), st.integers(2, nmax), st.sampled_from(rset)))
    p = draw(st.one_of(st.integers(1, 3), st.integers(4, pmax)))
    cols = []
    for _ in range(p):
        kind = draw(st.sampled_from(["rand", "rand", "rand", "all0", "all1", "all1", "het", "stripe"]))
        col = {"kind": kind}
        if kind == "rand":
            col["seed"] = draw(st.integers(0, 2 ** 16))
            col["f"] = draw(st.sampled_from([0.1, 0.3, 0.5, 0.5, 0.7, 0.9]))
        nexc = draw(st.integers(0, 2)) if draw(st.booleans()) else 0
        col["exc"] = [[draw(st.integers(0, n - 1)), draw(st.integers(0, ploidy - 1)), draw(st.integers(0, 1))]
                      for _ in range(nexc)]
        cols.append(col)
    return {"ploidy": ploidy, "n": n, "p": p, "cols": cols}


def build_calls(geno):
    """allele calls (ploidy, n, p) of 0/1, deterministic from the case"""
    pl, n, p = geno["ploidy"], geno["n"], geno["p"]
    a = numpy.zeros((pl, n, p), dtype="int8")
    for j, col in enumerate(geno["cols"]):
        k = col["kind"]
        if k == "all1":
            a[:, :, j] = 1
        elif k == "het":
            a[: (pl + 1) // 2, :, j] = 1
        elif k == "stripe":
            a[:, ::2, j] = 1
            a[0, ::3, j] = 0
        elif k == "rand":
            r = numpy.random.default_rng(col["seed"])
            a[:, :, j] = (r.random((pl, n)) < col["f"]).astype("int8")
        for (i, ph, v) in col["exc"]:
            a[ph, i, j] = v
    return a


@st.composite
def model_strategy(draw, p):
    kind = draw(st.sampled_from(["additive", "additive", "dominance", "dominance", "rrblup"]))
    t = draw(st.sampled_from([1, 1, 2, 3]))
    q = draw(st.sampled_from([1, 1, 1, 2, 3]))
    k = draw(st.sampled_from([0, 0, 0, 1, 2]))
    mat = lambda r: [[draw(EFFECT) for _ in range(t)] for _ in range(r)]
    m = {"kind": kind, "t": t, "q": q, "beta": mat(q), "u_misc": mat(k), "u_a": mat(p),
         "u_d": mat(p) if kind == "dominance" else None,
         "u_d_none": draw(st.booleans()) if kind == "dominance" else False,
         "trait": draw(st.sampled_from([None, "names"])),
         # the effects may reach the model through its public setters after the object has already been used with other
         # effects (a re-trained / edited model is still "a linear genomic model with these effects")
         "via_setters": draw(st.sampled_from([False, False, True]))}
    if m["u_d_none"]:
        m["u_d"] = [[0.0] * t for _ in range(p)]
    zero_trait = draw(st.sampled_from([None] * 7 + [0]))
    if zero_trait is not None:
        for row in m["u_a"]:
            row[zero_trait] = 0.0
    return m


@st.composite
def values_case(draw):
    geno = draw(geno_strategy(60, 25))
    n, p = geno["n"], geno["p"]
    return {"geno": geno, "model": draw(model_strategy(p)),
            "taxa": draw(st.sampled_from([None, "unique", "unique", "dup"])),
            "grp": draw(st.sampled_from([None, "values"])),
            "grpvals": [draw(st.integers(0, 3)) for _ in range(min(n, 12))],
            "permseed": draw(st.integers(0, 2 ** 16)),
            "parts": [draw(st.integers(0, 2)) for _ in range(p)],
            "xyseed": draw(st.integers(0, 2 ** 16)),
            "noise": draw(st.sampled_from([0.0, 0.125, 1.0, 8.0])),
            "arrdtype": draw(st.sampled_from(["int8", "int64", "float64"]))}


@st.composite
def alleles_case(draw):
    geno = draw(geno_strategy(60, 25))
    d = geno["ploidy"] * geno["n"]
    ints = ["int64", "int32", "int16"] + (["int8"] if d <= 127 else [])
    model = draw(model_strategy(geno["p"]))
    if geno["p"] >= 4 and draw(st.booleans()):
        # one locus of each class in trait 0, by construction: favourable fixed, deleterious fixed, polymorphic, neutral
        s1, s2 = draw(st.booleans()), draw(st.booleans())
        mag = draw(st.sampled_from([1.0, 0.5, 3.0, 1e-3]))
        geno["cols"][0] = {"kind": "all1" if s1 else "all0", "exc": []}
        model["u_a"][0][0] = mag if s1 else -mag
        geno["cols"][1] = {"kind": "all1" if s2 else "all0", "exc": []}
        model["u_a"][1][0] = -mag if s2 else mag
        geno["cols"][2] = {"kind": "stripe", "exc": []}
        model["u_a"][2][0] = draw(st.sampled_from([mag, -mag]))
        model["u_a"][3][0] = draw(st.sampled_from([0.0, -0.0]))
    return {"geno": geno, "model": model,
            "phased": draw(st.booleans()),
            "cdtype": draw(st.sampled_from([None, None] + ints + ["float64"])),
            "fdtype": draw(st.sampled_from([None, None, "float64", "float32"])),
            "bdtype": draw(st.sampled_from([None, None, "bool", "int8", "int64", "float64"]))}


# ----------------------------------------------------------------------------------------------------------------------
# construction helpers
# ----------------------------------------------------------------------------------------------------------------------
def farr(x, ncol):
    return numpy.array(x, dtype="float64").reshape(len(x), ncol)


def make_model(m, rows=None, zero_beta=False):
    """model object from the case; ``rows`` restricts the marker effects to a subset of markers"""
    t = m["t"]
    beta = farr(m["beta"], t)
    if zero_beta:
        beta = numpy.zeros_like(beta)
    ua = farr(m["u_a"], t)
    ud = farr(m["u_d"], t) if m["u_d"] is not None else None
    if rows is not None:
        ua = ua[rows]
        ud = ud[rows] if ud is not None else None
    if m.get("u_d_none"):
        ud = None           # documented default: dominance effects of zero
    umisc = farr(m["u_misc"], t) if len(m["u_misc"]) else None
    trait = None if m["trait"] is None else numpy.array(["trait%d" % i for i in range(t)], dtype=object)
    def build(beta, umisc, ua, ud):
        if m["kind"] == "additive":
            return DenseAdditiveLinearGenomicModel(beta=beta, u_misc=umisc, u_a=ua, trait=trait)
        if m["kind"] == "rrblup":
            return rrBLUPModel0(beta=beta, u_misc=umisc, u_a=ua, trait=trait, method="ML")
        return DenseAdditiveDominanceLinearGenomicModel(beta=beta, u_misc=umisc, u_a=ua, u_d=ud, trait=trait)

    if not m.get("via_setters"):
        return build(beta, umisc, ua, ud)
    # decoy effects first, use the object once (so that anything it caches is populated), then assign the real effects
    mod = build(beta + 1.0, None if umisc is None else umisc - 2.0, ua * -3.0 + 1.0, None if ud is None else ud + 0.5)
    nfix, nmisc, nmk = beta.shape[0], (0 if umisc is None else umisc.shape[0]), ua.shape[0]
    X0 = numpy.ones((2, nfix))
    Z0 = numpy.ones((2, nmisc + nmk + (nmk if (m["kind"] == "dominance") else 0)))
    try:
        mod.predict_numpy(X0, Z0)
        mod.gebv_numpy(numpy.ones((2, nmk), dtype="int8"))
    except Exception:
        pass
    mod.beta = beta
    if umisc is not None:
        mod.u_misc = umisc
    mod.u_a = ua
    if ud is not None and m["kind"] == "dominance":
        mod.u_d = ud
    return mod


def labels_for(case, n):
    taxa = None
    if case["taxa"] == "unique":
        taxa = numpy.array(["t%03d" % i for i in range(n)], dtype=object)
    elif case["taxa"] == "dup":
        taxa = numpy.array(["t%03d" % (i // 2) for i in range(n)], dtype=object)
    grp = None
    if case["grp"] is not None:
        gv = case["grpvals"]
        grp = numpy.array([gv[i % len(gv)] for i in range(n)], dtype="int64")
    return taxa, grp


def _eq_arr(a, b):
    if a is None or b is None:
        return a is None and b is None
    a, b = numpy.asarray(a), numpy.asarray(b)
    return a.shape == b.shape and bool((a == b).all())


class Oracle:
    """Per-taxon, per-trait values of the linear model from explicit term lists (one fsum each)."""

    def __init__(self, m, dos, ploidy):
        self.t, self.q = m["t"], m["q"]
        self.n, self.p = len(dos), len(dos[0])
        self.dos = dos
        self.ploidy = ploidy
        self.beta, self.ua, self.ud = m["beta"], m["u_a"], m["u_d"]
        t, q = self.t, self.q
        # location = Xstar @ beta, Xstar = [1, 1/q, ..., 1/q]
        self.loc_terms = [[self.beta[0][k]] + [(1.0 / q) * self.beta[r][k] for r in range(1, q)] for k in range(t)]
        self.add_terms = [[[dos[i][j] * self.ua[j][k] for j in range(self.p)] for k in range(t)] for i in range(self.n)]
        if self.ud is not None:
            self.dom_terms = [[[self.ud[j][k] for j in range(self.p) if 0 < dos[i][j] < ploidy] for k in range(t)]
                              for i in range(self.n)]
        else:
            self.dom_terms = [[[] for _ in range(t)] for _ in range(self.n)]

    def table(self, dom, loc):
        """(values, abs-sums) as nested lists [n][t]"""
        val, sab = [], []
        for i in range(self.n):
            rv, rs = [], []
            for k in range(self.t):
                terms = list(self.add_terms[i][k])
                if dom:
                    terms += self.dom_terms[i][k]
                if loc:
                    terms += self.loc_terms[k]
                rv.append(math.fsum(terms))
                rs.append(math.fsum(abs(x) for x in terms))
            val.append(rv)
            sab.append(rs)
        return numpy.array(val).reshape(self.n, self.t), numpy.array(sab).reshape(self.n, self.t)


def popvar(col):
    n = len(col)
    mu = math.fsum(col) / n
    return math.fsum((x - mu) ** 2 for x in col) / n


def check_bvmat(ctx, bv, ref, tol, taxa, grp, trait, what):
    """value + label clauses for one BreedingValueMatrix result"""
    ctx.check(isinstance(bv, DenseGenomicEstimatedBreedingValueMatrix), "%s.type" % what, type(bv).__name__)
    got = bv.unscale()
    ok = got.shape == ref.shape
    ctx.check(ok, "%s.shape" % what, lambda: "%s vs %s" % (got.shape, ref.shape))
    err = numpy.abs(got - ref)
    bad = numpy.argwhere(~(err <= tol))
    ctx.check(len(bad) == 0, "%s.value" % what,
              lambda: "taxon %d trait %d: got %r expected %r (tol %.3g)" % (
                  bad[0][0], bad[0][1], float(got[tuple(bad[0])]), float(ref[tuple(bad[0])]), float(tol[tuple(bad[0])])))
    ctx.check(_eq_arr(bv.taxa, taxa), "%s.taxa" % what, lambda: "%s vs %s" % (bv.taxa, taxa))
    ctx.check(_eq_arr(bv.taxa_grp, grp), "%s.taxa_grp" % what, lambda: "%s vs %s" % (bv.taxa_grp, grp))
    ctx.check(_eq_arr(bv.trait, trait), "%s.trait" % what, lambda: "%s vs %s" % (bv.trait, trait))
    return got


# ----------------------------------------------------------------------------------------------------------------------
# sub-check 1: predicted values, input forms, permutation, partition, variances, Bulmer, score
# ----------------------------------------------------------------------------------------------------------------------
def check_values(case, ctx):
    geno, m = case["geno"], case["model"]
    calls = build_calls(geno)
    pl, n, p = calls.shape
    t, q = m["t"], m["q"]
    d = pl * n
    dosarr = calls.sum(0).astype("int8")
    dos = dosarr.tolist()
    taxa, grp = labels_for(case, n)
    model = make_model(m)
    isdom = m["kind"] == "dominance"
    snap_u = (model.beta.copy(), model.u_a.copy())
    trait = model.trait
    nomisc = len(m["u_misc"]) == 0

    orc = Oracle(m, dos, pl)
    ebv, sbv = orc.table(dom=False, loc=True)          # breeding values (additive + location)
    egv, sgv = orc.table(dom=isdom, loc=True)          # genotypic values
    kk = 8 * (2 * p + q) + 32
    # one tolerance per trait: the scaled representation mixes rows through mean and standard deviation
    tol_bv = numpy.broadcast_to(kk * EPS * sbv.max(0, keepdims=True) + 1e-300, sbv.shape)
    tol_gv = numpy.broadcast_to(kk * EPS * sgv.max(0, keepdims=True) + 1e-300, sgv.shape)

    distinct_rows = len({tuple(r) for r in dos})
    nonzero_effect = any(v != 0.0 for row in m["u_a"] for v in row)
    ctx.nontrivial(distinct_rows >= 2 and nonzero_effect)
    ctx.label(m["kind"])
    ctx.label("effects_assigned_through_setters", bool(m.get("via_setters")))
    ctx.label("ploidy%d" % pl)
    ctx.label("traits%d" % t)
    ctx.label("q_gt_1", q > 1)
    ctx.label("has_u_misc", not nomisc)
    ctx.label("n_in_rounding_set", d in ROUNDING_D)
    ctx.label("single_taxon", n == 1)
    ctx.label("has_heterozygotes", any(0 < v < pl for r in dos for v in r))
    ctx.label("labels_taxa_none", taxa is None)

    gph = DensePhasedGenotypeMatrix(mat=calls.copy(), taxa=taxa, taxa_grp=grp)
    gun = DenseUnphasedGenotyping().genotype(gph)
    gaf = DenseGenotypeMatrix(mat=gph.mat_asformat("{0,1,2}"), taxa=taxa, taxa_grp=grp, ploidy=pl)
    arr = dosarr.astype(case["arrdtype"])
    ctx.check(type(gun) is DenseGenotypeMatrix and gun.ploidy == pl and _eq_arr(gun.mat, dosarr),
              "unphased_projection", "projection of the phased matrix is not its dosage matrix")

    # ---- (1)+(2) gebv / gegv from every input form ---------------------------------------------------------------------
    forms = [("phased", gph, taxa, grp), ("unphased", gun, taxa, grp), ("asformat", gaf, taxa, grp),
             ("ndarray", arr, None, None)]
    for name, obj, tx, gp in forms:
        check_bvmat(ctx, model.gebv(obj), ebv, tol_bv, tx, gp, trait, "gebv.%s" % name)
        if name == "ndarray" and isdom and pl != 2:
            continue      # a raw array has no ploidy; its dominance design is the diploid one
        check_bvmat(ctx, model.gegv(obj), egv, tol_gv, tx, gp, trait, "gegv.%s" % name)
    # breeding-value protocol wrapper
    check_bvmat(ctx, TrueBreedingValue(model).estimate(None, gph), ebv, tol_bv, taxa, grp, trait, "truebv")

    # numpy-level functions (no location)
    e0, s0 = orc.table(dom=False, loc=False)
    g0, sg0 = orc.table(dom=isdom, loc=False)
    r = model.gebv_numpy(arr)
    ctx.check(r.shape == (n, t) and bool((numpy.abs(r - e0) <= kk * EPS * s0 + 1e-300).all()), "gebv_numpy.value")
    D = ((dosarr != 0) & (dosarr != pl))
    Zfull = numpy.concatenate([arr, D.astype(arr.dtype)], axis=1) if isdom else arr
    r = model.gegv_numpy(Zfull)
    ctx.check(r.shape == (n, t) and bool((numpy.abs(r - g0) <= kk * EPS * sg0 + 1e-300).all()), "gegv_numpy.value")

    # ---- permutation equivariance ---------------------------------------------------------------------------------------
    perm = numpy.random.RandomState(case["permseed"]).permutation(n).tolist()
    ctx.label("nonidentity_permutation", perm != list(range(n)))
    ptaxa = None if taxa is None else taxa[perm]
    pgrp = None if grp is None else grp[perm]
    gperm = DensePhasedGenotypeMatrix(mat=calls[:, perm, :].copy(), taxa=ptaxa, taxa_grp=pgrp)
    full = model.gegv(gph).unscale()
    got = check_bvmat(ctx, model.gegv(gperm), egv[perm], tol_gv, ptaxa, pgrp, trait, "permuted.gegv")
    ctx.check(bool((numpy.abs(got - full[perm]) <= 2 * tol_gv).all()), "permuted.commutes")

    # ---- additivity over a marker partition -----------------------------------------------------------------------------
    parts = [[j for j in range(p) if case["parts"][j] == c] for c in range(3)]
    parts = [pt for pt in parts if pt]
    ctx.label("partition_%d_parts" % len(parts))
    tot_bv = numpy.zeros((n, t))
    tot_gv = numpy.zeros((n, t))
    for c, pt in enumerate(parts):
        sub = make_model(m, rows=pt, zero_beta=(c > 0))
        gsub = DensePhasedGenotypeMatrix(mat=calls[:, :, pt].copy(), taxa=taxa, taxa_grp=grp)
        tot_bv += sub.gebv(gsub).unscale()
        tot_gv += sub.gegv(gsub).unscale()
    ctx.check(bool((numpy.abs(tot_bv - model.gebv(gph).unscale()) <= 4 * tol_bv).all()), "partition.gebv_additive")
    ctx.check(bool((numpy.abs(tot_gv - full) <= 4 * tol_gv).all()), "partition.gegv_additive")

    # ---- (3) predict / score ----------------------------------------------------------------------------------------------
    rng = numpy.random.RandomState(case["xyseed"])
    X = numpy.round(rng.normal(size=(n, q)) * 8) / 8
    X[:, 0] = 1.0
    nk = len(m["u_misc"])
    W = numpy.round(rng.normal(size=(n, nk)) * 8) / 8
    Zp = numpy.concatenate([W, Zfull.astype(float)], axis=1)
    ucols = m["u_misc"] + m["u_a"] + (m["u_d"] if isdom else [])
    Xl, Zl = X.tolist(), Zp.tolist()
    yhat = numpy.zeros((n, t))
    syh = numpy.zeros((n, t))
    for i in range(n):
        for k in range(t):
            terms = [Xl[i][r_] * m["beta"][r_][k] for r_ in range(q)] + \
                    [Zl[i][c_] * ucols[c_][k] for c_ in range(len(ucols)) if Zl[i][c_] != 0.0]
            yhat[i, k] = math.fsum(terms)
            syh[i, k] = math.fsum(abs(x) for x in terms)
    tol_y = kk * EPS * syh + 1e-300
    r = model.predict_numpy(X, Zp)
    ctx.check(r.shape == (n, t) and bool((numpy.abs(r - yhat) <= tol_y).all()), "predict_numpy.value",
              lambda: "max err %r" % float(numpy.abs(r - yhat).max()))
    if nomisc:
        tol_yc = numpy.broadcast_to(kk * EPS * syh.max(0, keepdims=True) + 1e-300, syh.shape)
        for name, obj, tx, gp in forms:
            if name == "ndarray" and isdom and pl != 2:
                continue
            check_bvmat(ctx, model.predict(X, obj), yhat, tol_yc, tx, gp, trait, "predict.%s" % name)

    # score: R^2 = 1 - SSE/SST
    Y = yhat + case["noise"] * numpy.round(rng.normal(size=(n, t)) * 16) / 16 + numpy.round(rng.normal(size=(n, t)) * 4) / 4
    Yl = Y.tolist()
    ref_r2, tol_r2 = [], []
    for k in range(t):
        y = [Yl[i][k] for i in range(n)]
        e = [y[i] - float(yhat[i, k]) for i in range(n)]
        de = [float(tol_y[i, k]) + EPS * abs(e[i]) for i in range(n)]
        sse = math.fsum(x * x for x in e)
        dsse = math.fsum(2 * abs(e[i]) * de[i] + de[i] ** 2 for i in range(n)) + (n + 4) * EPS * sse
        mu = math.fsum(y) / n
        dmu = (n + 2) * EPS * max(abs(v) for v in y)
        dv = [v - mu for v in y]
        sst = math.fsum(x * x for x in dv)
        dsst = math.fsum(2 * abs(x) * (dmu + EPS * abs(x)) + (dmu + EPS * abs(x)) ** 2 for x in dv) + (n + 4) * EPS * sst
        if sst > 1e6 * dsst and sst > 0:
            ref_r2.append(1.0 - sse / sst)
            tol_r2.append(4 * ((dsse + (sse / sst) * dsst) / (sst - dsst) + 4 * EPS * (1 + sse / sst)))
        else:
            ref_r2.append(None)
            tol_r2.append(None)
    scorable = all(v is not None for v in ref_r2)
    ctx.label("score_checked", scorable)
    if scorable:
        calls_ = [("score_numpy", lambda: model.score_numpy(Y, X, Zp))]
        if nomisc:
            calls_.append(("score.gmat", lambda: model.score(Y, X, gph)))
            if not (isdom and pl != 2):
                calls_.append(("score.ndarray", lambda: model.score(Y, X, arr)))
        for name, f in calls_:
            r2 = f()
            ctx.check(r2.shape == (t,) and all(abs(float(r2[k]) - ref_r2[k]) <= tol_r2[k] for k in range(t)),
                      "%s.value" % name, lambda: "%s expected %s (tol %s)" % (r2.tolist(), ref_r2, tol_r2))

    # ---- variances, Bulmer -----------------------------------------------------------------------------------------------
    smax_bv = s0.max(0) if n else None
    smax_gv = sg0.max(0)
    tolA = (16 * (2 * p + q) + 8 * n + 64) * EPS * smax_bv ** 2 + 1e-300
    tolG = (16 * (2 * p + q) + 8 * n + 64) * EPS * smax_gv ** 2 + 1e-300
    refA = numpy.array([popvar([float(e0[i, k]) for i in range(n)]) for k in range(t)])
    refG = numpy.array([popvar([float(g0[i, k]) for i in range(n)]) for k in range(t)])
    # genic variance: exact rationals
    cnt = [sum(dos[i][j] for i in range(n)) for j in range(p)]
    fr = [Fraction(c, d) for c in cnt]
    ua_fr = [[Fraction(v) for v in row] for row in m["u_a"]]
    refa_ex = [pl * pl * sum(ua_fr[j][k] ** 2 * fr[j] * (1 - fr[j]) for j in range(p)) for k in range(t)]
    refa = numpy.array([float(v) for v in refa_ex])
    tola = (4 * p + 16) * EPS * pl * pl * numpy.array([math.fsum(m["u_a"][j][k] ** 2 for j in range(p)) for k in range(t)]) + 1e-300
    ctx.label("genic_variance_zero_some_trait", any(v == 0 for v in refa_ex))
    fixed_at_one_with_effect = [any(cnt[j] == d and m["u_a"][j][k] != 0.0 for j in range(p)) for k in range(t)]

    inputs = [("gmat", gph, None)]
    if not isdom or pl == 2:
        inputs.append(("ndarray", arr, pl if (pl != 2 or case["permseed"] % 2) else None))
    for name, obj, plarg in inputs:
        kw = {} if (plarg is None or name == "gmat") else {"ploidy": plarg}
        vA = model.var_A(obj)
        ctx.check(vA.shape == (t,) and bool((numpy.abs(vA - refA) <= tolA).all()), "var_A.%s" % name,
                  lambda: "%s expected %s" % (vA.tolist(), refA.tolist()))
        vG = model.var_G(obj)
        ctx.check(vG.shape == (t,) and bool((numpy.abs(vG - refG) <= tolG).all()), "var_G.%s" % name,
                  lambda: "%s expected %s" % (vG.tolist(), refG.tolist()))
        va = model.var_a(obj, **kw)
        ctx.check(va.shape == (t,) and bool((numpy.abs(va - refa) <= tola).all()), "var_a.%s" % name,
                  lambda: "%s expected %s (tol %s)" % (va.tolist(), refa.tolist(), tola.tolist()))
        bl = model.bulmer(obj, **kw)
        ctx.check(bl.shape == (t,), "bulmer.shape")
        for k in range(t):
            b = float(bl[k])
            if refa_ex[k] == 0:
                # documented: NaN where the additive genic variance is zero
                sig = name == "ndarray" and d in ROUNDING_D and fixed_at_one_with_effect[k]
                ctx.label("bulmer_nan_expected")
                if ctx.known("F-C04-a", sig):
                    continue
                ctx.check(math.isnan(b), "bulmer.nan_when_genic_variance_zero.%s" % name,
                          lambda: "trait %d: bulmer=%r, var_a exact 0 (ploidy*n=%d)" % (k, b, d))
            elif refa[k] > 10 * tola[k]:
                ctx.label("bulmer_value_checked")
                bref = float(refA[k]) / float(refa[k])
                btol = 2 * (float(tolA[k]) + abs(bref) * float(tola[k])) / (float(refa[k]) - float(tola[k])) + 8 * EPS * abs(bref)
                ctx.check(abs(b - bref) <= btol, "bulmer.value.%s" % name,
                          lambda: "trait %d: %r expected %r (tol %r)" % (k, b, bref, btol))
    ctx.check(_eq_arr(model.beta, snap_u[0]) and _eq_arr(model.u_a, snap_u[1]), "model_mutated")
    ctx.check(_eq_arr(gph.mat, calls), "genotypes_mutated")


# ----------------------------------------------------------------------------------------------------------------------
# sub-check 2: favourable / deleterious / neutral allele statistics
# ----------------------------------------------------------------------------------------------------------------------
def check_alleles(case, ctx):
    geno, m = case["geno"], case["model"]
    calls = build_calls(geno)
    pl, n, p = calls.shape
    t = m["t"]
    d = pl * n
    model = make_model(m)
    if case["phased"]:
        g = DensePhasedGenotypeMatrix(mat=calls.copy())
    else:
        g = DenseGenotypeMatrix(mat=calls.sum(0).astype("int8"), ploidy=pl)
    cnt = [int(calls[:, :, j].sum()) for j in range(p)]
    ua = m["u_a"]

    fac = [[0] * t for _ in range(p)]
    dac = [[0] * t for _ in range(p)]
    for j in range(p):
        for k in range(t):
            u = ua[j][k]
            if u > 0:
                fac[j][k], dac[j][k] = cnt[j], d - cnt[j]
            elif u < 0:
                fac[j][k], dac[j][k] = d - cnt[j], cnt[j]
    neutral = [[ua[j][k] == 0 for k in range(t)] for j in range(p)]
    poly = [0 < c < d for c in cnt]

    cls0 = set()
    for j in range(p):
        if neutral[j][0]:
            cls0.add("neutral")
        elif poly[j]:
            cls0.add("polymorphic")
        elif fac[j][0] == d:
            cls0.add("favfixed")
        else:
            cls0.add("delfixed")
    ctx.nontrivial(len(cls0) == 4)
    ctx.label("all_four_locus_classes", len(cls0) == 4)
    ctx.label("has_negative_zero_effect", any(str(v) == "-0.0" for r in ua for v in r))
    ctx.label(m["kind"])
    ctx.label("ploidy%d" % pl)
    ctx.label("n_in_rounding_set", d in ROUNDING_D)

    def as_lists(a):
        return numpy.asarray(a).tolist()

    def chk(name, out, ref, dtype, default_kind, exact=True):
        ctx.check(out.shape == (p, t), "%s.shape" % name, str(out.shape))
        if dtype is not None:
            ctx.check(out.dtype == numpy.dtype(dtype), "%s.dtype" % name, "%s, requested %s" % (out.dtype, dtype))
        else:
            ctx.check(out.dtype.kind in default_kind, "%s.default_dtype" % name, str(out.dtype))
        if exact:
            got = as_lists(out)
            ctx.check(len(got) == len(ref) and all(len(a) == len(b) and all(x == y for x, y in zip(a, b))
                                                   for a, b in zip(got, ref)),
                      "%s.value" % name, lambda: "got %s expected %s (counts %s, d=%d, u_a=%s)" % (got, ref, cnt, d, ua))

    cdt, fdt, bdt = case["cdtype"], case["fdtype"], case["bdtype"]
    chk("facount", model.facount(g, cdt) if cdt else model.facount(g), fac, cdt, "iu")
    chk("dacount", model.dacount(g, cdt) if cdt else model.dacount(g), dac, cdt, "iu")
    feps = 6e-8 if fdt == "float32" else EPS
    for name, fn, ref in (("fafreq", model.fafreq, fac), ("dafreq", model.dafreq, dac)):
        out = fn(g, fdt) if fdt else fn(g)
        chk(name, out, None, fdt, "f", exact=False)
        for j in range(p):
            for k in range(t):
                x = float(out[j, k])
                c = ref[j][k]
                ctx.check(abs(x - c / d) <= 4 * feps and 0.0 <= x <= 1.0 + 4 * feps, "%s.value" % name,
                          lambda: "locus %d trait %d: %r expected %d/%d" % (j, k, x, c, d))
                ctx.check((x == 0.0) == (c == 0), "%s.zero_iff_absent" % name,
                          lambda: "locus %d trait %d: %r count %d" % (j, k, x, c))
    flags = {
        "faavail": [[fac[j][k] > 0 for k in range(t)] for j in range(p)],
        "fafixed": [[fac[j][k] == d for k in range(t)] for j in range(p)],
        "fapoly": [[0 < fac[j][k] < d for k in range(t)] for j in range(p)],
        "daavail": [[dac[j][k] > 0 for k in range(t)] for j in range(p)],
        "dafixed": [[dac[j][k] == d for k in range(t)] for j in range(p)],
        "dapoly": [[0 < dac[j][k] < d for k in range(t)] for j in range(p)],
        "nafixed": [[neutral[j][k] and not poly[j] for k in range(t)] for j in range(p)],
        "napoly": [[neutral[j][k] and poly[j] for k in range(t)] for j in range(p)],
    }
    for name, ref in flags.items():
        fn = getattr(model, name)
        out = fn(g, bdt) if bdt else fn(g)
        chk(name, out, ref, bdt, "b")
    # every (locus, trait) is in exactly one of: favourable fixed, deleterious fixed, polymorphic non-neutral,
    # neutral fixed, neutral polymorphic
    tot = sum(numpy.asarray(getattr(model, nm)(g), dtype=int) for nm in ("fafixed", "dafixed", "fapoly", "nafixed", "napoly"))
    ctx.check(bool((tot == 1).all()), "classes_partition_loci", lambda: tot.tolist())
    ctx.check(_eq_arr(model.fapoly(g), model.dapoly(g)), "fapoly_equals_dapoly")


# ----------------------------------------------------------------------------------------------------------------------
# sub-check 3: rrBLUP fitting
# ----------------------------------------------------------------------------------------------------------------------
@st.composite
def fit_case(draw):
    regime = draw(st.sampled_from(["n>p", "n>p", "n<=p"]))
    if regime == "n>p":
        p = draw(st.one_of(st.integers(1, 4), st.integers(2, 20)))
        n = draw(st.integers(max(p + 1, 2), 40))
    else:
        p = draw(st.integers(3, 20))
        n = draw(st.integers(2, max(2, p // 2)))
    cols = []
    for _ in range(p):
        kind = draw(st.sampled_from(["rand", "rand", "rand", "rand", "mono0", "mono2", "mono1", "copy"]))
        cols.append({"kind": kind, "seed": draw(st.integers(0, 2 ** 16)), "f": draw(st.sampled_from([0.2, 0.5, 0.5, 0.8]))})
    t = draw(st.sampled_from([1, 1, 2]))
    return {"n": n, "p": p, "cols": cols, "t": t,
            "yseed": draw(st.integers(0, 2 ** 16)),
            "h": draw(st.sampled_from([0.0, 0.3, 1.0, 3.0, 30.0])),
            "mu": draw(st.sampled_from([0.0, 10.0, -3.5, 1000.0])),
            "constant_trait": draw(st.sampled_from([None, None, None, None, 0])),
            "zdtype": draw(st.sampled_from(["int8", "int64", "float64"])),
            "trait": draw(st.sampled_from([None, "names"]))}


# constant value of a monomorphic float-coded marker, as a fraction of the ploidy: mostly values whose n-fold sum is
# not exact in binary64 (0.05*2 = 0.1, 0.15*2 = 0.3, ... and arbitrary 53-bit fractions), a few dyadic ones
MONOFRAC = st.one_of(
    st.sampled_from([0.05, 0.15, 0.55, 0.95, 0.025, 0.35, 1.0 / 3.0, 2.0 / 3.0, 0.7, 0.9, 0.25, 0.75, 0.5, 1.0]),
    st.floats(0.0, 1.0, allow_nan=False, allow_infinity=False, allow_subnormal=False, width=64))


@st.composite
def fit_dosage_case(draw):
    """Training sets whose genotype matrix is float coded (expected / imputed dosages in [0, ploidy])."""
    regime = draw(st.sampled_from(["n>p", "n>p", "n>p", "n<=p"]))
    if regime == "n>p":
        p = draw(st.one_of(st.integers(1, 4), st.integers(2, 20)))
        n = draw(st.one_of(st.integers(max(p + 1, 3), 40), st.integers(max(p + 1, 3), max(p + 1, 16))))
    else:
        p = draw(st.integers(3, 20))
        n = draw(st.integers(2, max(2, p // 2)))
    cols = []
    for _ in range(p):
        kind = draw(st.sampled_from(["real", "real", "imputed", "imputed", "calls", "monoreal", "monoreal", "monoint",
                                     "copy"]))
        col = {"kind": kind, "seed": draw(st.integers(0, 2 ** 16)), "f": draw(st.sampled_from([0.2, 0.5, 0.5, 0.8]))}
        if kind == "monoreal":
            col["frac"] = draw(MONOFRAC)
        if kind == "imputed":
            col["miss"] = draw(st.sampled_from([0.1, 0.3, 0.6]))
            col["fill"] = draw(st.sampled_from(["mean", "posterior"]))
        cols.append(col)
    t = draw(st.sampled_from([1, 1, 2]))
    return {"coding": "dosage", "ploidy": draw(st.sampled_from([2, 2, 2, 4, 1])),
            "n": n, "p": p, "cols": cols, "t": t,
            "yseed": draw(st.integers(0, 2 ** 16)),
            "h": draw(st.sampled_from([0.0, 0.3, 1.0, 3.0, 30.0])),
            "mu": draw(st.sampled_from([0.0, 10.0, -3.5, 1000.0])),
            "constant_trait": draw(st.sampled_from([None, None, None, None, 0])),
            "zdtype": "float64",
            "trait": draw(st.sampled_from([None, "names"]))}


def build_fit_dosage(case):
    """float64 dosage matrix with entries in [0, ploidy] and responses, deterministic from the case"""
    n, p, pl = case["n"], case["p"], float(case["ploidy"])
    Z = numpy.zeros((n, p), dtype="float64")
    for j, col in enumerate(case["cols"]):
        k = col["kind"]
        r = numpy.random.default_rng(col["seed"])
        if k == "monoreal":
            Z[:, j] = min(pl, max(0.0, float(col["frac"]) * pl))     # every record carries the same (imputed) dosage
        elif k == "monoint":
            Z[:, j] = float(col["seed"] % (int(pl) + 1))
        elif k == "copy" and j > 0:
            Z[:, j] = Z[:, j - 1]
        elif k == "real" or k == "copy":
            Z[:, j] = r.random(n) * pl                                   # expected dosages
        else:
            calls = r.binomial(int(pl), col["f"], size=n).astype(float)
            if k == "imputed":
                miss = r.random(n) < col["miss"]
                if col["fill"] == "mean":
                    obs = calls[~miss]
                    fill = float(obs.mean()) if len(obs) else col["f"] * pl
                    calls[miss] = min(pl, max(0.0, fill))
                else:
                    calls[miss] = numpy.clip(calls[miss] + 0.25 * r.normal(size=int(miss.sum())), 0.0, pl)
            Z[:, j] = calls
    # at least one polymorphic marker, by construction
    if all(len(set(Z[:, j].tolist())) == 1 for j in range(p)):
        Z[0, 0], Z[1, 0] = 0.0, 0.75 * pl
    r = numpy.random.default_rng(case["yseed"])
    u = r.normal(size=(p, case["t"]))
    Y = case["mu"] + case["h"] * (Z @ u) + r.normal(size=(n, case["t"]))
    if case["constant_trait"] is not None:
        Y[:, case["constant_trait"]] = case["mu"]
    return Z, Y


def build_fit(case):
    if case.get("coding") == "dosage":
        return build_fit_dosage(case)
    n, p = case["n"], case["p"]
    Z = numpy.zeros((n, p), dtype=int)
    for j, col in enumerate(case["cols"]):
        k = col["kind"]
        if k == "mono0":
            Z[:, j] = 0
        elif k == "mono2":
            Z[:, j] = 2
        elif k == "mono1":
            Z[:, j] = 1
        elif k == "copy" and j > 0:
            Z[:, j] = Z[:, j - 1]
        else:
            Z[:, j] = numpy.random.default_rng(col["seed"]).binomial(2, col["f"], size=n)
    # at least one polymorphic marker, by construction
    if all(len(set(Z[:, j].tolist())) == 1 for j in range(p)):
        Z[0, 0], Z[1, 0] = 0, 1
    r = numpy.random.default_rng(case["yseed"])
    u = r.normal(size=(p, case["t"]))
    Y = case["mu"] + case["h"] * (Z @ u) + r.normal(size=(n, case["t"]))
    if case["constant_trait"] is not None:
        Y[:, case["constant_trait"]] = case["mu"]
    return Z, Y


def _normal_equation_bound(A, b, ustar, atol=1e-8, maxiter=1000):
    """Upper bound on ||b - A u||_inf for the u returned by Gauss-Seidel started at 0 on the SPD system A u = b.

    Write A = L + D + U and M = I - (D+L)^{-1} A (the Gauss-Seidel iteration matrix); the error after k sweeps is
    e_k = M^k e_0 with e_0 = -u*, the residual r_k = -A e_k.  The documented loop stops either
    (i)  because the last sweep moved every coordinate by at most ``atol``: the residual after that sweep is exactly
         -U delta, so ||r||_inf <= ||U||_inf * atol; or
    (ii) after ``maxiter`` sweeps (documented): then r = A M^maxiter u*, evaluated here with a matrix power.
    Which exit happened is not observable from outside, so the bound is the larger of the two.  It is tight: any u that
    is not a Gauss-Seidel-quality solution of *this* system (wrong ridge parameter, centred/uncentred design mixed up,
    wrong right-hand side) leaves a residual of the order of ||b||.
    """
    p = len(b)
    b1 = float(numpy.abs(numpy.triu(A, 1)).sum(1).max()) * atol if p > 1 else 0.0
    Q = numpy.tril(A)
    M = numpy.eye(p) - numpy.linalg.solve(Q, A)
    Mk = numpy.linalg.matrix_power(M, maxiter)
    b2 = float(numpy.abs(A @ (Mk @ ustar)).max()) * (1.0 + 1e-6)
    return max(b1, b2), b1, b2


def check_fit(case, ctx):
    Zi, Y = build_fit(case)
    n, p = Zi.shape
    t = case["t"]
    Z = Zi.astype(case["zdtype"])
    polymask = [len(set(Zi[:, j].tolist())) > 1 for j in range(p)]
    ppoly = sum(polymask)
    trait = None if case["trait"] is None else numpy.array(["trait%d" % i for i in range(t)], dtype=object)
    ctx.label("n_gt_npoly" if n > ppoly else "n_le_npoly")
    ctx.label("has_monomorphic_marker", ppoly < p)
    ctx.label("has_duplicate_marker", any(c["kind"] == "copy" for c in case["cols"][1:]))
    ctx.label("has_constant_trait", case["constant_trait"] is not None)
    dosage = case.get("coding") == "dosage"
    if dosage:
        # classification of the generated matrix only (never used by a clause): is there a marker that is constant
        # across the records at a value v whose n-fold sum is not exact, so that mean(column) != v / spread != 0 when
        # computed in floating point although the marker is monomorphic
        monovals = [float(Zi[0, j]) for j in range(p) if not polymask[j]]
        nondyadic = [v for v in monovals if Fraction(v).denominator > 2 ** 12]
        inexact = [v for v in monovals if float(numpy.full(n, v).mean()) != v or float(numpy.full(n, v).std()) != 0.0]
        ctx.label("float_coded_dosages", any(float(v) != round(float(v)) for v in Zi.ravel().tolist()))
        ctx.label("monomorphic_at_noninteger_value", any(v != round(v) for v in monovals))
        ctx.label("monomorphic_at_nondyadic_value", bool(nondyadic))
        ctx.label("monomorphic_value_mean_or_spread_not_exact", bool(inexact))
        ctx.label("ploidy%d" % case["ploidy"])
        ctx.label("n_3_to_11", 3 <= n <= 11)
        ctx.label("n_12_to_40", 12 <= n <= 40)
        ctx.check(bool(((Zi >= 0.0) & (Zi <= case["ploidy"])).all()), "harness.dosage_in_range")
        ctx.nontrivial(ppoly >= 2 and bool(nondyadic))
    else:
        ctx.nontrivial(ppoly >= 2 and ppoly < p)

    Ysnap, Zsnap = Y.copy(), Z.copy()
    mod = rrBLUPModel0.fit_numpy(Y, None, Z, trait=trait)
    ctx.check(type(mod) is rrBLUPModel0, "fit.type")
    ctx.check(mod.beta.shape == (1, t) and mod.u_a.shape == (p, t) and mod.u_misc.shape == (0, t), "fit.shapes",
              lambda: "%s %s %s" % (mod.beta.shape, mod.u_a.shape, mod.u_misc.shape))
    ctx.check(bool(numpy.isfinite(mod.u_a).all()) and bool(numpy.isfinite(mod.beta).all()), "fit.finite")
    ctx.check(_eq_arr(mod.trait, trait), "fit.trait_labels")
    ctx.check(_eq_arr(Y, Ysnap) and _eq_arr(Z, Zsnap), "fit.mutated_training_data")

    # same values AND same memory layout as the polymorphic sub-matrix fit_numpy hands to the routine (a fancy-indexed
    # column subset is Fortran-ordered; BLAS sums in a different order for a C-ordered copy, and Nelder-Mead amplifies
    # the last-bit difference), so that clause (d) can be exact
    Zpoly = (Z if numpy.issubdtype(Z.dtype, numpy.floating) else Z.astype(float))[:, numpy.array(polymask)]
    Zl = Zpoly.tolist()
    for k in range(t):
        y = Y[:, k].tolist()
        mean = math.fsum(y) / n
        # (a) intercept reproduces the training mean
        ctx.check(abs(float(mod.beta[0, k]) - mean) <= (n + 4) * EPS * math.fsum(abs(v) for v in y) / n + 1e-300,
                  "fit.intercept_is_training_mean", lambda: "beta=%r mean=%r" % (float(mod.beta[0, k]), mean))
        # (b) monomorphic markers get exactly zero
        ctx.check(all(float(mod.u_a[j, k]) == 0.0 for j in range(p) if not polymask[j]), "fit.monomorphic_effect_zero",
                  lambda: "u_a=%s polymorphic=%s" % (mod.u_a[:, k].tolist(), polymask))

        out = rrBLUP_ML0(Y[:, k], Zpoly)
        uhat = out["uhat"]
        # (d) fit_numpy scatters exactly the solution of the routine run on the polymorphic columns
        ctx.check(uhat.shape == (ppoly,) and _eq_arr(mod.u_a[polymask, k], uhat), "fit.scatter_matches_routine",
                  lambda: "u_a[poly]=%s uhat=%s" % (mod.u_a[polymask, k].tolist(), uhat.tolist()))
        ctx.check(float(out["betahat"][0]) == float(mod.beta[0, k]), "fit.beta_matches_routine")
        varE, varU = float(out["varE"]), float(out["varU"])
        ctx.check(1e-5 * (1 - 1e-9) <= varE <= 1e5 * (1 + 1e-9) and 1e-5 * (1 - 1e-9) <= varU <= 1e5 * (1 + 1e-9),
                  "routine.variance_components_within_bounds", lambda: "varE=%r varU=%r" % (varE, varU))
        ctx.check(abs(float(out["h2"]) - varU / (varU + varE)) <= 4 * EPS, "routine.h2")
        lam = varE / varU
        u = [float(v) for v in uhat]
        yc = [v - mean for v in y]
        zu = [math.fsum(Zl[i][j] * u[j] for j in range(ppoly)) for i in range(n)]
        # yhat = betahat + Z uhat
        yh = out["yhat"]
        # (the routine's intercept is numpy's mean: it may differ from the exact mean by ~n*eps*mean|y|)
        dmean = (n + 4) * EPS * math.fsum(abs(v) for v in y) / n
        bady = [i for i in range(n) if not abs(float(yh[i]) - (mean + zu[i])) <= dmean + (8 * ppoly + 16) * EPS * (
            abs(mean) + math.fsum(abs(Zl[i][j] * u[j]) for j in range(ppoly))) + 1e-300]
        ctx.check(not bady, "routine.yhat", lambda: "record %d: yhat %r expected %r" % (
            bady[0], float(yh[bady[0]]), mean + zu[bady[0]]))
        # (f) penalised criterion no worse than the all-zero solution
        ss0 = math.fsum(v * v for v in yc)
        crit = math.fsum((yc[i] - zu[i]) ** 2 for i in range(n)) + lam * math.fsum(v * v for v in u)
        slack = 64 * (n + ppoly) * EPS * (ss0 + math.fsum(v * v for v in zu) + lam * math.fsum(v * v for v in u)) + \
            8 * n * EPS * max(abs(v) for v in y) ** 2
        ctx.check(crit <= ss0 + slack, "routine.criterion_not_worse_than_zero",
                  lambda: "criterion %r > ||y_c||^2 = %r (lambda %r)" % (crit, ss0, lam))
        if case["constant_trait"] == k:
            ctx.check(all(v == 0.0 for v in u), "routine.constant_response_zero_effects", lambda: str(u))
        # (g) penalised normal equations, well-determined sets only
        if n > ppoly:
            A = Zpoly.T @ Zpoly + lam * numpy.eye(ppoly)
            b = numpy.array([math.fsum(Zl[i][j] * yc[i] for i in range(n)) for j in range(ppoly)])
            ustar = numpy.linalg.solve(A, b)
            bound, b1, b2 = _normal_equation_bound(A, b, ustar)
            res = [math.fsum([float(b[j])] + [-float(A[j, c]) * u[c] for c in range(ppoly)]) for j in range(ppoly)]
            rmax = max(abs(v) for v in res)
            # rounding of up to 1000 sweeps (each ~ p*eps relative, not amplified since ||M||_A < 1) and of y - mean(y)
            rounding = 64 * (n + ppoly) * EPS * 1000 * (float(numpy.abs(b).max()) + float(numpy.abs(A).sum(1).max()) * max(
                [abs(v) for v in u] + [0.0])) + 2 * n * (n + 8) * EPS * max(abs(v) for v in y)
            bscale = max(float(numpy.abs(b).max()), 1e-300)
            ctx.label("normal_eq_bound_tight", bound + rounding <= 1e-6 * bscale)
            ctx.label("normal_eq_bound_loose", bound + rounding > 1e-6 * bscale)
            ctx.label("gauss_seidel_hits_maxiter_residual_gt_1e-5_relative", rmax > 1e-5 * bscale)
            ctx.check(rmax <= bound + rounding, "routine.normal_equations",
                      lambda: "max |Z'y - (Z'Z + lambda I)u| = %r > bound %r (tolerance exit %r, maxiter exit %r), "
                              "lambda=%r, ||Z'y||_inf=%r" % (rmax, bound + rounding, b1, b2, lam, bscale))

    # object-level wrapper: same result as fit_numpy on the dosage matrix (a float-coded matrix has no genotype-matrix
    # object form: it reaches the wrapper, and gebv below, as the raw dosage array both document)
    g = Zi.copy() if dosage else DenseGenotypeMatrix(mat=Zi.astype("int8"), ploidy=2)
    mod2 = rrBLUPModel0.fit(Y, None, g, trait=trait)
    ctx.check(_eq_arr(mod2.u_a, mod.u_a) and _eq_arr(mod2.beta, mod.beta) and _eq_arr(mod2.trait, trait),
              "fit.wrapper_matches_fit_numpy")
    # the fitted model predicts beta + Z u_a
    bv = mod.gebv(g).unscale()
    ua = mod.u_a.tolist()
    Zil = Zi.tolist()
    for k in range(t):
        for i in range(n):
            terms = [float(mod.beta[0, k])] + [Zil[i][j] * ua[j][k] for j in range(p)]
            ref = math.fsum(terms)
            ctx.check(abs(float(bv[i, k]) - ref) <= (8 * p + 32) * EPS * max(
                math.fsum(abs(x) for x in [float(mod.beta[0, k])] + [Zil[a][j] * ua[j][k] for j in range(p)])
                for a in range(n)) + 1e-300, "fit.gebv_of_fitted_model")


SUBCHECKS = [
    SubCheck("values", check_values, values_case(), quick=350, thorough=5000, shards_quick=4,
             rule="generated (additive|dominance|rrBLUP-class model x 1-3 traits x q 1-3 fixed effects x optional u_misc x "
                  "ploidy 1/2/4 x n 1-60 and rounding sizes x p 1-25 x phased/unphased/asformat/ndarray input x taxon "
                  "permutation x marker partition); non-trivial = >= 2 taxa with different dosage vectors and >= 1 non-zero "
                  "additive effect; distinct by sha1 of the case",
             required_labels=("additive", "dominance", "rrblup", "q_gt_1", "has_u_misc", "n_in_rounding_set",
                              "has_heterozygotes", "nonidentity_permutation", "partition_3_parts", "score_checked",
                              "bulmer_nan_expected", "bulmer_value_checked", "ploidy1", "ploidy4", "traits3")),
    SubCheck("alleles", check_alleles, alleles_case(), quick=350, thorough=5000, shards_quick=4,
             rule="generated model x genotype matrix (phased|unphased) x dtype arguments; non-trivial = trait 0 has at "
                  "least one locus in each class: favourable fixed, deleterious fixed, neutral, polymorphic non-neutral",
             required_labels=("all_four_locus_classes", "has_negative_zero_effect", "n_in_rounding_set")),
    SubCheck("fit_dosage", check_fit, fit_dosage_case(), quick=90, thorough=600, shards_quick=4,
             rule="generated training sets with a float-coded genotype matrix (expected dosages uniform in [0, ploidy], "
                  "calls with mean-filled or posterior-expectation imputed entries, markers constant across the records "
                  "at an arbitrary real value, duplicated markers; ploidy 1/2/4, n 2-40, n>p and n<=p, 1-2 traits); "
                  "non-trivial = >= 2 polymorphic markers and >= 1 marker monomorphic at a non-dyadic value",
             required_labels=("n_gt_npoly", "n_le_npoly", "float_coded_dosages", "monomorphic_at_nondyadic_value",
                              "monomorphic_value_mean_or_spread_not_exact", "normal_eq_bound_tight", "n_3_to_11",
                              "n_12_to_40", "has_constant_trait")),
    SubCheck("fit", check_fit, fit_case(), quick=100, thorough=600, shards_quick=4,
             rule="generated training sets (Z in {0,1,2} with forced monomorphic and duplicated columns, n>p and n<=p, "
                  "1-2 traits, signal-to-noise 0..30, constant response); non-trivial = >= 2 polymorphic and >= 1 "
                  "monomorphic marker",
             required_labels=("n_gt_npoly", "n_le_npoly", "has_monomorphic_marker", "normal_eq_bound_tight",
                              "has_constant_trait")),
]
