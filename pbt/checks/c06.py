"""C06 -- optimisers return feasible solutions with truthful objective / constraint values.

Sub-checks
  exact       SortingSubsetOptimizationAlgorithm, SteepestDescentSubsetHillClimber, SortingSteepestDescentSubsetHillClimber
              (decision-space membership, truthful values, problem untouched, brute-force optimum on separable
              problems, 1-exchange local optimality under the (violation, score) lexicographic order)
  ga_subset   SubsetGeneticAlgorithm, NSGA2/NSGA3SubsetGeneticAlgorithm and the four NSGA2Memetic classes
  ga_vector   Real/Integer/Binary GeneticAlgorithm and their NSGA2 variants
  operators   pymoo_addon operators in isolation on generated parent populations

Oracles are validity predicates over whatever the optimiser returns plus exhaustive enumeration of the small
decision spaces; the optimiser is never called a second time as its own oracle.  The "fresh evaluation" the
property speaks of is ``prob.evalfn(decision)`` evaluated by the harness on the returned decision.
"""
import contextlib
import itertools

import numpy
from hypothesis import strategies as st

from pbt import compat  # noqa: F401
from pbt.core import SubCheck

from pybrops.opt.prob.SubsetProblem import SubsetProblem
from pybrops.opt.prob.RealProblem import RealProblem
from pybrops.opt.prob.IntegerProblem import IntegerProblem
from pybrops.opt.prob.BinaryProblem import BinaryProblem
from pybrops.opt.soln.SubsetSolution import SubsetSolution
from pybrops.opt.soln.RealSolution import RealSolution
from pybrops.opt.soln.IntegerSolution import IntegerSolution
from pybrops.opt.soln.BinarySolution import BinarySolution
from pybrops.opt.algo.SortingSubsetOptimizationAlgorithm import SortingSubsetOptimizationAlgorithm
from pybrops.opt.algo.SteepestDescentSubsetHillClimber import SteepestDescentSubsetHillClimber
from pybrops.opt.algo.SortingSteepestDescentSubsetHillClimber import SortingSteepestDescentSubsetHillClimber
from pybrops.opt.algo.SubsetGeneticAlgorithm import SubsetGeneticAlgorithm
from pybrops.opt.algo.RealGeneticAlgorithm import RealGeneticAlgorithm
from pybrops.opt.algo.IntegerGeneticAlgorithm import IntegerGeneticAlgorithm
from pybrops.opt.algo.BinaryGeneticAlgorithm import BinaryGeneticAlgorithm
from pybrops.opt.algo.NSGA2SubsetGeneticAlgorithm import NSGA2SubsetGeneticAlgorithm
from pybrops.opt.algo.NSGA2RealGeneticAlgorithm import NSGA2RealGeneticAlgorithm
from pybrops.opt.algo.NSGA2IntegerGeneticAlgorithm import NSGA2IntegerGeneticAlgorithm
from pybrops.opt.algo.NSGA2BinaryGeneticAlgorithm import NSGA2BinaryGeneticAlgorithm
from pybrops.opt.algo.NSGA3SubsetGeneticAlgorithm import NSGA3SubsetGeneticAlgorithm
from pybrops.opt.algo import NSGA2MemeticSubsetGeneticAlgorithm as _memetic
from pybrops.opt.algo import pymoo_addon
from pybrops.breed.prot.sel.prob.EstimatedBreedingValueSelectionProblem import (
    EstimatedBreedingValueSubsetSelectionProblem,
    EstimatedBreedingValueRealSelectionProblem,
    EstimatedBreedingValueIntegerSelectionProblem,
    EstimatedBreedingValueBinarySelectionProblem,
)
from pybrops.breed.prot.sel.prob.trans import trans_sum

ASSUMPTIONS = [
    "constraint functions of the generated problems return violation magnitudes >= 0 (0 = satisfied), integer valued, "
    "as pybrops' own selection problems do; violation weights are positive; for the pymoo-backed optimisers one third of the "
    "inequality constraints return a signed slack instead (negative = satisfied with room to spare; pymoo's G <= 0 rule), so "
    "that constraint values differ between the members of a feasible front",
    "pymoo 0.6.2 seeds every run from OS entropy (numpy.random.default_rng(None)) and the pybrops GA classes ignore "
    "their rng argument (reported under C08): GA runs are NOT replay-deterministic through the public API.  The "
    "harness pins both sources while the optimiser runs (numpy.random.seed(case seed) for the pybrops operators, "
    "numpy.random.default_rng(None) answered from SeedSequence(case seed)); with that aid repeated runs of a case "
    "returned identical solutions in spot checks, but no oracle relies on it: every clause is a predicate over the "
    "returned Solution, and each violation message carries the returned decision/objective/constraint arrays so a "
    "replay file is self-contained evidence even if a re-run takes another trajectory",
    "'fresh evaluation' = prob.evalfn(returned decision row) in the returned element order; compared ulp-scaled "
    "(64*eps*sum of absolute term magnitudes), integers/labels exactly",
    "sorting optimiser: optimality is asserted only for unconstrained separable single-objective problems "
    "(the property's wording); brute force enumerates all C(n,k) subsets, n <= 12, k <= 6",
    "hill-climbers: neighbourhood = replace the member at one position of the returned decision VECTOR by one element of the "
    "decision space not in the solution, all other positions kept (the implementation's exchange; for order-independent "
    "problems this is the usual 1-exchange of sets).  evalfn receives a decision vector, so problems whose value depends on "
    "the position of a member (member x[i] fills ordered slot i: cost table slot[e][i]; inequality counting flagged members "
    "at masked positions only) are part of 'any objective data' and are generated for 2/5 of the table problems of `exact` "
    "(1/6 elsewhere); the full re-scan of that neighbourhood is the oracle for them too, while the brute-force-optimum "
    "clause (a statement about separable set functions) is not applied to them; "
    "order = (sum of violations, sum of objectives) lexicographic, strict improvement, exact float comparison on "
    "evaluations performed in the same element order the optimiser used",
    "'any objective data': every objective coefficient of a generated problem is multiplied by a unit 10**e, e in "
    "{-12,-9,-6,-3,0,4,9,15}, and one data mode plants candidates that differ by multiples of 2**-36 (~1.5e-11) around a "
    "common value (near-ties whose sums stay exactly representable); all oracles are scale-free (exact comparisons on "
    "fresh evaluations, tolerances proportional to the sum of absolute terms), so no clause changes with the unit",
    "'with or without constraints': besides the single classic rows (capped count, sum mod m) problems carry 2-4 constraint "
    "rows of both kinds built from small integers (row = form(sum of the integers a[.] the decision collects - offset), "
    "a in {0,1,2}: family counts; forms max(0,.) / |.| for the hill-climbers, additionally signed for the pymoo-backed "
    "optimisers), often the same or the complementary membership vector in two rows and one common weight, so that exact "
    "ties of the aggregate violation sum(G)+sum(H) between decisions whose individual rows differ, exact ties of scores and "
    "of violations are frequent; in `exact` 3 cases in 7 fix by ONE draw the combination (hill-climber, >= 1 inequality and "
    ">= 1 equality row of that kind, mostly non-additive objective).  Weights x integer values are exactly representable, so "
    "the harness aggregate and the optimiser's are the same float",
    "population-wise evaluation (elementwise=False, a documented constructor option) is drawn for 3/8 of the problems "
    "handed to pymoo-backed optimisers, and then half of them carry an inequality AND an equality constraint, so that "
    "the F / G / H columns assembled by Problem._evaluate's matrix branch are each compared with a fresh evaluation",
]

EPS = 2.220446049250313e-16

MEMETIC = {
    "MemeticSteepest": _memetic.NSGA2SteepestDescentSubsetGeneticAlgorithm,
    "MemeticStochastic": _memetic.NSGA2StochasticDescentSubsetGeneticAlgorithm,
    "MemeticMutatorA": _memetic.NSGA2MutatorASubsetGeneticAlgorithm,
    "MemeticMutatorB": _memetic.NSGA2MutatorBSubsetGeneticAlgorithm,
}


# =====================================================================================================================
# reference dominance (feasibility first) -- written from the definition, self-tested at import
# =====================================================================================================================
def ref_dominates(fa, cva, fb, cvb):
    """a dominates b: feasible beats infeasible; two infeasible -> smaller violation; two feasible -> Pareto."""
    if cva <= 0.0 and cvb <= 0.0:
        return all(x <= y for x, y in zip(fa, fb)) and any(x < y for x, y in zip(fa, fb))
    if cva <= 0.0:
        return True
    if cvb <= 0.0:
        return False
    return cva < cvb


assert ref_dominates([1, 1], 0, [1, 2], 0) and not ref_dominates([1, 2], 0, [1, 1], 0)
assert not ref_dominates([1, 2], 0, [2, 1], 0) and not ref_dominates([1, 1], 0, [1, 1], 0)
assert ref_dominates([9, 9], 0, [0, 0], 1) and not ref_dominates([0, 0], 1, [9, 9], 0)
assert ref_dominates([9, 9], 1, [0, 0], 2) and not ref_dominates([0, 0], 2, [0, 0], 2)


def total_cv(g, h):
    return float(sum(max(0.0, float(x)) for x in g) + sum(abs(float(x)) for x in h))


# =====================================================================================================================
# harness-defined problems (built deterministically from a JSON spec)
# =====================================================================================================================
def spec_scale(spec):
    """unit of the objective data: every objective coefficient of the generated problem is multiplied by 10**scale_exp"""
    return 10.0 ** int(spec.get("scale_exp", 0))


def _mc(spec):
    """additional constraint rows: {"G": [row...], "H": [row...]}, row = {"a": small integers per candidate / variable,
    "b": offset, "form": "pos" | "abs" | "signed", "wt": weight, optional "posmask"}; row value =
    form( sum of the a-values the decision collects - b ): counts such as members from family A minus the allowed number"""
    return spec.get("mc") or {"G": [], "H": []}


def spec_rows(spec):
    """(number of inequality rows, number of equality rows) of a generated problem"""
    mc = _mc(spec)
    return (1 if spec["ineq"] else 0) + len(mc["G"]), (1 if spec["eq"] else 0) + len(mc["H"])


def is_constrained(spec):
    return sum(spec_rows(spec)) > 0


def _cv_wts(spec):
    """constructor arguments nineqcv, ineqcv_wt, neqcv, eqcv_wt (one weight per row, the single classic row first)"""
    mc = _mc(spec)
    gw = ([spec["ineq"]["wt"]] if spec["ineq"] else []) + [r["wt"] for r in mc["G"]]
    hw = ([spec["eq"]["wt"]] if spec["eq"] else []) + [r["wt"] for r in mc["H"]]
    return dict(nineqcv=len(gw), ineqcv_wt=numpy.array(gw, dtype=float) if gw else None,
                neqcv=len(hw), eqcv_wt=numpy.array(hw, dtype=float) if hw else None)


def _mc_form(v, form):
    v = float(v)
    if form == "pos":
        return max(0.0, v)
    if form == "abs":
        return abs(v)
    return v


def _mc_arrays(rows):
    return [(numpy.array(r["a"], dtype=float), numpy.array(r["posmask"], dtype=float) if r.get("posmask") else None,
             float(r["b"]), r["form"]) for r in rows]


def _mc_subset_values(rows, idx):
    """unweighted values of the rows at the decision whose i-th position holds candidate number idx[i]"""
    out = []
    for a, pm, b, form in rows:
        c = a[idx] if pm is None else a[idx] * pm[:len(idx)]
        out.append(_mc_form(c.sum() - b, form))
    return out


def _mc_vector_values(rows, xf):
    return [_mc_form(xf.dot(a) - b, form) for a, pm, b, form in rows]


class _NoLatent:
    def latentfn(self, x, *args, **kwargs):     # not abstract in opt.prob, present for symmetry with selection problems
        raise NotImplementedError


class HSubsetTable(_NoLatent, SubsetProblem):
    """obj_j(x) = wt_j * ( sum_{e in x} vals[e][j]  +  q * dir_j * (sum_{e in x} u[e])**2  +  sum_i slot[x[i]][i] )
    ineq(x) = w * ( max(0, #{i: flag[x[i]] and posmask[i]} - cap) + base );  eq(x) = w * ( (sum_{e in x} t[e]) mod m )
    The optional slot / posmask parts make the value depend on the POSITION of a member in the decision vector
    (position i = ordered slot i filled by candidate x[i]); without them the problem is a set function."""

    def __init__(self, spec):
        self.spec = spec
        labels = [int(e) for e in spec["labels"]]
        self._pos = {e: i for i, e in enumerate(labels)}
        sc = spec_scale(spec)
        self._vals = numpy.array(spec["vals"], dtype=float).reshape(len(labels), spec["nobj"]) * sc
        self._q = float(spec["q"]) * sc
        self._u = numpy.array(spec["u"], dtype=float)
        self._qdir = numpy.array([1.0 if j % 2 == 0 else -1.0 for j in range(spec["nobj"])])
        iq, eq = spec["ineq"], spec["eq"]
        # slot[e][i]: cost of candidate e sitting at position i of the decision vector (None = order-independent problem)
        self._slot = (numpy.array(spec["slot"], dtype=float).reshape(len(labels), spec["k"]) * sc) if spec.get("slot") else None
        self._posmask = numpy.array(iq["posmask"], dtype=float) if (iq and iq.get("posmask")) else None
        self._flags = numpy.array(iq["flags"], dtype=float) if iq else numpy.zeros(len(labels))
        self._t = numpy.array(eq["t"], dtype="int64") if eq else numpy.zeros(len(labels), dtype="int64")
        self._mcG = _mc_arrays(_mc(spec)["G"])
        self._mcH = _mc_arrays(_mc(spec)["H"])
        self.nevals = 0
        space = numpy.array(labels, dtype="int64")
        SubsetProblem.__init__(
            self, ndecn=spec["k"], decn_space=space, decn_space_lower=int(space.min()), decn_space_upper=int(space.max()),
            nobj=spec["nobj"], obj_wt=numpy.array(spec["wt"], dtype=float),
            elementwise=bool(spec.get("elementwise", True)), **_cv_wts(spec))

    def evalfn(self, x, *args, **kwargs):
        self.nevals += 1
        idx = [self._pos[int(e)] for e in numpy.asarray(x).ravel()]      # KeyError = element outside the decision space
        lat = self._vals[idx, :].sum(0)
        if self._q != 0.0:
            s = self._u[idx].sum()
            lat = lat + self._q * s * s * self._qdir
        if self._slot is not None:
            lat = lat + self._slot[idx, numpy.arange(len(idx))].sum()
        obj = self.obj_wt * lat
        iq, eq = self.spec["ineq"], self.spec["eq"]
        gv, hv = [], []
        if iq:
            fl = self._flags[idx] if self._posmask is None else self._flags[idx] * self._posmask[:len(idx)]
            slack = float(fl.sum() - iq["cap"])
            gv.append((slack if iq.get("signed") else max(0.0, slack)) + iq["base"])
        if eq:
            hv.append(float(int(self._t[idx].sum()) % eq["m"]))
        gv += _mc_subset_values(self._mcG, idx)
        hv += _mc_subset_values(self._mcH, idx)
        g = self.ineqcv_wt * numpy.array(gv, dtype=float) if gv else numpy.zeros(0)
        h = self.eqcv_wt * numpy.array(hv, dtype=float) if hv else numpy.zeros(0)
        return obj, g, h

    def data_arrays(self):
        d = {"_vals": self._vals, "_u": self._u, "_flags": self._flags, "_t": self._t}
        for nm, rows in (("_mcG", self._mcG), ("_mcH", self._mcH)):
            for r, (a, pm, b, form) in enumerate(rows):
                d["%s%d_a" % (nm, r)] = a
                if pm is not None:
                    d["%s%d_posmask" % (nm, r)] = pm
        if self._slot is not None:
            d["_slot"] = self._slot
        if self._posmask is not None:
            d["_posmask"] = self._posmask
        return d

    def term_scale(self, x):
        idx = [self._pos[int(e)] for e in numpy.asarray(x).ravel() if int(e) in self._pos]
        s = numpy.abs(self._vals[idx, :]).sum(0) + abs(self._q) * numpy.abs(self._u[idx]).sum() ** 2
        if self._slot is not None:
            s = s + numpy.abs(self._slot[idx, :]).sum()
        return numpy.abs(self.obj_wt) * s


def _ineq_count_trans(decnvec, latentvec, flagmap=None, cap=0, base=0, signed=False, rows=(), pos=None, **kwargs):
    out = []
    if flagmap is not None:
        cnt = sum(flagmap.get(int(e), 0) for e in decnvec)
        slack = float(cnt) - cap
        out.append((slack if signed else max(0.0, slack)) + base)
    if rows:
        out += _mc_subset_values(rows, [pos[int(e)] for e in decnvec])
    return numpy.array(out, dtype=float)


def _eq_mod_trans(decnvec, latentvec, tmap=None, m=2, rows=(), pos=None, **kwargs):
    out = []
    if tmap is not None:
        out.append(float(sum(tmap.get(int(e), 0) for e in decnvec) % m))
    if rows:
        out += _mc_subset_values(rows, [pos[int(e)] for e in decnvec])
    return numpy.array(out, dtype=float)


def build_subset_problem(spec):
    if spec["kind"] == "table":
        return HSubsetTable(spec)
    labels = [int(e) for e in spec["labels"]]
    ebv = numpy.array(spec["ebv"], dtype=float).reshape(spec["nrow"], spec["ntrait"]) * spec_scale(spec)
    iq, eq = spec["ineq"], spec["eq"]
    space = numpy.array(labels, dtype="int64")
    pos = {e: i for i, e in enumerate(labels)}
    gkw = {"rows": _mc_arrays(_mc(spec)["G"]), "pos": pos}
    hkw = {"rows": _mc_arrays(_mc(spec)["H"]), "pos": pos}
    if iq:
        gkw.update(flagmap=dict(zip(labels, iq["flags"])), cap=iq["cap"], base=iq["base"], signed=bool(iq.get("signed")))
    if eq:
        hkw.update(tmap=dict(zip(labels, eq["t"])), m=eq["m"])
    ng, nh = spec_rows(spec)
    prob = EstimatedBreedingValueSubsetSelectionProblem(
        ebv=ebv, ndecn=spec["k"], decn_space=space, decn_space_lower=int(space.min()), decn_space_upper=int(space.max()),
        nobj=spec["nobj"], obj_wt=numpy.array(spec["wt"], dtype=float),
        obj_trans=trans_sum if spec["trans"] == "sum" else None,
        ineqcv_trans=_ineq_count_trans if ng else None, ineqcv_trans_kwargs=gkw if ng else None,
        eqcv_trans=_eq_mod_trans if nh else None, eqcv_trans_kwargs=hkw if nh else None,
        elementwise=bool(spec.get("elementwise", True)), **_cv_wts(spec))
    return prob


def subset_term_scale(prob, spec, x):
    """upper bound on the sum of absolute values of the terms added to form each objective at x"""
    if spec["kind"] == "table":
        return prob.term_scale(x)
    rows = [int(e) for e in numpy.asarray(x).ravel() if 0 <= int(e) < spec["nrow"]]
    a = numpy.abs(prob.ebv[rows, :]).sum(0) / max(1, len(rows))
    if spec["trans"] == "sum":
        a = numpy.array([a.sum()])
    return numpy.abs(prob.obj_wt) * a


class _VecMixin(_NoLatent):
    """obj_j(x) = wt_j * ( x.A[:,j] + q * dir_j * (x.u)**2 );  ineq = w*(max(0, x.c - cap) + base);  eq = w*((x.t) mod m)"""

    def _setup(self, spec):
        self.spec = spec
        n = spec["n"]
        sc = spec_scale(spec)
        self._A = numpy.array(spec["A"], dtype=float).reshape(n, spec["nobj"]) * sc
        self._q = float(spec["q"]) * sc
        self._u = numpy.array(spec["u"], dtype=float)
        self._qdir = numpy.array([1.0 if j % 2 == 0 else -1.0 for j in range(spec["nobj"])])
        iq, eq = spec["ineq"], spec["eq"]
        self._c = numpy.array(iq["c"], dtype=float) if iq else numpy.zeros(n)
        self._t = numpy.array(eq["t"], dtype="int64") if eq else numpy.zeros(n, dtype="int64")
        self._mcG = _mc_arrays(_mc(spec)["G"])
        self._mcH = _mc_arrays(_mc(spec)["H"])
        self.nevals = 0

    def evalfn(self, x, *args, **kwargs):
        self.nevals += 1
        xf = numpy.asarray(x).astype(float)
        lat = xf.dot(self._A)
        if self._q != 0.0:
            s = xf.dot(self._u)
            lat = lat + self._q * s * s * self._qdir
        obj = self.obj_wt * lat
        iq, eq = self.spec["ineq"], self.spec["eq"]
        gv, hv = [], []
        if iq:
            slack = float(xf.dot(self._c) - iq["cap"])
            gv.append((slack if iq.get("signed") else max(0.0, slack)) + iq["base"])
        if eq:
            hv.append(float(int(numpy.asarray(x).astype("int64").dot(self._t)) % eq["m"]))
        gv += _mc_vector_values(self._mcG, xf)
        hv += _mc_vector_values(self._mcH, xf)
        g = self.ineqcv_wt * numpy.array(gv, dtype=float) if gv else numpy.zeros(0)
        h = self.eqcv_wt * numpy.array(hv, dtype=float) if hv else numpy.zeros(0)
        return obj, g, h

    def data_arrays(self):
        d = {"_A": self._A, "_u": self._u, "_c": self._c, "_t": self._t}
        for nm, rows in (("_mcG", self._mcG), ("_mcH", self._mcH)):
            for r, (a, pm, b, form) in enumerate(rows):
                d["%s%d_a" % (nm, r)] = a
        return d

    def term_scale(self, x):
        xf = numpy.abs(numpy.asarray(x).astype(float))
        return numpy.abs(self.obj_wt) * (xf.dot(numpy.abs(self._A)) + abs(self._q) * xf.dot(numpy.abs(self._u)) ** 2)


def _vec_kwargs(spec, dtype):
    lo = numpy.array(spec["lo"], dtype=dtype)
    hi = numpy.array(spec["hi"], dtype=dtype)
    return dict(ndecn=spec["n"], decn_space=numpy.stack([lo, hi]), decn_space_lower=lo, decn_space_upper=hi,
                nobj=spec["nobj"], obj_wt=numpy.array(spec["wt"], dtype=float),
                elementwise=bool(spec.get("elementwise", True)), **_cv_wts(spec))


class HReal(_VecMixin, RealProblem):
    def __init__(self, spec):
        self._setup(spec)
        RealProblem.__init__(self, **_vec_kwargs(spec, "float64"))


class HInteger(_VecMixin, IntegerProblem):
    def __init__(self, spec):
        self._setup(spec)
        IntegerProblem.__init__(self, **_vec_kwargs(spec, "int64"))


class HBinary(_VecMixin, BinaryProblem):
    def __init__(self, spec):
        self._setup(spec)
        BinaryProblem.__init__(self, **_vec_kwargs(spec, "int64"))


def _ineq_lin_trans(decnvec, latentvec, c=None, cap=0, base=0, signed=False, rows=(), **kwargs):
    xf = numpy.asarray(decnvec).astype(float)
    out = []
    if c is not None:
        slack = float(xf.dot(c)) - cap
        out.append((slack if signed else max(0.0, slack)) + base)
    out += _mc_vector_values(rows, xf)
    return numpy.array(out, dtype=float)


VEC = {
    "real": (HReal, EstimatedBreedingValueRealSelectionProblem, "float64", RealSolution, RealGeneticAlgorithm, NSGA2RealGeneticAlgorithm),
    "integer": (HInteger, EstimatedBreedingValueIntegerSelectionProblem, "int64", IntegerSolution, IntegerGeneticAlgorithm, NSGA2IntegerGeneticAlgorithm),
    "binary": (HBinary, EstimatedBreedingValueBinarySelectionProblem, "int64", BinarySolution, BinaryGeneticAlgorithm, NSGA2BinaryGeneticAlgorithm),
}


def build_vector_problem(family, spec):
    hcls, ecls, dt = VEC[family][:3]
    if spec["kind"] == "table":
        return hcls(spec)
    kw = _vec_kwargs(spec, dt)
    iq = spec["ineq"]
    gkw = {"rows": _mc_arrays(_mc(spec)["G"])}
    if iq:
        gkw.update(c=numpy.array(iq["c"], dtype=float), cap=iq["cap"], base=iq["base"], signed=bool(iq.get("signed")))
    ng = spec_rows(spec)[0]
    kw.update(ebv=numpy.array(spec["A"], dtype=float).reshape(spec["n"], spec["nobj"]) * spec_scale(spec),
              ineqcv_trans=_ineq_lin_trans if ng else None, ineqcv_trans_kwargs=gkw if ng else None)
    return ecls(**kw)


def vector_term_scale(prob, spec, x):
    if spec["kind"] == "table":
        return prob.term_scale(x)
    xf = numpy.abs(numpy.asarray(x).astype(float))
    s = abs(float(numpy.asarray(x).astype(float).sum()))
    s = s if s >= 1e-10 else 1.0
    return numpy.abs(prob.obj_wt) * (xf.dot(numpy.abs(prob.ebv)) / s)


# =====================================================================================================================
# snapshots ("the problem object is not modified")
# =====================================================================================================================
_SCALARS = ("ndecn", "nobj", "nineqcv", "neqcv", "n_var", "n_obj", "n_ieq_constr", "n_eq_constr")
_ARRAYS = ("decn_space", "decn_space_lower", "decn_space_upper", "obj_wt", "ineqcv_wt", "eqcv_wt", "xl", "xu")


def snapshot(prob):
    snap = {"type": type(prob)}
    for a in _SCALARS:
        snap[a] = getattr(prob, a)
    for a in _ARRAYS:
        v = getattr(prob, a)
        snap[a] = None if v is None else (numpy.array(v, copy=True), id(v))
    data = prob.data_arrays() if hasattr(prob, "data_arrays") else {"ebv": prob.ebv}
    snap["data"] = {k: (numpy.array(v, copy=True), id(v)) for k, v in data.items()}
    for nm in ("obj_trans", "ineqcv_trans", "eqcv_trans"):
        if hasattr(prob, nm):
            snap[nm] = getattr(prob, nm)
    return snap


def check_unchanged(ctx, prob, snap, clause):
    bad = []
    if type(prob) is not snap["type"]:
        bad.append("type")
    for a in _SCALARS:
        if getattr(prob, a) != snap[a]:
            bad.append(a)
    for a in _ARRAYS:
        v = getattr(prob, a)
        if snap[a] is None:
            if v is not None:
                bad.append(a)
            continue
        ref, ident = snap[a]
        if v is None or id(v) != ident or v.dtype != ref.dtype or v.shape != ref.shape or not numpy.array_equal(v, ref):
            bad.append(a)
    data = prob.data_arrays() if hasattr(prob, "data_arrays") else {"ebv": prob.ebv}
    for k, (ref, ident) in snap["data"].items():
        v = data[k]
        if id(v) != ident or v.dtype != ref.dtype or v.shape != ref.shape or not numpy.array_equal(v, ref):
            bad.append(k)
    for nm in ("obj_trans", "ineqcv_trans", "eqcv_trans"):
        if nm in snap and getattr(prob, nm) is not snap[nm]:
            bad.append(nm)
    ctx.check(not bad, clause, lambda: "problem attributes changed by minimize(): %s" % bad)


# =====================================================================================================================
# shared oracle pieces
# =====================================================================================================================
def _fmt_soln(soln):
    return "returned decn=%s obj=%s ineqcv=%s eqcv=%s" % (
        numpy.asarray(soln.soln_decn).tolist(), numpy.asarray(soln.soln_obj).tolist(),
        numpy.asarray(soln.soln_ineqcv).tolist(), numpy.asarray(soln.soln_eqcv).tolist())


def check_solution_header(ctx, prob, soln, solcls, single):
    """Solution container: class, shapes, echoed problem description."""
    ctx.check(isinstance(soln, solcls), "soln.type", lambda: "minimize returned %s" % type(soln).__name__)
    ns = soln.nsoln
    ctx.check(isinstance(ns, (int, numpy.integer)) and ns >= 1, "soln.nsoln", lambda: "nsoln=%r" % (ns,))
    if single:
        ctx.check(ns == 1, "soln.single_objective_returns_one", lambda: "nsoln=%r; %s" % (ns, _fmt_soln(soln)))
    shp = (numpy.shape(soln.soln_decn), numpy.shape(soln.soln_obj), numpy.shape(soln.soln_ineqcv), numpy.shape(soln.soln_eqcv))
    want = ((ns, prob.ndecn), (ns, prob.nobj), (ns, prob.nineqcv), (ns, prob.neqcv))
    ctx.check(shp == want, "soln.shapes", lambda: "shapes %s, expected %s" % (shp, want))
    same = (soln.ndecn == prob.ndecn and soln.nobj == prob.nobj and soln.nineqcv == prob.nineqcv and soln.neqcv == prob.neqcv
            and numpy.array_equal(soln.decn_space, prob.decn_space) and numpy.array_equal(soln.obj_wt, prob.obj_wt)
            and numpy.array_equal(soln.ineqcv_wt, prob.ineqcv_wt) and numpy.array_equal(soln.eqcv_wt, prob.eqcv_wt))
    ctx.check(same, "soln.problem_description_echoed", "Solution metadata differs from the problem's")
    return int(ns)


def _close_vec(a, b, tol):
    a = numpy.asarray(a, dtype=float).ravel()
    b = numpy.asarray(b, dtype=float).ravel()
    if a.shape != b.shape:
        return False
    if not (numpy.isfinite(a).all() and numpy.isfinite(b).all()):
        return bool(numpy.array_equal(a, b))
    tol = numpy.broadcast_to(numpy.asarray(tol, dtype=float), a.shape) if a.size else tol
    return bool((numpy.abs(a - b) <= tol).all())


def check_truthful(ctx, prob, soln, ns, scale_fn, prefix):
    """reported objective / constraint values equal a fresh evaluation at the returned decision; returns fresh values"""
    fresh = []
    for i in range(ns):
        x = numpy.array(soln.soln_decn[i], copy=True)
        obj, g, h = prob.evalfn(x)
        sc = scale_fn(x)
        ctx.check(_close_vec(soln.soln_obj[i], obj, 64 * EPS * numpy.asarray(sc, dtype=float)), prefix + ".truthful_obj",
                  lambda: "row %d: reported obj %s, fresh evaluation %s; %s" % (
                      i, numpy.asarray(soln.soln_obj[i]).tolist(), numpy.asarray(obj).tolist(), _fmt_soln(soln)))
        ctx.check(_close_vec(soln.soln_ineqcv[i], g, 64 * EPS * (1.0 + numpy.abs(numpy.asarray(g, dtype=float)))), prefix + ".truthful_ineqcv",
                  lambda: "row %d: reported ineqcv %s, fresh %s; %s" % (
                      i, numpy.asarray(soln.soln_ineqcv[i]).tolist(), numpy.asarray(g).tolist(), _fmt_soln(soln)))
        ctx.check(_close_vec(soln.soln_eqcv[i], h, 64 * EPS * (1.0 + numpy.abs(numpy.asarray(h, dtype=float)))), prefix + ".truthful_eqcv",
                  lambda: "row %d: reported eqcv %s, fresh %s; %s" % (
                      i, numpy.asarray(soln.soln_eqcv[i]).tolist(), numpy.asarray(h).tolist(), _fmt_soln(soln)))
        fresh.append(([float(v) for v in obj], total_cv(g, h)))
    return fresh


def check_nondominated(ctx, soln, fresh, prefix):
    for i, (fi, ci) in enumerate(fresh):
        for j, (fj, cj) in enumerate(fresh):
            if i != j and ref_dominates(fj, cj, fi, ci):
                ctx.fail(prefix + ".dominated_member_returned",
                         "row %d (obj %s, cv %s) is dominated by row %d (obj %s, cv %s); %s" % (i, fi, ci, j, fj, cj, _fmt_soln(soln)))


def check_subset_rows(ctx, prob, soln, ns, prefix, skip_distinct=False):
    space = set(int(e) for e in prob.decn_space)
    dk = numpy.asarray(soln.soln_decn).dtype.kind
    ctx.check(dk in "iu", prefix + ".decn_dtype", lambda: "subset decision dtype %s" % numpy.asarray(soln.soln_decn).dtype)
    allok = True
    for i in range(ns):
        row = [e for e in numpy.asarray(soln.soln_decn[i]).tolist()]
        ctx.check(len(row) == prob.ndecn, prefix + ".size", lambda: "row %d has %d members, ndecn=%d" % (i, len(row), prob.ndecn))
        ctx.check(all(e in space for e in row), prefix + ".members_in_space",
                  lambda: "row %d = %s has members outside decn_space %s" % (i, row, sorted(space)))
        if len(set(row)) != len(row):
            allok = False
            if not skip_distinct:
                ctx.fail(prefix + ".members_distinct", "row %d = %s repeats a member; %s" % (i, row, _fmt_soln(soln)))
    return allok


@contextlib.contextmanager
def seeded_entropy(seed):
    """best-effort determinism for pymoo (see ASSUMPTIONS); no oracle depends on it"""
    orig = numpy.random.default_rng
    ss = numpy.random.SeedSequence(int(seed))

    def patched(s=None):
        if s is None:
            s = ss.spawn(1)[0]
        return orig(s)

    numpy.random.default_rng = patched
    numpy.random.seed(int(seed) % (2 ** 32))
    try:
        yield
    finally:
        numpy.random.default_rng = orig


# =====================================================================================================================
# strategies
# =====================================================================================================================
WT = [1.0, 1.0, -1.0, -1.0, 2.0, 0.5, -3.0]
CVWT = [1.0, 1.0, 2.0, 0.5]


# exponents of the unit of the objective data ("any objective data": per-locus variances ~1e-9 ... sums of squares ~1e15)
# (Hypothesis over-samples the two ends of a sampled_from list: the common choice sits at both ends)
SCALE_EXP = [0] * 4 + [-12, -9, -9, -6, -3, 4, 9, 15] + [0] * 3
NEAR_TIE_STEP = 2.0 ** -36          # ~1.5e-11: candidates that differ in the 11th digit (sums stay exactly representable)
EW_FALSE = [False, False, True, False, True, False, True, False]
# position-dependent problems (member x[i] fills ordered slot i): share of the table problems, per sub-check
SLOT_EXACT = [False, True, False, True, False]
SLOT_GA = [False, False, True, False, False, False]
# "multi": several constraint rows of both kinds built from small integers (counts), see mc_rows
CONS_EXACT = ["none", "none", "multi", "ineq", "multi", "eq", "multi", "both", "ineq", "multi", "none"]
CONS_GA = ["none", "none", "multi", "ineq", "ineq", "multi", "eq", "both", "none"]
CONS_MATRIX_GA = ["ineq", "both", "multi", "none", "both", "multi", "eq", "both", "ineq"]   # population-wise evaluation stacks F, G and H separately
# numbers of (inequality, equality) rows of a "multi" problem
MC_COUNTS = [[1, 1], [2, 1], [1, 2], [0, 2], [2, 2], [1, 1], [3, 1], [2, 0], [0, 3], [1, 3], [1, 1]]
MC_A = [0, 1, 1, 0, 2, 0, 1]
MC_FAMILIES = [True, False, True]


def _numbers(draw, count):
    mode = draw(st.sampled_from(["int", "float", "neartie", "few", "int"]))
    if mode == "neartie":
        c = draw(st.sampled_from([1.0, -2.0, 3.0, 0.0]))
        return [c + j * NEAR_TIE_STEP for j in draw(st.lists(st.integers(-6, 6), min_size=count, max_size=count))]
    if mode == "int":
        return [float(v) for v in draw(st.lists(st.integers(-5, 5), min_size=count, max_size=count))]
    if mode == "few":
        return [float(v) for v in draw(st.lists(st.sampled_from([0, 1, 1, 2]), min_size=count, max_size=count))]
    return draw(st.lists(st.floats(-8.0, 8.0, allow_nan=False, allow_infinity=False), min_size=count, max_size=count))


@st.composite
def mc_rows(draw, n, collect, bmax, eq_ok=True, signed_ok=False, feasible_bias=True, npos=0, both_kinds=False):
    """Several constraint rows of both kinds whose data come from small integer sets: row value =
    form( sum of the integers a[.] the decision collects - b ), the shape of every count restriction ("members from
    family A", "at most two from family B", "load on unit c").  Rows may repeat or complement the previous row's
    membership vector (a partition into families), and mostly share one weight, so that exchanges which move violation
    from one row to another leave the aggregate violation exactly tied while the individual rows change; exact ties
    between the violations of different decisions are the rule, not the exception.
    collect(a, posmask) = what a witness decision drawn by the caller collects: offsets taken from it make the witness
    satisfy the row (jointly feasible problems), the other offsets are arbitrary small integers."""
    counts = MC_COUNTS if eq_ok else [[2, 0], [3, 0], [2, 0]]
    ng, nh = draw(st.sampled_from([c for c in counts if c[0] and c[1]] if both_kinds else counts))
    common_wt = draw(st.sampled_from(CVWT))
    # pymoo-backed optimisers: three problems in four are satisfiable as a whole (every offset from the witness)
    all_witness = feasible_bias and draw(st.sampled_from([True, True, False, True]))
    # families: membership vectors 0/1, later rows mostly the complement of the previous one (a partition of the candidates
    # into families with a count restriction each), one weight, low offsets -- the aggregate violation is then constant
    # over a whole region of the decision space while its rows are not
    families = both_kinds and draw(st.sampled_from(MC_FAMILIES))
    out = {"G": [], "H": []}
    prev = None
    for kind in ["H"] * nh + ["G"] * ng:
        if families:
            rel = "free" if prev is None else draw(st.sampled_from(["complement", "free", "complement"]))
        else:
            rel = "free" if prev is None else draw(st.sampled_from(["free", "complement", "free", "complement", "same"]))
        if rel == "free":
            a = draw(st.lists(st.sampled_from([0, 1] if families else MC_A), min_size=n, max_size=n))
        elif rel == "complement":
            a = [1 - min(1, v) for v in prev]
        else:
            a = list(prev)
        prev = a
        row = {"a": a, "wt": common_wt if (families or draw(st.sampled_from([True, True, False, True]))) else draw(st.sampled_from(CVWT))}
        if npos and draw(st.sampled_from([False, False, True, False, False])):
            row["posmask"] = draw(st.lists(st.integers(0, 1), min_size=npos, max_size=npos))    # counted at masked positions only
        if kind == "G":
            row["form"] = "signed" if (signed_ok and draw(st.sampled_from([False, True, False]))) else "pos"
        else:
            row["form"] = "signed" if (signed_ok and draw(st.sampled_from([False, False, True, False]))) else "abs"
        how = "witness" if all_witness else ("any" if families else draw(st.sampled_from(["any", "witness", "any"])))
        if how == "witness":
            row["b"] = collect(a, row.get("posmask")) + (draw(st.sampled_from([0, 0, 1])) if kind == "G" else 0)
        else:
            # arbitrary small offset, often well below what a decision collects: several rows violated at once, an
            # exchange then moves violation between rows
            row["b"] = draw(st.integers(0, bmax)) // draw(st.sampled_from([1, 2, 4, 2]))
        out[kind].append(row)
    return out


@st.composite
def subset_spec(draw, nobj, nmax=12, kmax=6, infeasible_ok=False, matrix_eval=False, signed_ok=False, slot=SLOT_GA,
                cons_lists=(CONS_GA, CONS_MATRIX_GA), feasible_bias=True, tie_prone=False):
    # tie_prone: ONE draw of the caller fixes the combination "several integer-valued constraint rows of both kinds + an
    # objective that is not a sum of per-member terms" (a conjunction of independent draws comes out too unevenly)
    kind = draw(st.sampled_from(["table", "table", "ebv", "table"] if tie_prone else ["table", "table", "table", "ebv"]))
    shape = draw(st.sampled_from(["typical"] * 8 + ["any", "typical"] if tie_prone else ["typical"] * 7 + ["any", "any", "full"]))
    if shape == "typical":
        n = draw(st.integers(3, nmax))
        k = draw(st.integers(2, min(n - 1, kmax)))
    elif shape == "any":
        n = draw(st.integers(1, nmax))
        k = draw(st.integers(1, min(n, kmax)))
    else:
        n = draw(st.integers(1, kmax))
        k = n
    spec = {"kind": kind, "k": k, "nobj": nobj, "wt": [draw(st.sampled_from(WT)) for _ in range(nobj)],
            "scale_exp": draw(st.sampled_from(SCALE_EXP))}
    if matrix_eval and draw(st.sampled_from(EW_FALSE)):
        spec["elementwise"] = False         # pymoo then hands the whole population matrix to Problem._evaluate
    if kind == "table":
        if draw(st.booleans()):
            spec["labels"] = list(range(n))
        else:
            spec["labels"] = draw(st.lists(st.integers(-6, 40), min_size=n, max_size=n, unique=True))
        spec["vals"] = _numbers(draw, n * nobj)
        spec["q"] = draw(st.sampled_from([1.0, 0.0, -1.0, 0.5, 1.0] if tie_prone else [0.0, 0.0, 0.0, 1.0, -1.0, 0.5]))
        spec["u"] = draw(st.lists(st.integers(-2, 2), min_size=n, max_size=n))
        # evalfn receives a decision VECTOR: a cost per (candidate, position) makes its value depend on where a member sits
        spec["slot"] = _numbers(draw, n * k) if draw(st.sampled_from(slot)) else None
    else:
        nrow = n + draw(st.integers(0, 3))
        spec["labels"] = list(draw(st.permutations(list(range(nrow)))))[:n]
        spec["nrow"] = nrow
        if nobj == 1:
            spec["ntrait"] = draw(st.integers(1, 2))
            spec["trans"] = "sum" if spec["ntrait"] > 1 else draw(st.sampled_from(["identity", "sum"]))
        else:
            spec["ntrait"] = nobj
            spec["trans"] = "identity"
        spec["ebv"] = _numbers(draw, nrow * spec["ntrait"])
    cons = "multi" if tie_prone else draw(st.sampled_from(cons_lists[0] if spec.get("elementwise", True) else cons_lists[1]))
    spec["ineq"] = None
    spec["eq"] = None
    spec["mc"] = None
    if cons == "multi":
        wit = list(draw(st.permutations(list(range(n)))))[:k]       # witness decision: candidate numbers in position order
        spec["mc"] = draw(mc_rows(
            n, lambda a, pm: sum(a[j] * (pm[i] if pm else 1) for i, j in enumerate(wit)), bmax=k, signed_ok=signed_ok,
            feasible_bias=feasible_bias, both_kinds=tie_prone, npos=k if (kind == "table" and draw(st.sampled_from(slot))) else 0))
        # the classic single rows (capped count; sum mod m) may stand in front of them
        cons = draw(st.sampled_from(["none", "none", "ineq", "none", "eq", "none"]))
    if cons in ("ineq", "both"):
        base = 1 if (infeasible_ok and draw(st.sampled_from([False] * 3 + [True] + [False] * 4))) else 0
        spec["ineq"] = {"flags": draw(st.lists(st.integers(0, 1), min_size=n, max_size=n)),
                        "cap": draw(st.integers(0, k)), "base": base, "wt": draw(st.sampled_from(CVWT)),
                        # signed slack (negative = satisfied with room to spare) only where pymoo's G <= 0 rule decides feasibility
                        "signed": bool(signed_ok and draw(st.sampled_from([False, True, False])))}
        if kind == "table" and draw(st.sampled_from(slot)):
            # flagged members count only at the masked positions: a position-dependent constraint
            spec["ineq"]["posmask"] = draw(st.lists(st.integers(0, 1), min_size=k, max_size=k))
    if cons in ("eq", "both"):
        spec["eq"] = {"t": draw(st.lists(st.integers(0, 3), min_size=n, max_size=n)), "m": draw(st.sampled_from([2, 2, 3])),
                      "wt": draw(st.sampled_from(CVWT))}
    return spec


@st.composite
def exact_case(draw):
    tie_prone = draw(st.sampled_from([False, True, False, True, False, True, False]))
    algo = draw(st.sampled_from(["ssd", "sd", "ssd", "sd"] if tie_prone else ["sorting", "sd", "ssd", "sorting", "sd"]))
    spec = draw(subset_spec(1, infeasible_ok=True, slot=SLOT_EXACT, cons_lists=(CONS_EXACT, CONS_EXACT), feasible_bias=False,
                            tie_prone=tie_prone))
    rng = {"type": draw(st.sampled_from(["RandomState", "Generator", "global"])), "seed": draw(st.integers(0, 2 ** 31 - 1))}
    return {"algo": algo, "spec": spec, "rng": rng}


@st.composite
def ga_subset_case(draw):
    algo = draw(st.sampled_from(["SubsetGA", "SubsetGA", "NSGA2", "NSGA2", "NSGA3", "MemeticSteepest", "MemeticStochastic",
                                 "MemeticMutatorA", "MemeticMutatorB"]))
    nobj = 1 if algo == "SubsetGA" else draw(st.sampled_from([2, 2, 3]))
    spec = draw(subset_spec(nobj, nmax=10, kmax=5, infeasible_ok=True, matrix_eval=True, signed_ok=True))
    case = {"algo": algo, "spec": spec, "ngen": draw(st.integers(1, 6)), "pop": draw(st.integers(4, 16)),
            "seed": draw(st.integers(0, 2 ** 31 - 1))}
    if algo == "NSGA3":
        case["nrefpts"] = draw(st.sampled_from([None, 3, 6, 10]) if nobj == 3 else st.sampled_from([None, 2, 4, 7, 12]))
        if nobj == 3 and case["nrefpts"] is None:
            case["pop"] = draw(st.sampled_from([6, 10, 15]))      # nrefpts defaults to pop_size: Das-Dennis counts only
    if algo.startswith("Memetic"):
        case["phc"] = draw(st.sampled_from([0.0, 0.1, 0.5, 1.0]))
        if algo != "MemeticSteepest":
            case["nhcstep"] = draw(st.sampled_from([None, None, 1, 2, 3, 5, 8]))
    return case


@st.composite
def vector_spec(draw, family, nobj, matrix_both=False):
    # matrix_both: one draw of the caller decides the whole combination (population-wise evaluation of a problem with an
    # inequality and an equality constraint) -- a conjunction of four independent draws is produced too unevenly
    kind = "table" if matrix_both else draw(st.sampled_from(["table", "table", "table", "ebv"]))
    n = draw(st.integers(1, 7))
    spec = {"kind": kind, "n": n, "nobj": nobj, "wt": [draw(st.sampled_from(WT)) for _ in range(nobj)],
            "scale_exp": draw(st.sampled_from(SCALE_EXP))}
    if matrix_both or draw(st.sampled_from(EW_FALSE)):
        spec["elementwise"] = False
    lo, hi = [], []
    for _ in range(n):
        if family == "binary":
            a, b = 0, 1         # callers never pin a binary variable; the pymoo bit operators ignore bounds
        elif family == "integer":
            a = draw(st.integers(0 if kind == "ebv" else -3, 3))
            b = a + draw(st.sampled_from([0, 1, 1, 2, 5, 9]))
        else:
            a = draw(st.sampled_from([0.0, 0.25, 1.0] if kind == "ebv" else [-2.5, -1.0, 0.0, 0.25, 1.0]))
            b = a + draw(st.sampled_from([0.0, 0.5, 1.0, 3.75]))
        lo.append(a)
        hi.append(b)
    if kind == "ebv" and all(h == 0 for h in hi):
        hi[0] = 1 if family != "real" else 1.0
    spec["lo"], spec["hi"] = lo, hi
    spec["A"] = _numbers(draw, n * nobj)
    spec["q"] = draw(st.sampled_from([0.0, 0.0, 1.0, -0.5])) if kind == "table" else 0.0
    spec["u"] = draw(st.lists(st.integers(-2, 2), min_size=n, max_size=n))
    cons = draw(st.sampled_from(["none", "none", "multi", "ineq", "ineq", "multi", "eq", "both", "none"]
                                if spec.get("elementwise", True) else CONS_MATRIX_GA))
    eq_ok = not (kind == "ebv" or family == "real")             # equality on a real vector: measure-zero feasible set
    spec["ineq"] = None
    spec["eq"] = None
    spec["mc"] = None
    if cons == "multi" or (matrix_both and draw(st.sampled_from([False, True, False]))):
        if family == "real":
            wit = [a + draw(st.sampled_from([0.0, 0.5, 1.0, 0.5])) * (b - a) for a, b in zip(lo, hi)]
        else:
            wit = [draw(st.integers(a, b)) for a, b in zip(lo, hi)]
        spec["mc"] = draw(mc_rows(n, lambda a, pm: sum(ai * xi for ai, xi in zip(a, wit)), bmax=max(1, int(max(hi))),
                                  eq_ok=eq_ok, signed_ok=True))
        cons = draw(st.sampled_from(["none", "none", "ineq", "none", "eq", "none"]))
    if matrix_both:
        cons = "both"
    elif not eq_ok:
        cons = {"eq": "ineq", "both": "ineq"}.get(cons, cons)
    if cons in ("ineq", "both"):
        c = draw(st.lists(st.integers(0, 2), min_size=n, max_size=n))
        lo_load = sum(ci * a for ci, a in zip(c, lo))
        hi_load = sum(ci * b for ci, b in zip(c, hi))
        frac = draw(st.sampled_from([0.25, 0.5, 0.75, 1.0]))
        base = 1 if draw(st.sampled_from([False] * 4 + [True] + [False] * 5)) else 0
        spec["ineq"] = {"c": c, "cap": float(lo_load + frac * (hi_load - lo_load)), "base": base, "wt": draw(st.sampled_from(CVWT)),
                        "signed": draw(st.sampled_from([False, True, False]))}
    if cons in ("eq", "both"):
        spec["eq"] = {"t": draw(st.lists(st.integers(0, 3), min_size=n, max_size=n)), "m": draw(st.sampled_from([2, 2, 3])),
                      "wt": draw(st.sampled_from(CVWT))}
    return spec


@st.composite
def ga_vector_case(draw):
    matrix_both = draw(st.sampled_from([False] * 3 + [True] + [False] * 3))
    family = draw(st.sampled_from(["integer", "binary"] if matrix_both else ["real", "integer", "binary"]))
    mo = draw(st.booleans())
    nobj = draw(st.sampled_from([2, 2, 3])) if mo else 1
    case = {"family": family, "mo": mo, "spec": draw(vector_spec(family, nobj, matrix_both)), "ngen": draw(st.integers(1, 6)),
            "pop": draw(st.integers(4, 16)), "seed": draw(st.integers(0, 2 ** 31 - 1))}
    # the box of an existing problem object re-declared through its public properties before it is optimised: per variable the
    # quarters of the width cut off below and above (binary variables are never pinned, see vector_spec)
    if family != "binary" and draw(st.sampled_from([False, True, False])):
        case["rebound"] = [[draw(st.integers(0, 3)), draw(st.integers(0, 3))] for _ in range(case["spec"]["n"])]
    return case


# =====================================================================================================================
# sub-check: exact optimisers
# =====================================================================================================================
def _make_rng(r):
    if r["type"] == "RandomState":
        return numpy.random.RandomState(r["seed"])
    if r["type"] == "Generator":
        return numpy.random.default_rng(r["seed"])
    numpy.random.seed(r["seed"])           # the runner restores the global stream after the case
    return None


def _scale_labels(ctx, spec):
    e = int(spec.get("scale_exp", 0))
    ctx.label("objective_unit<=1e-6", e <= -6)
    ctx.label("objective_unit>=1e4", e >= 4)
    ng, nh = spec_rows(spec)
    both = ng >= 1 and nh >= 1
    ctx.label("several_constraint_rows", ng + nh >= 2)
    ctx.label("several_rows_of_both_kinds", both and ng + nh >= 3)
    ctx.label("matrix_evaluation", spec.get("elementwise", True) is False)
    ctx.label("matrix_evaluation_with_ineq_and_eq", spec.get("elementwise", True) is False and both)


def _spec_labels(ctx, spec, nobj_vals):
    n, k = len(spec["labels"]), spec["k"]
    ctx.label("kind=" + spec["kind"])
    ctx.label("constrained", is_constrained(spec))
    ctx.label("infeasible_by_construction", bool(spec["ineq"] and spec["ineq"]["base"]))
    ctx.label("n==k", n == k)
    ctx.label("k==1", k == 1)
    ctx.label("labels_not_arange", list(spec["labels"]) != list(range(n)))
    ctx.label("nonseparable", spec["kind"] == "table" and spec["q"] != 0.0)
    ctx.label("position_dependent_objective", bool(spec.get("slot")))
    ctx.label("position_dependent_constraint", bool(spec["ineq"] and spec["ineq"].get("posmask")))
    _scale_labels(ctx, spec)
    return ctx.nontrivial(n > k >= 2 and nobj_vals >= 3)


def check_exact(case, ctx):
    spec, algo = case["spec"], case["algo"]
    prob = build_subset_problem(spec)
    n, k = len(spec["labels"]), spec["k"]
    space = [int(e) for e in prob.decn_space]
    singles = [prob.evalfn(numpy.array([e]))[0] for e in space]
    distinct_vals = len(set(float(s[0]) for s in singles))
    _spec_labels(ctx, spec, distinct_vals)
    ctx.label("algo=" + algo)
    sv = sorted(set(float(s[0]) for s in singles))
    ctx.label("distinct_single_values_closer_than_1e-8", any(b - a < 1e-8 for a, b in zip(sv, sv[1:])))
    constrained = is_constrained(spec)
    # "separable" in the property's sense: the value is a sum of per-member terms of the selected SET.  A position-
    # dependent objective is not a function of the set at all (the same members in another order score differently), so
    # neither the sorting rule nor a brute force over C(n,k) sets says anything about it: clause not applied.
    position_dependent = bool(spec.get("slot") or (spec["ineq"] and spec["ineq"].get("posmask")))
    separable = (spec["kind"] == "ebv" or spec["q"] == 0.0) and not spec.get("slot")

    dup_start = False
    if algo == "sorting":
        opt = SortingSubsetOptimizationAlgorithm()
    elif algo == "ssd":
        opt = SortingSteepestDescentSubsetHillClimber()
    else:
        ctx.label("rng=" + case["rng"]["type"])
        # input-side signature of F-C06-a: the start the class draws from this generator state, rng.choice(space, k),
        # i.e. WITH replacement, repeats an element (recomputed on a twin generator, never from the outcome)
        twin = _make_rng(case["rng"])
        twin = twin if twin is not None else numpy.random.RandomState(case["rng"]["seed"])
        start = twin.choice(numpy.array(space, dtype="int64"), k)
        dup_start = len(set(start.tolist())) < k
        ctx.label("sd_start_with_replacement_has_duplicate", dup_start)
        opt = SteepestDescentSubsetHillClimber(rng=_make_rng(case["rng"]))

    snap = snapshot(prob)
    misc = {}
    soln = opt.minimize(prob, miscout=misc)
    ns = check_solution_header(ctx, prob, soln, SubsetSolution, single=True)
    known_dup = algo == "sd" and ctx.known("F-C06-a", dup_start)
    valid = check_subset_rows(ctx, prob, soln, ns, "subset", skip_distinct=known_dup)
    scale = lambda x: subset_term_scale(prob, spec, x)       # noqa: E731
    fresh = check_truthful(ctx, prob, soln, ns, scale, "exact")
    check_unchanged(ctx, prob, snap, "problem_modified")

    x = numpy.array(soln.soln_decn[0], copy=True)
    fx, cvx = fresh[0]

    # ---- sorting optimiser attains the brute-force optimum (separable, unconstrained, single objective) -------------
    if algo in ("sorting", "ssd") and separable and not constrained:
        m = max(abs(float(s[0])) for s in singles)
        tol = 8 * k * EPS * k * m
        best, arg = None, None
        for comb in itertools.combinations(space, k):
            v = float(prob.evalfn(numpy.array(comb, dtype="int64"))[0][0])
            if best is None or v < best:
                best, arg = v, comb
        ctx.label("bruteforce_compared")
        ctx.check(fx[0] <= best + tol, "%s.not_bruteforce_optimum" % ("sorting" if algo == "sorting" else "sortingclimber"),
                  lambda: "returned %s with objective %r; brute force over C(%d,%d) subsets finds %s with %r" % (
                      x.tolist(), fx[0], n, k, list(arg), best))

    # ---- hill-climbers stop only at 1-exchange local optima --------------------------------------------------------
    if algo in ("sd", "ssd") and valid:
        score = float(sum(fx))
        outside = [e for e in space if e not in set(x.tolist())]
        gx, hx = prob.evalfn(x)[1:]
        tied_rows_differ = tied_eq_differs = tied_score = False
        for i in range(k):
            for e in outside:
                y = x.copy()
                y[i] = e
                o, g, h = prob.evalfn(y)
                cvy = float(numpy.sum(g) + numpy.sum(h))
                sy = float(numpy.sum(o))
                if cvy == cvx:
                    # the situation small-integer constraint data are generated for: same aggregate, other rows
                    tied_rows_differ = tied_rows_differ or not (numpy.array_equal(g, gx) and numpy.array_equal(h, hx))
                    tied_eq_differs = tied_eq_differs or not numpy.array_equal(h, hx)
                    tied_score = tied_score or sy == score
                better = cvy < cvx or (cvy == cvx and sy < score)
                if better:
                    ctx.fail("hillclimber.not_local_optimum",
                             "%s returned %s (cv %r, score %r) but replacing position %d by %d gives cv %r, score %r" % (
                                 type(opt).__name__, x.tolist(), cvx, score, i, e, cvy, sy))
        ctx.label("local_optimality_scanned")
        ctx.label("neighbour_with_tied_aggregate_violation_but_different_rows", tied_rows_differ)
        ctx.label("neighbour_with_tied_aggregate_violation_but_different_equality_rows", tied_eq_differs)
        ctx.label("neighbour_with_tied_violation_and_tied_score", tied_score)
        ctx.label("local_optimality_scanned_position_dependent", position_dependent)
        ctx.label("local_optimality_scanned_position_dependent_n==k+1", position_dependent and n == k + 1)
        if "gbest_score" in misc:
            ctx.check(float(misc["gbest_score"]) == score and float(misc["gbest_cv"]) == cvx, "hillclimber.miscout_truthful",
                      lambda: "miscout %r vs fresh score %r cv %r" % (misc, score, cvx))


# =====================================================================================================================
# sub-check: subset GAs
# =====================================================================================================================
_EMPTY_COMPLEMENT = ("division", "a must be greater than 0", "need at least one array to stack")
_NONE_RESULT = ("object of type 'NoneType' has no len()", "'soln' must have dimension equal to 2")


def _run_ga(ctx, opt, prob, seed, constrained, prefix):
    """run a pymoo-backed optimiser; returns Solution or None when the run ended in the known no-feasible crash"""
    try:
        with seeded_entropy(seed):
            return opt.minimize(prob)
    except (TypeError, ValueError) as e:
        if constrained and any(s in str(e) for s in _NONE_RESULT):
            # pymoo reports res.X = None when the final population has no feasible member
            ctx.label("crash_no_feasible_member")
            if ctx.known("F-C06-b", constrained):
                return None
            ctx.fail(prefix + ".crash_when_no_feasible_solution",
                     "%s.minimize raised %s: %s on a constrained problem (no feasible individual found)" % (
                         type(opt).__name__, type(e).__name__, e))
            return None
        raise


def _matrix_eval_excluded(ctx, spec, force=False):
    """F-C06-e: opt.prob.Problem._evaluate is broken for matrix input (`self.evalfn(v *args, **kwargs)`): every direct
    subclass of the opt.prob classes evaluated with elementwise=False (or by an operator that calls _evaluate with a
    matrix) crashes, or for ndecn == 1 silently evaluates the empty decision.  Evaluation as a whole is affected, so
    the case is excluded (counted) while the finding is listed as known."""
    sig = spec["kind"] == "table" and (force or spec.get("elementwise", True) is False)
    ctx.label("matrix_evaluation_of_direct_Problem_subclass", sig)
    return ctx.known("F-C06-e", sig)


def check_ga_subset(case, ctx):
    spec, algo = case["spec"], case["algo"]
    prob = build_subset_problem(spec)
    n, k, nobj = len(spec["labels"]), spec["k"], spec["nobj"]
    space = [int(e) for e in prob.decn_space]
    singles = [prob.evalfn(numpy.array([e]))[0] for e in space]
    _spec_labels(ctx, spec, len(set(tuple(float(v) for v in s) for s in singles)))
    ctx.label("algo=" + algo)
    constrained = is_constrained(spec)
    kw = {"ngen": case["ngen"], "pop_size": case["pop"]}
    if algo == "SubsetGA":
        opt = SubsetGeneticAlgorithm(**kw)
    elif algo == "NSGA2":
        opt = NSGA2SubsetGeneticAlgorithm(**kw)
    elif algo == "NSGA3":
        opt = NSGA3SubsetGeneticAlgorithm(nrefpts=case.get("nrefpts"), **kw)
    else:
        kw["phc"] = case["phc"]
        if "nhcstep" in case:
            kw["nhcstep"] = case["nhcstep"]
        opt = MEMETIC[algo](**kw)

    # input-side signatures of the two memetic findings
    nhc = case.get("nhcstep") or k
    hc_active = algo.startswith("Memetic") and case.get("phc", 0.0) > 0.0
    sig_c = hc_active and algo in ("MemeticMutatorA", "MemeticMutatorB") and n > k and nhc > n - k
    sig_d = hc_active and n == k and (algo in ("MemeticMutatorA", "MemeticMutatorB", "MemeticStochastic")
                                      or (algo == "MemeticSteepest" and spec.get("elementwise", True) is False))
    ctx.label("memetic_allele_tile_repeats", sig_c)
    ctx.label("memetic_empty_complement", sig_d)

    if _matrix_eval_excluded(ctx, spec):
        return
    snap = snapshot(prob)
    try:
        soln = _run_ga(ctx, opt, prob, case["seed"], constrained, "ga")
    except (ZeroDivisionError, ValueError) as e:
        if sig_d and any(t in str(e) for t in _EMPTY_COMPLEMENT):
            ctx.label("crash_empty_complement")
            if not ctx.known("F-C06-d", sig_d):
                ctx.fail("memetic.crash_when_space_equals_subset", "%s.minimize raised %s: %s with len(decn_space) == ndecn == %d" % (
                    type(opt).__name__, type(e).__name__, e, k))
            return
        raise
    check_unchanged(ctx, prob, snap, "problem_modified")
    if soln is None:
        return
    ns = check_solution_header(ctx, prob, soln, SubsetSolution, single=(nobj == 1))
    ctx.label("front_size>=2", ns >= 2)
    ctx.label("front_size==1", ns == 1)
    check_subset_rows(ctx, prob, soln, ns, "subset", skip_distinct=ctx.known("F-C06-c", sig_c))
    fresh = check_truthful(ctx, prob, soln, ns, lambda x: subset_term_scale(prob, spec, x), "ga")
    ctx.check(all(cv <= 0.0 for _, cv in fresh) or ns == 1, "ga.infeasible_member_in_front",
              lambda: "a multi-member result contains an infeasible row; %s" % _fmt_soln(soln))
    check_nondominated(ctx, soln, fresh, "ga")


# =====================================================================================================================
# sub-check: vector GAs
# =====================================================================================================================
def check_ga_vector(case, ctx):
    family, spec = case["family"], case["spec"]
    prob = build_vector_problem(family, spec)
    solcls, socls, mocls = VEC[family][3:]
    n, nobj = spec["n"], spec["nobj"]
    ctx.label("family=" + family)
    ctx.label("multiobjective" if case["mo"] else "singleobjective")
    ctx.label("kind=" + spec["kind"])
    constrained = is_constrained(spec)
    ctx.label("constrained", constrained)
    ctx.label("infeasible_by_construction", bool(spec["ineq"] and spec["ineq"]["base"]))
    ctx.label("has_pinned_variable", any(a == b for a, b in zip(spec["lo"], spec["hi"])))
    _scale_labels(ctx, spec)
    ctx.nontrivial(n >= 2 and len(set(spec["A"])) >= 3)
    opt = (mocls if case["mo"] else socls)(ngen=case["ngen"], pop_size=case["pop"])
    if _matrix_eval_excluded(ctx, spec):
        return
    lo = numpy.array(spec["lo"], dtype=float)
    hi = numpy.array(spec["hi"], dtype=float)
    if case.get("rebound"):
        cut = numpy.array(case["rebound"], dtype=float)
        lo2 = lo + cut[:, 0] * (hi - lo) / 4.0
        hi2 = numpy.maximum(lo2, hi - cut[:, 1] * (hi - lo) / 4.0)
        if family == "integer":
            lo2, hi2 = numpy.ceil(lo2), numpy.maximum(numpy.ceil(lo2), numpy.floor(hi2))
        if not (spec["kind"] == "ebv" and not (hi2 > 0).any()):
            dt = VEC[family][2]
            prob.decn_space = numpy.stack([lo2, hi2]).astype(dt)
            prob.decn_space_lower = lo2.astype(dt)
            prob.decn_space_upper = hi2.astype(dt)
            ctx.label("box_redeclared_before_optimisation")
            ctx.label("box_redeclared_strictly_narrower", bool((lo2 > lo).any() or (hi2 < hi).any()))
            lo, hi = lo2, hi2
    snap = snapshot(prob)
    soln = _run_ga(ctx, opt, prob, case["seed"], constrained, "ga")
    check_unchanged(ctx, prob, snap, "problem_modified")
    if soln is None:
        return
    ns = check_solution_header(ctx, prob, soln, solcls, single=not case["mo"])
    ctx.label("front_size>=2", ns >= 2)
    X = numpy.asarray(soln.soln_decn)
    if family == "real":
        ctx.check(X.dtype.kind == "f", "vector.real_dtype", lambda: "dtype %s" % X.dtype)
    elif family == "integer":
        ctx.check(X.dtype.kind in "iu", "vector.integer_dtype", lambda: "dtype %s; %s" % (X.dtype, _fmt_soln(soln)))
    else:
        ctx.check(X.dtype.kind in "biu", "vector.binary_dtype", lambda: "dtype %s; %s" % (X.dtype, _fmt_soln(soln)))
        ctx.check(bool(numpy.isin(X, [0, 1]).all()), "vector.binary_values", lambda: _fmt_soln(soln))
    Xf = X.astype(float)
    ctx.check(bool(numpy.isfinite(Xf).all()), "vector.finite", lambda: _fmt_soln(soln))
    ctx.check(bool((Xf >= lo[None, :]).all() and (Xf <= hi[None, :]).all()), "vector.within_bounds",
              lambda: "bounds lo=%s hi=%s; %s" % (lo.tolist(), hi.tolist(), _fmt_soln(soln)))
    fresh = check_truthful(ctx, prob, soln, ns, lambda x: vector_term_scale(prob, spec, x), "ga")
    ctx.check(all(cv <= 0.0 for _, cv in fresh) or ns == 1, "ga.infeasible_member_in_front",
              lambda: "a multi-member result contains an infeasible row; %s" % _fmt_soln(soln))
    check_nondominated(ctx, soln, fresh, "ga")


# =====================================================================================================================
# sub-check: operators of pymoo_addon in isolation
# =====================================================================================================================
@st.composite
def operator_case(draw):
    op = draw(st.sampled_from(["sampling", "crossover", "crossover", "mutation", "mutation", "intsbx", "intpm",
                               "MutatorA", "MutatorB", "StochasticHC", "MOStochasticHC"]))
    case = {"op": op, "seed": draw(st.integers(0, 2 ** 31 - 1))}
    if op in ("intsbx", "intpm"):
        n = draw(st.integers(1, 6))
        lo = draw(st.lists(st.integers(-4, 4), min_size=n, max_size=n))
        hi = [a + draw(st.sampled_from([0, 1, 2, 5, 9])) for a in lo]
        rows = draw(st.integers(1, 6)) * (2 if op == "intsbx" else 1)
        case["aggressive"] = draw(st.booleans())       # eta=1, every variable: perturbations that survive rounding
        case.update(lo=lo, hi=hi, X=[[draw(st.integers(a, b)) for a, b in zip(lo, hi)] for _ in range(rows)])
        return case
    nobj = draw(st.sampled_from([2, 2, 3])) if op in ("MutatorA", "MutatorB", "StochasticHC", "MOStochasticHC") else 1
    spec = draw(subset_spec(nobj, nmax=10, kmax=5))
    n, k = len(spec["labels"]), spec["k"]
    case["spec"] = spec
    case["rows"] = draw(st.integers(1, 6))
    if op == "crossover":
        mode = draw(st.sampled_from(["random", "random", "identical", "disjoint", "one_different"]))
        pairs = []
        for _ in range(case["rows"]):
            a = list(draw(st.permutations(list(range(n)))))[:k]
            if mode == "identical":
                b = list(draw(st.permutations(a)))
            elif mode == "disjoint" and n >= 2 * k:
                rest = [i for i in range(n) if i not in a]
                b = list(draw(st.permutations(rest)))[:k]
            elif mode == "one_different" and n > k:
                b = list(a)
                b[draw(st.integers(0, k - 1))] = draw(st.sampled_from([i for i in range(n) if i not in a]))
                b = list(draw(st.permutations(b)))
            else:
                b = list(draw(st.permutations(list(range(n)))))[:k]
            pairs.append([a, b])
        case["pairs"] = pairs
    elif op != "sampling":
        case["X"] = [list(draw(st.permutations(list(range(n)))))[:k] for _ in range(case["rows"])]
        case["phc"] = draw(st.sampled_from([0.0, 0.5, 1.0, 1.0]))
        case["nhcstep"] = draw(st.sampled_from([None, None, 1, 2, 3, 5, 8]))
        case["prob_var"] = draw(st.sampled_from([None, None, 0.5, 1.0]))
    return case


def _int_shim(lo, hi):
    n = len(lo)
    return HInteger({"kind": "table", "n": n, "nobj": 1, "wt": [1.0], "lo": list(lo), "hi": list(hi), "A": [0.0] * n,
                     "q": 0.0, "u": [0] * n, "ineq": None, "eq": None})


def _valid_subset_rows(ctx, rows, space, k, clause, detail):
    for r in rows:
        r = [int(e) for e in r]
        ok = len(r) == k and len(set(r)) == k and all(e in space for e in r)
        if not ok:
            ctx.fail(clause, "%s produced %s (k=%d, space=%s)" % (detail, r, k, sorted(space)))


def check_operators(case, ctx):
    op = case["op"]
    ctx.label("op=" + op)
    numpy.random.seed(case["seed"] % (2 ** 32))
    rs = numpy.random.default_rng(case["seed"])
    if op in ("intsbx", "intpm"):
        lo = numpy.array(case["lo"], dtype="int64")
        hi = numpy.array(case["hi"], dtype="int64")
        X = numpy.array(case["X"], dtype="int64")
        prob = _int_shim(case["lo"], case["hi"])
        ctx.nontrivial(len(lo) >= 2 and bool((hi > lo).any()))
        if op == "intsbx":
            P = X.reshape(2, X.shape[0] // 2, X.shape[1])
            okw = {"eta": 1.0, "prob_var": 1.0, "prob_bin": 0.5} if case.get("aggressive") else {}
            out = pymoo_addon.IntegerSimulatedBinaryCrossover(**okw)._do(prob, P, random_state=rs)
            ctx.label("intsbx_changed_something", not numpy.array_equal(numpy.asarray(out), P))
            out = numpy.asarray(out)
            ctx.check(out.shape[-1] == len(lo) and out.ndim == 3, "intop.shape", lambda: str(out.shape))
            flat = out.reshape(-1, len(lo))
        else:
            okw = {"eta": 1.0, "prob_var": 1.0} if case.get("aggressive") else {}
            out = numpy.asarray(pymoo_addon.IntegerPolynomialMutation(prob=1.0, **okw)._do(prob, X, random_state=rs))
            ctx.check(out.shape == X.shape, "intop.shape", lambda: str(out.shape))
            flat = out
            ctx.label("intpm_changed_something", not numpy.array_equal(out, X))
        ctx.check(flat.dtype == X.dtype, "intop.dtype_preserved", lambda: "%s -> %s" % (X.dtype, flat.dtype))
        ctx.check(bool((flat >= lo).all() and (flat <= hi).all()), "intop.within_bounds",
                  lambda: "lo=%s hi=%s out=%s" % (lo.tolist(), hi.tolist(), flat.tolist()))
        return

    spec = case["spec"]
    prob = build_subset_problem(spec)
    labels = [int(e) for e in prob.decn_space]
    space = set(labels)
    n, k = len(labels), spec["k"]
    ctx.nontrivial(n > k >= 2)
    ctx.label("n==k", n == k)
    ctx.label("complement_smaller_than_subset", 0 < n - k < k)
    tolab = lambda rows: numpy.array([[labels[i] for i in r] for r in rows], dtype="int64")     # noqa: E731
    snap = snapshot(prob)
    if op == "sampling":
        out = pymoo_addon.SubsetRandomSampling(setspace=prob.decn_space)._do(prob, case["rows"], random_state=rs)
        out = numpy.asarray(out)
        ctx.check(out.shape == (case["rows"], k) and out.dtype == prob.decn_space.dtype, "sampling.shape_dtype",
                  lambda: "%s %s" % (out.shape, out.dtype))
        _valid_subset_rows(ctx, out.tolist(), space, k, "sampling.invalid_subset", "SubsetRandomSampling")
    elif op == "crossover":
        pa = tolab([p[0] for p in case["pairs"]])
        pb = tolab([p[1] for p in case["pairs"]])
        P = numpy.stack([pa, pb])
        P0 = P.copy()
        out = numpy.asarray(pymoo_addon.ReducedExchangeCrossover()._do(prob, P, random_state=rs))
        ctx.check(out.shape == P0.shape and out.dtype == P0.dtype, "crossover.shape_dtype", lambda: "%s %s" % (out.shape, out.dtype))
        ctx.check(numpy.array_equal(P, P0), "crossover.parents_modified")
        changed = False
        for i in range(P0.shape[1]):
            a, b = P0[0, i].tolist(), P0[1, i].tolist()
            ca, cb = out[0, i].tolist(), out[1, i].tolist()
            _valid_subset_rows(ctx, [ca, cb], space, k, "crossover.invalid_subset", "ReducedExchangeCrossover(%s,%s)" % (a, b))
            ctx.check(sorted(ca + cb) == sorted(a + b), "crossover.elements_not_conserved",
                      lambda: "parents %s %s -> children %s %s" % (a, b, ca, cb))
            common = set(a) & set(b)
            ctx.check(all(ca[j] == a[j] for j in range(k) if a[j] in common) and all(cb[j] == b[j] for j in range(k) if b[j] in common),
                      "crossover.common_element_moved", lambda: "parents %s %s -> children %s %s" % (a, b, ca, cb))
            changed = changed or ca != a
            ctx.label("crossover_parents_share_all", len(common) == k)
            ctx.label("crossover_parents_disjoint", len(common) == 0)
        ctx.label("crossover_exchanged_something", changed)
    else:
        X = tolab(case["X"])
        X0 = X.copy()
        kw = {} if case["prob_var"] is None else {"prob_var": case["prob_var"]}
        if op == "mutation":
            m = pymoo_addon.ReducedExchangeMutation(setspace=prob.decn_space, **kw)
        elif op == "MutatorA":
            m = pymoo_addon.MutatorA(setspace=prob.decn_space, phc=case["phc"], nhcstep=case["nhcstep"], **kw)
        elif op == "MutatorB":
            m = pymoo_addon.MutatorB(setspace=prob.decn_space, phc=case["phc"], nhcstep=case["nhcstep"], **kw)
        elif op == "StochasticHC":
            m = pymoo_addon.StochasticHillClimberMutation(setspace=prob.decn_space, phc=case["phc"], nhcstep=case["nhcstep"], **kw)
        else:
            m = pymoo_addon.MultiObjectiveStochasticHillClimberMutation(setspace=prob.decn_space, p_hillclimb=case["phc"], **kw)
        nhc = case["nhcstep"] or k
        hc = case["phc"] > 0.0
        sig_c = hc and op in ("MutatorA", "MutatorB") and n > k and nhc > n - k
        sig_d = hc and op in ("MutatorA", "MutatorB", "StochasticHC", "MOStochasticHC") and n == k
        ctx.label("memetic_allele_tile_repeats", sig_c)
        ctx.label("memetic_empty_complement", sig_d)
        if _matrix_eval_excluded(ctx, spec, force=(op == "MOStochasticHC" and hc)):
            return
        try:
            out = numpy.asarray(m._do(prob, X, random_state=rs))
        except (ZeroDivisionError, ValueError) as e:
            if sig_d and any(t in str(e) for t in _EMPTY_COMPLEMENT):
                ctx.label("crash_empty_complement")
                if not ctx.known("F-C06-d", sig_d):
                    ctx.fail("memetic.crash_when_space_equals_subset", "%s._do raised %s: %s with len(setspace) == n_var == %d" % (
                        type(m).__name__, type(e).__name__, e, k))
                return
            raise
        ctx.check(out.shape == X0.shape and out.dtype == X0.dtype, "mutation.shape_dtype", lambda: "%s %s" % (out.shape, out.dtype))
        ctx.label("mutation_changed_something", not numpy.array_equal(out, X0))
        if not ctx.known("F-C06-c", sig_c):
            _valid_subset_rows(ctx, out.tolist(), space, k, "mutation.invalid_subset", "%s on %s" % (type(m).__name__, X0.tolist()))
        else:
            for r in out.tolist():
                ctx.check(all(int(e) in space for e in r), "mutation.member_outside_space", lambda: str(r))
    check_unchanged(ctx, prob, snap, "problem_modified")


# =====================================================================================================================
SUBCHECKS = [
    SubCheck("exact", check_exact, exact_case(), quick=500, thorough=5000, shards_quick=4,
             rule="generated (sorting | steepest-descent | sorting+steepest-descent) x (harness table problem separable/"
                  "non-separable, order-independent or position-dependent (slot costs / position-masked constraint) | real EBV subset problem) x objective unit 1e-12..1e15 / near-tied data x (none|ineq|eq|both|2-4 small-integer rows of both kinds) x rng kind/seed; "
                  "non-trivial = n > k >= 2 and >= 3 distinct single-member objective values; distinct by sha1 of the case",
             required_labels=("bruteforce_compared", "local_optimality_scanned", "constrained", "nonseparable",
                              "labels_not_arange", "sd_start_with_replacement_has_duplicate", "objective_unit<=1e-6",
                              "objective_unit>=1e4", "distinct_single_values_closer_than_1e-8",
                              "position_dependent_objective", "position_dependent_constraint",
                              "local_optimality_scanned_position_dependent", "several_rows_of_both_kinds",
                              "neighbour_with_tied_aggregate_violation_but_different_equality_rows",
                              "neighbour_with_tied_violation_and_tied_score")),
    SubCheck("ga_subset", check_ga_subset, ga_subset_case(), quick=100, thorough=1500, shards_quick=6,
             rule="generated 7 pymoo-backed subset optimiser classes x problems as in 'exact' (1-3 objectives) x ngen 1-6 x "
                  "pop_size 4-16 x element-wise / population-wise evaluation; non-trivial = n > k >= 2 and >= 3 distinct single-member objective vectors",
             required_labels=("front_size>=2", "constrained", "matrix_evaluation_with_ineq_and_eq", "several_rows_of_both_kinds", "algo=SubsetGA", "algo=NSGA2", "algo=NSGA3",
                              "algo=MemeticSteepest", "algo=MemeticStochastic", "algo=MemeticMutatorA", "algo=MemeticMutatorB")),
    SubCheck("ga_vector", check_ga_vector, ga_vector_case(), quick=110, thorough=1500, shards_quick=4,
             rule="generated (real|integer|binary) x (GA | NSGA2) x (harness linear(+quadratic) problem | real EBV problem) x "
                  "bounds incl. pinned variables, for a third of the real / integer problems re-declared (narrowed) through the public properties of the built object x constraints x objective unit x element-wise / population-wise evaluation; non-trivial = >= 2 variables and >= 3 distinct coefficients",
             required_labels=("front_size>=2", "constrained", "family=real", "family=integer", "family=binary", "has_pinned_variable", "box_redeclared_strictly_narrower", "matrix_evaluation_of_direct_Problem_subclass",
                              "matrix_evaluation_with_ineq_and_eq", "several_rows_of_both_kinds")),
    SubCheck("operators", check_operators, operator_case(), quick=300, thorough=4000, shards_quick=2,
             rule="generated parent populations (valid subsets as label rows; integer vectors within bounds) for each operator of "
                  "pymoo_addon; non-trivial = n > k >= 2 (subset operators) / >= 2 variables with a free one (integer operators)",
             required_labels=("crossover_exchanged_something", "crossover_parents_share_all", "op=sampling", "op=mutation",
                              "op=intsbx", "op=intpm", "op=MutatorA", "op=MutatorB", "op=StochasticHC", "intpm_changed_something",
                              "intsbx_changed_something")),
]
