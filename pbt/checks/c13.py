"""C13 -- relationship (coancestry) matrices match their definitions and algebraic laws.

Oracle: loop formulas of ``pbt.oracles.coancestry_ref`` (molecular coancestry by literal enumeration of allele pairs
in exact rationals; VanRaden / Yang / generalised-weighted by ``math.fsum`` over markers) evaluated on the raw
allele calls; ulp-scaled tolerances ``k*eps*S`` where ``S`` is the sum of absolute values of the per-marker terms.
Summaries (inverse, extreme values, mean, inbreeding bounds, PSD predicate) are re-evaluated on the returned matrix by
a different route (residual ``G X - I``, KKT system, python loops, symmetric eigen-solver).
"""
import math
import warnings

import numpy
from hypothesis import strategies as st

from pbt import compat  # noqa: F401
from pbt.core import SubCheck, Reject
from pbt.oracles import coancestry_ref as cref

from pybrops.popgen.gmat.DenseGenotypeMatrix import DenseGenotypeMatrix
from pybrops.popgen.gmat.DensePhasedGenotypeMatrix import DensePhasedGenotypeMatrix
from pybrops.popgen.cmat.DenseMolecularCoancestryMatrix import DenseMolecularCoancestryMatrix
from pybrops.popgen.cmat.DenseVanRadenCoancestryMatrix import DenseVanRadenCoancestryMatrix
from pybrops.popgen.cmat.DenseYangCoancestryMatrix import DenseYangCoancestryMatrix
from pybrops.popgen.cmat.DenseGeneralizedWeightedCoancestryMatrix import DenseGeneralizedWeightedCoancestryMatrix
from pybrops.popgen.cmat.fcty.DenseMolecularCoancestryMatrixFactory import DenseMolecularCoancestryMatrixFactory
from pybrops.popgen.cmat.fcty.DenseVanRadenCoancestryMatrixFactory import DenseVanRadenCoancestryMatrixFactory
from pybrops.popgen.cmat.fcty.DenseYangCoancestryMatrixFactory import DenseYangCoancestryMatrixFactory
from pybrops.popgen.cmat.fcty.DenseGeneralizedWeightedCoancestryMatrixFactory import \
    DenseGeneralizedWeightedCoancestryMatrixFactory

EPS = 2.220446049250313e-16

ASSUMPTIONS = [
    "allele calls are 0/1 per chromosome copy (phased) or dosages 0..ploidy (unphased)",
    "VanRaden needs sum p(1-p) > 0 and Yang needs every reference frequency strictly inside (0,1): inputs where the "
    "published formula divides by zero are outside the domain (constructed away, not asserted)",
    "generated Yang reference frequencies lie in [0.01,0.99] (or are sample frequencies k/(ploidy*n))",
    "molecular coancestry is defined by pybrops for ploidy 1 and 2 only; ploidy 4 is outside the property (a clean refusal is expected, not required)",
    "inverse / min_inbreeding clauses only for matrices with condition number <= 1e6",
    "marker weights are 0 or in [1e-6, 100] (no subnormal numbers)",
    "panel sizes: up to 70000 markers (with <= 6 taxa) and up to 300 taxa (with <= 1500 markers); sort_taxa/group_taxa "
    "order = lexicographic (group, then name), ties keep their order (docstring of lexsort_taxa / numpy.lexsort)",
    "in-place edits of the stored matrix (item assignment, writes through the array the `mat` getter returns, in-place "
    "operators, apply_jitter, the `mat` setter) keep it a symmetric float64 (n, n) array; afterwards only the view and "
    "summary clauses are asserted, on the matrix as it is at the time of the call; a read-only stored array may refuse "
    "the write with ValueError",
]

CLASSES = {
    "molecular": (DenseMolecularCoancestryMatrix, DenseMolecularCoancestryMatrixFactory),
    "vanraden": (DenseVanRadenCoancestryMatrix, DenseVanRadenCoancestryMatrixFactory),
    "yang": (DenseYangCoancestryMatrix, DenseYangCoancestryMatrixFactory),
    "genweighted": (DenseGeneralizedWeightedCoancestryMatrix, DenseGeneralizedWeightedCoancestryMatrixFactory),
}


# ----------------------------------------------------------------------------------------------------------------------
# generator
# ----------------------------------------------------------------------------------------------------------------------
@st.composite
def geno_strategy(draw, nmax, mmax, ploidies):
    ploidy = draw(st.sampled_from(ploidies))
    n = draw(st.one_of(st.integers(1, 3), st.integers(3, nmax), st.integers(3, nmax)))
    m = draw(st.one_of(st.integers(1, 3), st.integers(2, mmax), st.integers(4, mmax)))
    cols = []
    for _ in range(m):
        kind = draw(st.sampled_from(["rand", "rand", "rand", "all0", "all1", "het", "stripe"]))
        col = {"kind": kind}
        if kind == "rand":
            col["seed"] = draw(st.integers(0, 2 ** 16))
            col["f"] = draw(st.sampled_from([0.1, 0.3, 0.5, 0.5, 0.7, 0.9]))
        nexc = draw(st.integers(0, 2))
        col["exc"] = [[draw(st.integers(0, n - 1)), draw(st.integers(0, ploidy - 1)), draw(st.integers(0, 1))]
                      for _ in range(nexc)]
        cols.append(col)
    dup = draw(st.sampled_from([None, None, None, "pair", "all"]))     # forced identical taxa
    return {"ploidy": ploidy, "n": n, "m": m, "cols": cols, "dup": dup}


def build_calls(geno):
    """allele calls (ploidy, n, m) of 0/1, deterministic from the case"""
    pl, n, m = geno["ploidy"], geno["n"], geno["m"]
    a = numpy.zeros((pl, n, m), dtype="int8")
    for j, col in enumerate(geno["cols"]):
        k = col["kind"]
        if k == "all1":
            a[:, :, j] = 1
        elif k == "het":
            a[: (pl + 1) // 2, :, j] = 1
        elif k == "stripe":
            a[:, ::2, j] = 1
            a[0, ::3, j] = 0
        elif k == "rand":
            r = numpy.random.default_rng(col["seed"])
            a[:, :, j] = (r.random((pl, n)) < col["f"]).astype("int8")
        for (i, ph, v) in col["exc"]:
            a[ph, i, j] = v
    if geno["dup"] == "pair" and n >= 2:
        a[:, 1, :] = a[:, 0, :]
    elif geno["dup"] == "all":
        a[:, :, :] = a[:, :1, :]
    return a


def _pref_strategy(kind, m):
    interior = st.one_of(st.sampled_from([0.5, 0.25, 0.01, 0.99]),
                         st.floats(0.01, 0.99, allow_nan=False, width=64))
    closed = st.one_of(interior, st.sampled_from([0.0, 1.0]))
    if kind == "yang":
        return st.one_of(st.none(), interior, st.lists(interior, min_size=m, max_size=m))
    if kind == "vanraden":
        # at least one interior entry so that sum p(1-p) > 0
        return st.one_of(st.none(), interior,
                         st.tuples(interior, st.lists(closed, min_size=m - 1, max_size=m - 1)).map(lambda t: [t[0]] + t[1]))
    return st.one_of(st.none(), closed, st.lists(closed, min_size=m, max_size=m))


@st.composite
def case_strategy(draw):
    kind = draw(st.sampled_from(["molecular", "vanraden", "yang", "genweighted"]))
    geno = draw(geno_strategy(12, 25, [2, 2, 2, 1, 4]))
    n, m = geno["n"], geno["m"]
    case = {"kind": kind, "via": draw(st.sampled_from(["classmethod", "factory"])),
            "phased": draw(st.booleans()), "geno": geno,
            "taxa": draw(st.sampled_from([None, "unique", "unique", "dup"])),
            "grp": draw(st.sampled_from([None, "values", "grouped"])),
            "grpvals": [draw(st.integers(0, 3)) for _ in range(n)],
            "pref": None, "wt": None,
            "permkeys": [draw(st.integers(0, 5)) for _ in range(n)],
            "nsel": draw(st.integers(0, 50)),
            "eigvaltol": draw(st.sampled_from([None, None, 0.0, -1.0, 1e-8, 0.5, 10.0])),
            "axis": draw(st.sampled_from([None, 0, 1, [0, 1]])),
            "ij": [draw(st.integers(0, 50)), draw(st.integers(0, 50))],
            # in-place history applied to the computed matrix object before it is queried a second time
            "inplace": draw(st.lists(st.sampled_from(["reorder", "sort", "group"]), min_size=0, max_size=2)),
            # in-place edits of the stored matrix after all of that, followed by one more round of queries
            "edits": draw(edits_strategy(2))}
    if kind != "molecular":
        case["pref"] = draw(_pref_strategy(kind, m))
    if kind == "genweighted":
        # no subnormal weights: halving (kinship view) and ulp-relative bounds are not exact there
        w = st.one_of(st.sampled_from([0.0, 1.0, 2.0, 0.5]), st.floats(1e-6, 100.0, allow_nan=False, width=64))
        case["wt"] = draw(st.one_of(st.none(), w, st.lists(w, min_size=m, max_size=m)))
    return case


# ----------------------------------------------------------------------------------------------------------------------
# construction helpers
# ----------------------------------------------------------------------------------------------------------------------
def make_gmat(calls, phased, taxa, grp, grouped):
    pl = calls.shape[0]
    if phased:
        g = DensePhasedGenotypeMatrix(mat=calls.copy(), taxa=taxa, taxa_grp=grp)
    else:
        g = DenseGenotypeMatrix(mat=calls.sum(0).astype("int8"), taxa=taxa, taxa_grp=grp, ploidy=pl)
    if grouped and grp is not None:
        g.group_taxa()
    return g


def dosage_of(g):
    """raw dosages (n, m) read off the genotype matrix that is handed to the code under test"""
    mat = numpy.asarray(g.mat)
    return (mat.sum(0) if mat.ndim == 3 else mat).astype(int)


def call_from_gmat(case, g):
    cls, fcty = CLASSES[case["kind"]]
    target = cls if case["via"] == "classmethod" else fcty()
    kw = {}
    pref, wt = case["pref"], case["wt"]
    if isinstance(pref, list):
        pref = numpy.array(pref, dtype=float)
    if isinstance(wt, list):
        wt = numpy.array(wt, dtype=float)
    if case["kind"] in ("vanraden", "yang"):
        if pref is not None or case["ij"][0] % 2:
            kw["p_anc"] = pref
    elif case["kind"] == "genweighted":
        if pref is not None or case["ij"][0] % 2:
            kw["afreq"] = pref
        if wt is not None or case["ij"][1] % 2:
            kw["mkrwt"] = wt
    return target.from_gmat(g, **kw)


def oracle(case, dos, ploidy):
    k = case["kind"]
    if k == "molecular":
        return cref.molecular(dos, ploidy)
    if k == "vanraden":
        return cref.vanraden(dos, ploidy, case["pref"])
    if k == "yang":
        return cref.yang(dos, ploidy, case["pref"])
    return cref.generalized_weighted(dos, ploidy, case["wt"], case["pref"])


def _eq_arr(a, b):
    if a is None or b is None:
        return a is None and b is None
    a, b = numpy.asarray(a), numpy.asarray(b)
    return a.shape == b.shape and bool((a == b).all())


def _layout_of(a):
    f = a.flags
    lay = "C" if f.c_contiguous and not f.f_contiguous else ("F" if f.f_contiguous and not f.c_contiguous else
                                                            ("CF" if f.c_contiguous else "strided"))
    return lay + ("" if f.writeable else "/readonly")


def _fsum_mean(vals):
    vals = list(vals)
    return math.fsum(vals) / len(vals)


# ----------------------------------------------------------------------------------------------------------------------
# in-place edits of the matrix an object holds (between two rounds of queries)
# ----------------------------------------------------------------------------------------------------------------------
# Every route below is public: item assignment of the matrix classes, writing through the array the `mat` getter hands
# out, the in-place operators, the documented regularisation step apply_jitter(), and (for contrast) the `mat` setter
# that replaces the array.  Magnitudes are relative to the largest entry, so that an edit matters at every scale.
EDIT_OPS = ["setitem_diag", "setitem_alldiag", "setitem_pair", "getter_ridge", "getter_scale", "getter_shift",
            "iop_scale", "jitter", "jitter", "setter_scale"]
EDIT_REL = [1.0, 0.25, 1e-3, 4.0]
EDIT_FAC = [2.0, 0.5, 3.0, 0.1]
EDIT_VAL = [-0.5, 0.0, 0.25, 1.5]
JITTER_MODES = ["default", "wide", "strict"]


@st.composite
def edits_strategy(draw, max_size=3):
    k = draw(st.sampled_from([0, 1, 1, 2, max_size]))
    return [[draw(st.sampled_from(EDIT_OPS)), draw(st.integers(0, 50)), draw(st.integers(0, 50)), draw(st.integers(0, 3)),
             draw(st.integers(0, 2 ** 16))] for _ in range(k)]


def apply_edits(ctx, cm, edits):
    """change the stored matrix in place through public routes (symmetric edits only); returns the number of edits that
    changed it.  Nothing is asserted here: what the object must do afterwards is stated by check_views_and_summaries."""
    changed = 0
    for (op, a, b, c, seed) in edits:
        held = cm.mat
        before = numpy.array(held, dtype=float, order="C", copy=True)
        n = before.shape[0]
        amax = float(numpy.abs(before).max())
        s = amax if amax > 0.0 else 1.0
        i, j = a % n, b % n
        writeable = bool(held.flags.writeable)
        try:
            if op == "setitem_diag":
                cm[i, i] = cm[i, i] + EDIT_REL[c] * s
            elif op == "setitem_alldiag":
                for t in range(n):
                    cm[t, t] = cm[t, t] + EDIT_REL[c] * s
            elif op == "setitem_pair":
                cm[i, j] = EDIT_VAL[c] * s
                cm[j, i] = EDIT_VAL[c] * s
            elif op == "getter_ridge":
                cm.mat[numpy.diag_indices(n)] += EDIT_REL[c] * s
            elif op == "getter_scale":
                m_ = cm.mat
                m_ *= EDIT_FAC[c]
            elif op == "getter_shift":
                cm.mat[...] += EDIT_VAL[c] * s
            elif op == "iop_scale":
                alias = cm
                alias *= EDIT_FAC[c]            # the class' in-place operator (the name may be rebound; `cm` is not)
            elif op == "setter_scale":
                cm.mat = EDIT_FAC[c] * cm.mat   # replaces the array object
            elif op == "jitter":
                mode = JITTER_MODES[c % len(JITTER_MODES)]
                numpy.random.seed(seed)         # apply_jitter draws from the global numpy stream (restored by the runner)
                with warnings.catch_warnings():
                    warnings.simplefilter("ignore")
                    if mode == "default":
                        cm.apply_jitter()
                    elif mode == "wide":
                        cm.apply_jitter(eigvaltol=2e-14, minjitter=0.25 * s, maxjitter=s, nattempt=5)
                    else:
                        cm.apply_jitter(eigvaltol=0.5 * s, minjitter=0.6 * s, maxjitter=s, nattempt=5)
                ctx.label("edit_jitter_" + mode)
        except ValueError:
            if writeable:
                raise
            ctx.label("edit_refused_readonly")
            continue
        now = numpy.asarray(cm.mat)
        did = not (now.shape == before.shape and bool((now == before).all()))
        if did:
            changed += 1
            ctx.label("edit_" + op)
            ctx.label("edit_jitter_wrote", op == "jitter")
            ctx.label("edit_kept_array_object", cm.mat is held)
    return changed


class _Tagged:
    """the same context with every clause and label name prefixed (second round of queries on an edited object)"""

    def __init__(self, ctx, tag):
        self._c, self._t = ctx, tag

    def check(self, cond, clause, msg=""):
        return self._c.check(cond, self._t + clause, msg)

    def fail(self, clause, msg=""):
        return self._c.fail(self._t + clause, msg)

    def label(self, name, cond=True):
        return self._c.label(self._t + name, cond)

    def __getattr__(self, k):
        return getattr(self._c, k)


def edit_then_query_again(ctx, cm, case):
    """query (done by the caller) -> change the stored matrix in place -> query again: every view and summary describes
    the matrix as it is at the time of the call"""
    edits = case.get("edits") or []
    if not edits:
        return
    if apply_edits(ctx, cm, edits):
        ctx.label("edited_in_place")
    check_views_and_summaries(_Tagged(ctx, "edited."), cm, case["ij"], case["axis"], case["eigvaltol"])


def _ask_unjudged(cm, what):
    """the question is asked whatever the conditioning (a caller looks at the minimum inbreeding of a singular VanRaden
    matrix, regularises it, and asks again); for an ill-conditioned matrix the answer is not judged"""
    with numpy.errstate(all="ignore"), warnings.catch_warnings():
        warnings.simplefilter("ignore")
        for fmt in ("coancestry", "kinship"):
            try:
                cm.inverse(fmt) if what == "inverse" else cm.min_inbreeding(fmt)
            except numpy.linalg.LinAlgError:
                pass


# ----------------------------------------------------------------------------------------------------------------------
# views and summaries (shared by both sub-checks)
# ----------------------------------------------------------------------------------------------------------------------
def check_views_and_summaries(ctx, cm, ij, axis, eigvaltol):
    """kinship/coancestry views and the summary statistics, re-evaluated on the matrix the object holds"""
    held = cm.mat
    # private C-ordered snapshot: every expectation below is computed from it, and the object is compared with it after
    # each group of queries (the stored array may be column-major, a strided view or read-only -- a query must not
    # write to it whatever its memory layout)
    G = numpy.array(held, dtype=float, order="C", copy=True)
    n = G.shape[0]
    asym = numpy.abs(G - G.T)
    normG = float(numpy.abs(G).sum())
    lam_min = cref.min_eigenvalue(G)
    # ---- views ---------------------------------------------------------------------------------------------------------
    co = cm.mat_asformat("coancestry")
    ki = cm.mat_asformat("kinship")
    ctx.check(_eq_arr(co, G), "view.coancestry_is_matrix")
    ctx.check(ki.shape == G.shape and bool((ki == 0.5 * co).all()) and bool((ki + ki == co).all()),
              "view.kinship_is_half")
    ctx.check(_eq_arr(cm.mat_asformat("KinShip"), ki), "view.format_case_insensitive")
    i, j = ij[0] % n, ij[1] % n
    ctx.check(float(cm.coancestry(i, j)) == float(G[i, j]), "view.coancestry_accessor")
    ctx.check(float(cm.kinship(i, j)) == 0.5 * float(G[i, j]), "view.kinship_accessor")
    ctx.check(_eq_arr(cm.kinship(slice(None), j), 0.5 * G[:, j]), "view.kinship_accessor_slice")
    try:
        cm.mat_asformat("relationship")
        ctx.fail("view.unknown_format_accepted")
    except ValueError:
        pass

    # ---- summaries -----------------------------------------------------------------------------------------------------
    Gl = G.tolist()
    ax = axis
    axarg = tuple(ax) if isinstance(ax, list) else ax
    for fmt, fac in (("coancestry", 1.0), ("kinship", 0.5)):
        if ax is None or isinstance(ax, list):
            emax = fac * max(max(r) for r in Gl)
            emin = fac * min(min(r) for r in Gl)
            emean = fac * _fsum_mean(v for r in Gl for v in r)
        elif ax == 0:
            emax = [fac * max(Gl[a][b] for a in range(n)) for b in range(n)]
            emin = [fac * min(Gl[a][b] for a in range(n)) for b in range(n)]
            emean = [fac * _fsum_mean(Gl[a][b] for a in range(n)) for b in range(n)]
        else:
            emax = [fac * max(r) for r in Gl]
            emin = [fac * min(r) for r in Gl]
            emean = [fac * _fsum_mean(r) for r in Gl]
        amax = float(numpy.abs(G).max())
        ctx.check(numpy.array_equal(numpy.asarray(cm.max(fmt, axis=axarg)), numpy.asarray(emax)), "summary.max",
                  lambda: "format %s axis %s" % (fmt, ax))
        ctx.check(numpy.array_equal(numpy.asarray(cm.min(fmt, axis=axarg)), numpy.asarray(emin)), "summary.min",
                  lambda: "format %s axis %s" % (fmt, ax))
        gm = numpy.asarray(cm.mean(fmt, axis=axarg))
        ctx.check(gm.shape == numpy.asarray(emean).shape and
                  bool((numpy.abs(gm - numpy.asarray(emean)) <= 4 * n * n * EPS * amax).all()), "summary.mean",
                  lambda: "format %s axis %s: %s vs %s" % (fmt, ax, gm.tolist(), emean))
        ctx.check(float(cm.max_inbreeding(fmt)) == fac * max(Gl[a][a] for a in range(n)), "summary.max_inbreeding")
    ctx.check(cm.mat is held and _eq_arr(cm.mat, G), "summaries_mutated_matrix")

    cond = cref.condition_number(G)
    wellcond = cond <= 1e6
    ctx.label("well_conditioned", wellcond)
    if wellcond:
        I = numpy.eye(n)
        rtol = 256 * n * EPS * cond
        for fmt, fac in (("coancestry", 1.0), ("kinship", 0.5)):
            X = cm.inverse(fmt)
            ctx.check(X.shape == (n, n), "summary.inverse_shape")
            r1 = float(numpy.abs((fac * G) @ X - I).max())
            r2 = float(numpy.abs(X @ (fac * G) - I).max())
            ctx.check(r1 <= rtol and r2 <= rtol, "summary.inverse",
                      lambda: "format %s residual %r/%r tol %r" % (fmt, r1, r2, rtol))
            if X.flags.writeable:
                X[...] = 7.25                  # the answer belongs to the caller: scribbling on it changes no later answer
        # minimum attainable inbreeding = min x'Gx s.t. 1'x = 1 = 1/sum(inv(G)); needs a regular KKT system
        K = numpy.zeros((n + 1, n + 1))
        K[:n, :n] = 2 * G
        K[:n, n] = 1
        K[n, :n] = 1
        kcond = cref.condition_number(K)
        if kcond <= 1e6:
            ref = cref.min_inbreeding(G)
            mtol = 256 * n * EPS * max(cond, kcond) * max(abs(ref), float(numpy.abs(G).max()))
            for fmt, fac in (("coancestry", 1.0), ("kinship", 0.5)):
                got = float(cm.min_inbreeding(fmt))
                ctx.check(abs(got - fac * ref) <= mtol, "summary.min_inbreeding",
                          lambda: "format %s: %r expected %r (tol %r)" % (fmt, got, fac * ref, mtol))
            ctx.label("min_inbreeding_checked")
        else:
            _ask_unjudged(cm, "min_inbreeding")
    else:
        _ask_unjudged(cm, "inverse")
        _ask_unjudged(cm, "min_inbreeding")
    ctx.check(cm.mat is held and _eq_arr(cm.mat, G), "summaries_mutated_matrix")

    # ---- PSD predicate against the symmetric eigen-solver, away from the tolerance band ---------------------------------
    et = eigvaltol
    thr = 2e-14 if et is None else max(et, 0.0)
    band = 1e3 * n * EPS * max(normG, 1e-300) + float(asym.max())
    ans = cm.is_positive_semidefinite() if et is None else cm.is_positive_semidefinite(et)
    if lam_min > thr + band:
        ctx.label("psd_predicate_expected_true")
        ctx.check(bool(ans) is True, "is_positive_semidefinite.false_negative",
                  lambda: "min eig %r > tol %r but answer False" % (lam_min, thr))
    elif lam_min < thr - band:
        ctx.label("psd_predicate_expected_false")
        ctx.check(bool(ans) is False, "is_positive_semidefinite.false_positive",
                  lambda: "min eig %r < tol %r but answer True" % (lam_min, thr))
    else:
        ctx.label("psd_predicate_in_band")
    # the predicate is a query: the object still holds the same matrix and answers the same a second time
    ctx.check(cm.mat is held and _eq_arr(cm.mat, G), "is_positive_semidefinite.mutated_matrix",
              lambda: "max |after - before| = %r (layout %s)" % (float(numpy.abs(numpy.asarray(cm.mat) - G).max()),
                                                                 _layout_of(held)))
    ans2 = cm.is_positive_semidefinite() if et is None else cm.is_positive_semidefinite(et)
    ctx.check(bool(ans2) == bool(ans), "is_positive_semidefinite.not_repeatable")



# ----------------------------------------------------------------------------------------------------------------------
# the check
# ----------------------------------------------------------------------------------------------------------------------
def check_cmat(case, ctx):
    cm = _check_cmat_core(case, ctx)
    if cm is not None:
        # the object has been queried (once or twice); now its matrix is edited in place and it is queried again
        edit_then_query_again(ctx, cm, case)


def _check_cmat_core(case, ctx):
    kind = case["kind"]
    geno = case["geno"]
    calls = build_calls(geno)
    pl, n, m = calls.shape
    reestimates = kind != "molecular" and case["pref"] is None

    # keep the input inside the formula's domain by construction
    if reestimates and kind in ("vanraden", "yang"):
        cnt = calls.sum((0, 1))
        need = range(m) if kind == "yang" else ([0] if not ((cnt > 0) & (cnt < pl * n)).any() else [])
        for j in need:
            if cnt[j] == 0 or cnt[j] == pl * n:
                if pl * n == 1:
                    raise Reject()
                calls[0, 0, j] = 1 - calls[0, 0, j]

    taxa = None
    if case["taxa"] == "unique":
        taxa = numpy.array(["t%03d" % i for i in range(n)], dtype=object)
    elif case["taxa"] == "dup":
        taxa = numpy.array(["t%03d" % (i // 2) for i in range(n)], dtype=object)
    grp = None if case["grp"] is None else numpy.array(case["grpvals"][:n], dtype="int64")
    g = make_gmat(calls, case["phased"], taxa, grp, case["grp"] == "grouped")
    dos = dosage_of(g)
    snap = numpy.array(g.mat, copy=True)
    taxa_in = None if g.taxa is None else g.taxa.copy()
    grp_in = None if g.taxa_grp is None else g.taxa_grp.copy()

    ctx.label(kind)
    ctx.label("ploidy%d" % pl)
    ctx.label("phased" if case["phased"] else "unphased")
    ctx.label("via_" + case["via"])
    ctx.label("ref_given" if (kind != "molecular" and case["pref"] is not None) else
              ("ref_sample" if kind != "molecular" else "ref_na"))
    ctx.label("single_taxon", n == 1)
    ctx.label("single_marker", m == 1)
    ctx.label("grouped", case["grp"] == "grouped")
    distinct_rows = len({tuple(r) for r in dos.tolist()})
    ctx.label("has_identical_taxa", distinct_rows < n)

    # ---- molecular coancestry: unsupported ploidy is refused cleanly -------------------------------------------------
    if kind == "molecular" and pl not in (1, 2):
        # the property covers "ploidy 1 or 2 where supported": an unsupported ploidy must be refused cleanly (any ordinary
        # exception); should support be added one day, that is outside this property and must not raise an alarm
        try:
            call_from_gmat(case, g)
        except (RuntimeError, ValueError, TypeError, NotImplementedError):
            ctx.label("molecular_ploidy_refused")
            return None
        ctx.label("info:molecular_ploidy4_accepted")
        return None

    try:
        Gref, S = oracle(case, dos, pl)
    except cref.DomainError:
        ctx.label("outside_formula_domain")
        raise Reject()

    cm = call_from_gmat(case, g)
    G = cm.mat
    ctx.check(type(cm) is CLASSES[kind][0], "type", type(cm).__name__)
    ctx.check(isinstance(G, numpy.ndarray) and G.shape == (n, n) and G.dtype == numpy.float64, "mat.shape_dtype",
              lambda: "%s %s" % (G.shape, G.dtype))
    ctx.check(_eq_arr(g.mat, snap), "from_gmat_mutated_gmat")

    kk = 8 * m + 32
    tol = kk * EPS * S + 1e-300
    if kind == "molecular":
        # independent second derivation straight from the phased calls (when available) -- exact rationals
        if case["phased"]:
            ex = cref.molecular_from_calls_exact(numpy.asarray(g.mat))
            Gref = numpy.array([[float(v) for v in row] for row in ex])
    err = numpy.abs(G - Gref)
    bad = numpy.argwhere(~(err <= tol))
    ctx.check(len(bad) == 0, "value.%s" % kind,
              lambda: "entry %s: got %r expected %r (tol %.3g); ploidy=%d n=%d m=%d" % (
                  bad[0].tolist(), float(G[tuple(bad[0])]), float(Gref[tuple(bad[0])]), float(tol[tuple(bad[0])]),
                  pl, n, m))
    ctx.nontrivial(n >= 3 and distinct_rows >= 2)

    # ---- labels ------------------------------------------------------------------------------------------------------
    ctx.check(_eq_arr(cm.taxa, taxa_in), "labels.taxa", lambda: "%s vs %s" % (cm.taxa, taxa_in))
    ctx.check(_eq_arr(cm.taxa_grp, grp_in), "labels.taxa_grp", lambda: "%s vs %s" % (cm.taxa_grp, grp_in))
    for name in ("taxa_grp_name", "taxa_grp_stix", "taxa_grp_spix", "taxa_grp_len"):
        ctx.check(_eq_arr(getattr(cm, name), getattr(g, name)), "labels.group_metadata",
                  lambda: "%s: %s vs %s" % (name, getattr(cm, name), getattr(g, name)))

    # ---- symmetry, positive semidefiniteness ------------------------------------------------------------------------
    asym = numpy.abs(G - G.T)
    ctx.check(bool((asym <= 2 * tol).all()), "symmetric", lambda: "max |G-G'| = %r" % float(asym.max()))
    normG = float(numpy.abs(G).sum())          # >= Frobenius >= spectral norm; no squaring (tiny weights underflow)
    lam_min = cref.min_eigenvalue(G)
    # Weyl: G = G_true + E, G_true PSD, ||E||_2 <= sum |E_ik| <= sum tol ; plus the eigen-solver's own backward error
    psd_slack = float(tol.sum()) + 16 * n * EPS * normG
    ctx.check(lam_min >= -psd_slack, "positive_semidefinite",
              lambda: "min eigenvalue %r < -%r" % (lam_min, psd_slack))

    check_views_and_summaries(ctx, cm, case["ij"], case["axis"], case["eigvaltol"])

    # ---- equivariance ---------------------------------------------------------------------------------------------------
    # rows of the (possibly group-sorted) genotype matrix are addressed; labels travel with them
    perm = sorted(range(n), key=lambda a: (case["permkeys"][a], -a))
    nsel = n if reestimates else 1 + case["nsel"] % n
    idx = perm[:nsel]
    ctx.label("selection_is_nonidentity_permutation", nsel == n and idx != list(range(n)))
    ctx.label("selection_is_proper_subset", nsel < n)
    if idx != list(range(n)):
        ctx.nontrivial(n >= 3 and distinct_rows >= 2)
    gmat_rows = numpy.asarray(g.mat)
    sub_calls = gmat_rows[:, idx, :] if gmat_rows.ndim == 3 else gmat_rows[idx, :]
    staxa = None if taxa_in is None else taxa_in[idx]
    sgrp = None if grp_in is None else grp_in[idx]
    if case["phased"]:
        gs = DensePhasedGenotypeMatrix(mat=sub_calls.copy(), taxa=staxa, taxa_grp=sgrp)
    else:
        gs = DenseGenotypeMatrix(mat=sub_calls.copy(), taxa=staxa, taxa_grp=sgrp, ploidy=pl)
    cs = call_from_gmat(case, gs)
    sel_ref = Gref[numpy.ix_(idx, idx)]
    sel_tol = tol[numpy.ix_(idx, idx)]
    e2 = numpy.abs(cs.mat - sel_ref)
    ctx.check(cs.mat.shape == (nsel, nsel) and bool((e2 <= sel_tol).all()), "equivariance.subselect_then_compute",
              lambda: "idx %s max err %r" % (idx, float(e2.max())))
    ctx.check(_eq_arr(cs.taxa, staxa) and _eq_arr(cs.taxa_grp, sgrp), "equivariance.labels")
    # library-side selection of the full matrix agrees with computing on the selected genotypes
    csel = cm.select_taxa(idx)
    ctx.check(_eq_arr(csel.mat, G[numpy.ix_(idx, idx)]), "equivariance.select_taxa_values")
    ctx.check(_eq_arr(csel.taxa, staxa) and _eq_arr(csel.taxa_grp, sgrp), "equivariance.select_taxa_labels")
    e3 = numpy.abs(csel.mat - cs.mat)
    ctx.check(bool((e3 <= 2 * sel_tol).all()), "equivariance.commutes",
              lambda: "idx %s max |select(f(g)) - f(select(g))| = %r" % (idx, float(e3.max())))

    # ---- in-place permutation of the matrix object (reorder / sort / group), then the same object is queried again -----
    # permuting the taxa of the matrix == the matrix of the permuted genotypes; the object stays a faithful, queryable
    # relationship matrix afterwards (whatever memory layout the in-place operation leaves behind)
    ops = case.get("inplace", [])
    if not ops:
        return cm
    G0 = numpy.array(G, copy=True)
    cur = list(range(n))
    applied = 0
    for op in ops:
        ctaxa = None if taxa_in is None else [taxa_in[a] for a in cur]
        cgrp = None if grp_in is None else [int(grp_in[a]) for a in cur]
        if op == "reorder":
            cm.reorder_taxa(numpy.array(perm, dtype=int))
            cur = [cur[a] for a in perm]
        else:
            # documented order: lexicographic, group first, then taxon name, ties keep their order
            if ctaxa is None and cgrp is None:
                try:
                    cm.sort_taxa() if op == "sort" else cm.group_taxa()
                    ctx.label("info:sort_without_keys_accepted")
                except ValueError:
                    ctx.label("sort_without_keys_refused")
                continue
            order = sorted(range(n), key=lambda a: (0 if cgrp is None else cgrp[a], "" if ctaxa is None else ctaxa[a], a))
            cm.sort_taxa() if op == "sort" else cm.group_taxa()
            cur = [cur[a] for a in order]
        applied += 1
    if not applied:
        return cm
    ctx.label("inplace_permuted")
    ctx.label("inplace_nonidentity", cur != list(range(n)))
    ctx.label("inplace_layout_" + _layout_of(cm.mat))
    ptaxa = None if taxa_in is None else taxa_in[cur]
    pgrp = None if grp_in is None else grp_in[cur]
    ctx.check(_eq_arr(cm.mat, G0[numpy.ix_(cur, cur)]), "equivariance.inplace_values",
              lambda: "ops %s order %s" % (ops, cur))
    ctx.check(_eq_arr(cm.taxa, ptaxa) and _eq_arr(cm.taxa_grp, pgrp), "equivariance.inplace_labels",
              lambda: "ops %s: %s / %s vs %s / %s" % (ops, cm.taxa, cm.taxa_grp, ptaxa, pgrp))
    pcalls = gmat_rows[:, cur, :] if gmat_rows.ndim == 3 else gmat_rows[cur, :]
    if case["phased"]:
        gp = DensePhasedGenotypeMatrix(mat=pcalls.copy(), taxa=ptaxa, taxa_grp=pgrp)
    else:
        gp = DenseGenotypeMatrix(mat=pcalls.copy(), taxa=ptaxa, taxa_grp=pgrp, ploidy=pl)
    cp = call_from_gmat(case, gp)
    ptol = tol[numpy.ix_(cur, cur)]
    check_views_and_summaries(ctx, cm, case["ij"], case["axis"], case["eigvaltol"])
    # after the queries the permuted object still equals the formula evaluated on the permuted genotypes
    e4 = numpy.abs(numpy.asarray(cm.mat) - Gref[numpy.ix_(cur, cur)])
    ctx.check(bool((e4 <= ptol).all()), "equivariance.inplace_then_queried",
              lambda: "ops %s order %s max err %r" % (ops, cur, float(e4.max())))
    e5 = numpy.abs(numpy.asarray(cm.mat) - cp.mat)
    ctx.check(bool((e5 <= 2 * ptol).all()), "equivariance.inplace_commutes",
              lambda: "ops %s max |permute(f(g)) - f(permute(g))| = %r" % (ops, float(e5.max())))
    ctx.check(_eq_arr(cm.taxa, ptaxa) and _eq_arr(cm.taxa_grp, pgrp), "equivariance.inplace_labels")
    return cm


# ----------------------------------------------------------------------------------------------------------------------
# sub-check 2: views and summaries on arbitrary symmetric matrices (definite, singular and indefinite)
# ----------------------------------------------------------------------------------------------------------------------
@st.composite
def matrix_case(draw):
    n = draw(st.integers(1, 7))
    r = draw(st.integers(1, 8))
    B = [[draw(st.integers(-4, 4)) for _ in range(r)] for _ in range(n)]
    return {"cls": draw(st.sampled_from(sorted(CLASSES))), "n": n, "B": B,
            "shift": draw(st.sampled_from([0.0, 0.0, 0.5, 1.0, 3.0, -0.25, -1.0, 1e-9])),
            "offdiag": draw(st.sampled_from([0.0, 0.0, 0.25, -0.5])),
            "eigvaltol": draw(st.sampled_from([None, None, 0.0, -1.0, 1e-8, 0.5, 10.0])),
            "axis": draw(st.sampled_from([None, 0, 1, [0, 1]])),
            "ij": [draw(st.integers(0, 50)), draw(st.integers(0, 50))],
            "taxa": draw(st.booleans()),
            # how the caller's array is laid out in memory
            "layout": draw(st.sampled_from(LAYOUTS)),
            "reorder": draw(st.one_of(st.none(), st.lists(st.integers(0, 5), min_size=n, max_size=n))),
            # overall scale 2^k (exact): entries from ~1e-18 to ~1e6
            "exp2": draw(st.sampled_from([0, 0, 0, 0, -60, -30, 20])),
            # query -> edit the stored matrix in place -> query again
            "edits": draw(edits_strategy(3))}


LAYOUTS = ["C", "C", "F", "F", "transposed_view", "strided_view", "C_readonly", "F_readonly"]


def lay_out(G, layout):
    """the same values in another memory layout (all legal float64 (n, n) arrays)"""
    n = G.shape[0]
    if layout in ("F", "F_readonly"):
        a = numpy.asfortranarray(G.copy())
    elif layout == "transposed_view":
        a = numpy.ascontiguousarray(G.T.copy()).T           # user hands over some_array.T
    elif layout == "strided_view":
        big = numpy.full((2 * n + 1, 3 * n + 2), 7.25)
        a = big[1::2, 2::3][:n, :n]
        a[...] = G
    else:
        a = numpy.ascontiguousarray(G.copy())
    if layout.endswith("readonly"):
        a.flags.writeable = False
    return a


def check_matrix(case, ctx):
    n = case["n"]
    B = numpy.array(case["B"], dtype=float).reshape(n, -1)
    G = (B @ B.T) / 16.0 + case["shift"] * numpy.eye(n) + case["offdiag"] * (numpy.ones((n, n)) - numpy.eye(n))
    G = 0.5 * (G + G.T)
    G = G * 2.0 ** case.get("exp2", 0)
    ctx.label("scale_2^%d" % case.get("exp2", 0))
    taxa = numpy.array(["t%d" % i for i in range(n)], dtype=object) if case["taxa"] else None
    layout = case.get("layout", "C")
    cm = CLASSES[case["cls"]][0](mat=lay_out(G, layout), taxa=taxa)
    if case.get("reorder") is not None:
        # in-place permutation first (whatever layout that leaves behind); the expectation is permuted alongside
        keys = case["reorder"]
        perm = sorted(range(n), key=lambda a: (keys[a], -a))
        cm.reorder_taxa(numpy.array(perm, dtype=int))
        G = G[numpy.ix_(perm, perm)]
        taxa = None if taxa is None else taxa[perm]
        ctx.check(_eq_arr(cm.taxa, taxa), "reorder.labels")
        ctx.label("reordered_in_place")
    ctx.label("layout_" + layout)
    ctx.label("stored_" + _layout_of(cm.mat))
    ctx.label("stored_column_major_3plus", n >= 3 and cm.mat.flags.f_contiguous and not cm.mat.flags.c_contiguous)
    ev = numpy.linalg.eigvalsh(G)
    scale = max(float(numpy.abs(G).sum()), 1e-300)
    ctx.label("indefinite", ev[0] < -1e-9 * scale)
    ctx.label("positive_definite", ev[0] > 1e-9 * scale)
    ctx.label("singular_psd", abs(ev[0]) <= 1e-9 * scale)
    ctx.nontrivial(n >= 2)
    ctx.check(_eq_arr(cm.mat, G), "constructor_keeps_matrix")
    check_views_and_summaries(ctx, cm, case["ij"], case["axis"], case["eigvaltol"])
    ctx.check(_eq_arr(cm.mat, G), "summaries_mutated_matrix")
    edit_then_query_again(ctx, cm, case)


# ----------------------------------------------------------------------------------------------------------------------
# sub-check 3: panel sizes across storage / accumulator boundaries (many markers or many taxa), closed-form expectation
# ----------------------------------------------------------------------------------------------------------------------
# The genome is made of a few segments; inside a segment every marker is a copy of the same column (taxon i carries
# x[type(i)][s] copies of the coded allele, reference frequency p_s, weight w_s).  Every formula is a sum over markers,
# so entry (i,k) is  sum_s L_s * term_s(i,k)  with L_s the segment length: a closed form with a handful of terms that is
# evaluated in exact rationals, however many markers there are.  Marker order is irrelevant to every estimator, so the
# columns may be shuffled.  "Inbred" material (dosages 0 or ploidy only) is frequent because that is what makes the
# per-pair sums largest (self-coancestry 2: every marker contributes its maximum).
BOUNDARY_M = [127, 128, 129, 255, 256, 257, 32767, 32768, 32769, 40000, 65535, 65536, 65537, 70000]
BOUNDARY_N = [127, 128, 129, 255, 256, 257, 300]


@st.composite
def big_case(draw):
    kind = draw(st.sampled_from(["molecular", "molecular", "vanraden", "yang", "genweighted"]))
    ploidy = draw(st.sampled_from([1, 2, 2] if kind == "molecular" else [1, 2, 2, 4]))
    T = draw(st.integers(2, 5))
    if draw(st.sampled_from([True, True, True, False])):
        shape = "many_markers"
        n = T + draw(st.sampled_from([0, 0, 1]))
        m = draw(st.one_of(st.sampled_from(BOUNDARY_M), st.sampled_from(BOUNDARY_M[6:]), st.integers(30000, 70000),
                           st.integers(100, 70000)))
    else:
        shape = "many_taxa"
        n = draw(st.one_of(st.sampled_from(BOUNDARY_N), st.integers(100, 300)))
        m = draw(st.one_of(st.sampled_from(BOUNDARY_M[:6]), st.integers(1, 1500)))
    K = draw(st.integers(1, min(6, m)))
    cuts = sorted(draw(st.integers(1, 10 ** 6)) for _ in range(K - 1))
    hom = st.sampled_from([0, ploidy, 0, ploidy, 0, ploidy, None])
    x = [[draw(hom) for _ in range(K)] for _ in range(T)]
    x = [[draw(st.integers(0, ploidy)) if v is None else v for v in row] for row in x]
    case = {"kind": kind, "via": draw(st.sampled_from(["classmethod", "factory"])), "phased": draw(st.booleans()),
            "ploidy": ploidy, "shape": shape, "T": T, "n": n, "m": m, "K": K, "cuts": cuts, "x": x,
            "phase_rot": draw(st.integers(0, 3)),
            "shuffle": draw(st.one_of(st.none(), st.integers(0, 2 ** 16))),
            "pref": None, "wt": None,
            "eigvaltol": draw(st.sampled_from([None, 0.0, 1e-8, 0.5])),
            "axis": draw(st.sampled_from([None, 0, 1, [0, 1]])),
            "ij": [draw(st.integers(0, 400)), draw(st.integers(0, 400))]}
    if kind != "molecular":
        case["pref"] = draw(_pref_strategy(kind, K))            # scalar, or one value per segment
    if kind == "genweighted":
        w = st.one_of(st.sampled_from([0.0, 1.0, 2.0, 0.5]), st.floats(1e-6, 100.0, allow_nan=False, width=64))
        case["wt"] = draw(st.one_of(st.none(), w, st.lists(w, min_size=K, max_size=K)))
    return case


def segment_lengths(m, K, cuts):
    """K positive lengths summing to m (cut points scaled into 1..m-1, made strictly increasing)"""
    pos = []
    for r, c in enumerate(sorted(cuts)):
        v = 1 + (c * (m - 1)) // (10 ** 6 + 1)
        lo = (pos[-1] + 1) if pos else 1
        v = max(v, lo)
        pos.append(v)
    # push back from the right so that every segment keeps at least one marker
    for r in range(len(pos) - 1, -1, -1):
        hi = m - (len(pos) - r)
        pos[r] = min(pos[r], hi)
    edges = [0] + pos + [m]
    L = [edges[a + 1] - edges[a] for a in range(len(edges) - 1)]
    assert len(L) == K and all(v >= 1 for v in L) and sum(L) == m, (m, K, cuts, L)
    return L


def block_oracle(kind, x, types, ploidy, L, pref, wt):
    """closed form on the segment table: x[t][s] dosage of taxon type t in segment s, types[i] type of taxon i,
    L[s] markers in segment s, pref / wt None | scalar | one value per segment.  Returns (G, S) like the reference
    module: G correctly rounded from exact rational sums of the (floating-point) per-marker terms."""
    from fractions import Fraction
    T, K = len(x), len(L)
    n, m = len(types), sum(L)
    cnt = [sum(1 for t in types if t == u) for u in range(T)]
    GT = [[0.0] * T for _ in range(T)]
    ST = [[0.0] * T for _ in range(T)]
    if kind == "molecular":
        for a in range(T):
            for b in range(T):
                tot = Fraction(0)
                for s_ in range(K):
                    xa, xb = x[a][s_], x[b][s_]
                    # P(identical in state) for one allele drawn from each: both coded or both not coded
                    tot += L[s_] * Fraction(xa * xb + (ploidy - xa) * (ploidy - xb), ploidy * ploidy)
                GT[a][b] = float(2 * tot / m)
                ST[a][b] = 2.0
    else:
        if pref is None:
            pex = [Fraction(sum(cnt[u] * x[u][s_] for u in range(T)), ploidy * n) for s_ in range(K)]
            p = [float(f) for f in pex]
        elif isinstance(pref, (int, float)):
            p = [float(pref)] * K
        else:
            p = [float(v) for v in pref]
        if wt is None:
            w = [1.0] * K
        elif isinstance(wt, (int, float)):
            w = [float(wt)] * K
        else:
            w = [float(v) for v in wt]
        if kind == "vanraden":
            if pref is None:
                den = float(ploidy * sum(L[s_] * pex[s_] * (1 - pex[s_]) for s_ in range(K)))
            else:
                den = float(ploidy * sum(L[s_] * Fraction(q * (1.0 - q)) for s_, q in enumerate(p)))
            if not den > 0.0:
                raise cref.DomainError("sum p(1-p) is zero")
            colscale, glob = [1.0] * K, 1.0 / den
        elif kind == "yang":
            for q in p:
                if not (0.0 < q < 1.0):
                    raise cref.DomainError("frequency on the boundary")
            colscale, glob = [1.0 / (ploidy * q * (1.0 - q)) for q in p], 1.0 / m
        else:
            colscale, glob = w, 1.0
        dev = [[x[u][s_] - ploidy * p[s_] for s_ in range(K)] for u in range(T)]
        for a in range(T):
            for b in range(T):
                terms = [colscale[s_] * dev[a][s_] * dev[b][s_] for s_ in range(K)]
                GT[a][b] = glob * float(sum(L[s_] * Fraction(t) for s_, t in enumerate(terms)))
                ST[a][b] = abs(glob) * float(sum(L[s_] * Fraction(abs(t)) for s_, t in enumerate(terms)))
    GT, ST = numpy.array(GT), numpy.array(ST)
    ix = numpy.ix_(types, types)
    return GT[ix], ST[ix]


def _block_selftest():
    # the closed form agrees with the marker-by-marker reference on an expanded toy panel
    x = [[0, 2, 1], [2, 2, 0], [1, 0, 0]]
    types = [0, 1, 2, 1]
    L = [3, 1, 2]
    seg = [s_ for s_, l in enumerate(L) for _ in range(l)]
    dos = [[x[t][s_] for s_ in seg] for t in types]
    pseg, wseg = [0.25, 0.5, 0.7], [2.0, 0.0, 0.3]
    pm, wm = [pseg[s_] for s_ in seg], [wseg[s_] for s_ in seg]
    for kind, ref in (("molecular", cref.molecular(dos, 2)), ("vanraden", cref.vanraden(dos, 2, pm)),
                      ("vanraden0", cref.vanraden(dos, 2, None)), ("yang", cref.yang(dos, 2, pm)),
                      ("genweighted", cref.generalized_weighted(dos, 2, wm, pm)),
                      ("genweighted0", cref.generalized_weighted(dos, 2, None, None))):
        none = kind.endswith("0")
        G, S = block_oracle(kind.rstrip("0"), x, types, 2, L, None if none else pseg, None if none else wseg)
        assert numpy.allclose(G, ref[0], rtol=1e-13, atol=1e-15), (kind, G, ref[0])
        assert numpy.allclose(S, ref[1], rtol=1e-13, atol=1e-15), (kind, S, ref[1])


_block_selftest()


def check_big(case, ctx):
    kind, pl, n, m, K, T = case["kind"], case["ploidy"], case["n"], case["m"], case["K"], case["T"]
    L = segment_lengths(m, K, case["cuts"])
    x = [list(r) for r in case["x"]]
    types = [i % T for i in range(n)]
    reestimates = kind != "molecular" and case["pref"] is None
    if reestimates and kind in ("vanraden", "yang"):
        # stay inside the formula's domain by construction (a polymorphic segment where the formula divides by p(1-p))
        def mono(s_):
            tot = sum(x[types[i]][s_] for i in range(n))
            return tot == 0 or tot == pl * n
        need = range(K) if kind == "yang" else ([0] if all(mono(s_) for s_ in range(K)) else [])
        for s_ in need:
            if mono(s_):
                x[0][s_] = pl - x[0][s_]
    seg = numpy.repeat(numpy.arange(K), L)
    if case["shuffle"] is not None:
        seg = seg[numpy.random.default_rng(case["shuffle"]).permutation(m)]
    xt = numpy.array(x, dtype="int8")                       # (T, K)
    dos = xt[numpy.array(types)][:, seg]                    # (n, m) int8
    if case["phased"]:
        # chromosome copy c carries the coded allele iff its (rotated) rank is below the dosage
        rank = (numpy.arange(pl)[:, None, None] + (case["phase_rot"] * seg)[None, None, :]) % pl
        g = DensePhasedGenotypeMatrix(mat=(rank < dos[None, :, :]).astype("int8"),
                                      taxa=numpy.array(["t%03d" % i for i in range(n)], dtype=object))
    else:
        g = DenseGenotypeMatrix(mat=dos.copy(), ploidy=pl,
                                taxa=numpy.array(["t%03d" % i for i in range(n)], dtype=object))
    ctx.check(numpy.array_equal(dosage_of(g), dos), "harness.construction")

    def per_marker(v):
        return numpy.array(v, dtype=float)[seg] if isinstance(v, list) else v
    pcase = {"kind": kind, "via": case["via"], "pref": None, "wt": None, "ij": case["ij"]}
    pm, wm = per_marker(case["pref"]), per_marker(case["wt"])
    pcase["pref"] = pm.tolist() if isinstance(pm, numpy.ndarray) else pm
    pcase["wt"] = wm.tolist() if isinstance(wm, numpy.ndarray) else wm

    ctx.label(kind)
    ctx.label("ploidy%d" % pl)
    ctx.label(case["shape"])
    ctx.label("phased" if case["phased"] else "unphased")
    ctx.label("markers_ge_128", m >= 128)
    ctx.label("markers_ge_32768", m >= 32768)
    ctx.label("markers_ge_65536", m >= 65536)
    ctx.label("taxa_ge_128", n >= 128)
    ctx.label("taxa_ge_256", n >= 256)
    hom_markers = max(sum(l for s_, l in enumerate(L) if x[t][s_] in (0, pl)) for t in range(T))
    ctx.label("inbred_taxon_ge_32768_markers", hom_markers >= 32768)
    ctx.label("molecular_inbred_ge_32768_markers", kind == "molecular" and hom_markers >= 32768)
    ctx.label("shuffled_markers", case["shuffle"] is not None)

    try:
        Gref, S = block_oracle(kind, x, types, pl, L, case["pref"], case["wt"])
    except cref.DomainError:
        ctx.label("outside_formula_domain")
        raise Reject()
    snap = numpy.array(g.mat, copy=True)
    cm = call_from_gmat(pcase, g)
    G = cm.mat
    ctx.check(isinstance(G, numpy.ndarray) and G.shape == (n, n) and G.dtype == numpy.float64, "mat.shape_dtype",
              lambda: "%s %s" % (G.shape, G.dtype))
    ctx.check(_eq_arr(g.mat, snap), "from_gmat_mutated_gmat")
    tol = (8 * m + 32) * EPS * S + 1e-300
    err = numpy.abs(G - Gref)
    bad = numpy.argwhere(~(err <= tol))
    ctx.check(len(bad) == 0, "value.%s" % kind,
              lambda: "entry %s: got %r expected %r (tol %.3g); ploidy=%d n=%d m=%d segments %s" % (
                  bad[0].tolist(), float(G[tuple(bad[0])]), float(Gref[tuple(bad[0])]), float(tol[tuple(bad[0])]),
                  pl, n, m, L))
    ctx.nontrivial(len({tuple(r) for r in x[:min(T, n)]}) >= 2)
    ctx.check(_eq_arr(cm.taxa, g.taxa), "labels.taxa")
    asym = numpy.abs(G - G.T)
    ctx.check(bool((asym <= 2 * tol).all()), "symmetric", lambda: "max |G-G'| = %r" % float(asym.max()))
    normG = float(numpy.abs(G).sum())
    lam_min = cref.min_eigenvalue(G)
    psd_slack = float(tol.sum()) + 16 * n * EPS * normG
    ctx.check(lam_min >= -psd_slack, "positive_semidefinite",
              lambda: "min eigenvalue %r < -%r" % (lam_min, psd_slack))
    check_views_and_summaries(ctx, cm, case["ij"], case["axis"], case["eigvaltol"])


SUBCHECKS = [
    SubCheck("cmat", check_cmat, case_strategy(), quick=900, thorough=5000, shards_quick=4,
             rule="generated (estimator x classmethod|factory x phased|unphased x ploidy 1/2/4 x 1-12 taxa x 1-25 markers "
                  "x reference frequency None|scalar|array x weights x labels x sub-selection/permutation); non-trivial = "
                  ">= 3 taxa with at least two different genotypes; distinct by sha1 of the case",
             required_labels=("molecular", "vanraden", "yang", "genweighted", "ref_given", "ref_sample",
                              "selection_is_nonidentity_permutation", "selection_is_proper_subset",
                              "well_conditioned", "min_inbreeding_checked", "psd_predicate_expected_true",
                              "psd_predicate_expected_false", "has_identical_taxa", "ploidy1", "ploidy4",
                              "inplace_permuted", "inplace_nonidentity", "edited_in_place", "edit_jitter_wrote",
                              "edited.min_inbreeding_checked")),
    SubCheck("summaries", check_matrix, matrix_case(), quick=400, thorough=4000, shards_quick=2,
             rule="generated symmetric matrices B B'/16 + shift I + offdiag (1-7 taxa; positive definite, singular and "
                  "indefinite) wrapped in each coancestry class, handed over row-major / column-major / as a transposed "
                  "or strided view / read-only, optionally permuted in place first; non-trivial = >= 2 taxa",
             required_labels=("indefinite", "positive_definite", "singular_psd", "min_inbreeding_checked",
                              "psd_predicate_expected_true", "psd_predicate_expected_false",
                              "stored_column_major_3plus", "layout_strided_view", "layout_F_readonly",
                              "reordered_in_place", "edited_in_place", "edit_jitter_wrote", "edit_kept_array_object",
                              "edit_setitem_alldiag", "edit_getter_ridge", "edit_iop_scale",
                              "edited.min_inbreeding_checked", "edited.well_conditioned")),
    SubCheck("sizes", check_big, big_case(), quick=40, thorough=150, shards_quick=4,
             rule="segment-constant panels (2-5 genotype classes x 1-6 segments, mostly homozygous) expanded to 100-70000 "
                  "markers x 2-6 taxa or 100-300 taxa x 1-1500 markers, sizes concentrated on 2^7, 2^8, 2^15, 2^16 +-1; "
                  "closed-form expectation in exact rationals; non-trivial = at least two different genotype classes",
             required_labels=("molecular", "vanraden", "yang", "genweighted", "markers_ge_32768", "markers_ge_65536",
                              "taxa_ge_128", "taxa_ge_256", "molecular_inbred_ge_32768_markers", "ploidy1", "ploidy2")),
]
