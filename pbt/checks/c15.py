"""C15 -- breeding-value matrices round-trip through scaling without loss.

Sub-checks
  values   raw (n,t) matrix -> from_numpy (three classes): round trip, stored standardisation, summaries on the
           original scale against exact-rational statistics of the raw values, NaN handling, no mutation.
  history  a start matrix plus a JSON list of taxa-axis operations ([opname, raw args...], indices interpreted
           relative to the current shape).  A value-carrying row model (hidden id, raw values, name, group) is
           edited alongside; after every step each retained taxon's unscaled row must equal its raw row, NaN
           positions must be identical, labels must follow, and the original-scale summaries must still describe
           the raw values.  Every object an earlier step was applied to, and every matrix handed over as an argument,
           is kept alive and re-verified (labels, unscaled values, NaN positions) after every later step.
           The operations: select / delete / insert / adjoin / concat (copying), append / remove / incorp / reorder / group
           (in place).  A quarter of the steps are calls the library is expected to turn down (new taxa without the group
           labels the receiver carries, one trait too many, a vector or a cube instead of a matrix, a list / None as
           operand, label arrays of the wrong shape or length, positions and indices out of range / float / string / None,
           a tuple of indices, mismatched matrices in a concatenation), made on the LIVE object, for in-place and copying
           operations alike: whenever such a call raises (ValueError / TypeError / IndexError) the object must be exactly
           what it was before the call -- values, location, scale, all labels; group metadata untouched or dropped -- a
           matrix operand still describes its own taxa, and the history goes on with the same object under the usual clauses.
  scaled   the generic DenseScaledMatrix: rescale / unscale (in place and not), transform / untransform.
  operands one receiver (any of the five concrete classes of the family) x every kind of operand (a matrix of each of
           the five classes, nested lists / tuples, a list of row arrays, a DataFrame, a generic scaled matrix, ndarrays
           in Fortran order / strided / read-only) x every taxa-axis operation that takes an operand (insert / adjoin /
           append / incorp / concat, through the *_taxa method or the generic axis dispatcher).  Whatever the library
           decides about a combination, the outcome must be one of two: a clean refusal (ValueError / TypeError) that
           leaves the receiver and the operand describing their own taxa, or a result in which every taxon -- the
           receiver's and the operand's -- still unscales to its raw values.

Oracle: python lists + fractions.Fraction (exact mean / variance of the raw floats); tolerances are forward error
bounds in eps = 2**-52 (see the helpers), never a fixed 1e-6.
"""
import math
from fractions import Fraction

import numpy
from hypothesis import strategies as st

from pbt import compat  # noqa: F401
from pbt.core import SubCheck

from pybrops.core.mat.DenseScaledMatrix import DenseScaledMatrix
from pybrops.popgen.bvmat.DenseBreedingValueMatrix import DenseBreedingValueMatrix
from pybrops.popgen.bvmat.DenseEstimatedBreedingValueMatrix import DenseEstimatedBreedingValueMatrix
from pybrops.popgen.bvmat.DenseGenomicEstimatedBreedingValueMatrix import DenseGenomicEstimatedBreedingValueMatrix
from pybrops.model.wgebvmat.DenseWeightedGenomicEstimatedBreedingValueMatrix import DenseWeightedGenomicEstimatedBreedingValueMatrix
from pybrops.model.embvmat.DenseExpectedMaximumBreedingValueMatrix import DenseExpectedMaximumBreedingValueMatrix

ASSUMPTIONS = [
    "raw values are finite float64 of magnitude <= ~1e12 with spreads far above the subnormal range (1/std must not overflow)",
    "a matrix always keeps >= 1 taxon; a freshly built matrix never has an all-NaN trait column (histories may create one)",
    "summaries on the original scale are asserted for NaN-free trait columns only (extrema propagate NaN, mean/std skip it: "
    "'that summary of the raw values' is ambiguous there); NaN columns get the round trip and non-contamination clauses",
    "append_taxa / incorp_taxa are exercised with a breeding-value-matrix argument only (a bare ndarray is ambiguous: "
    "raw or already scaled)",
    "a block of no taxa is handed over as a (0,t) ndarray with empty label arrays (also to append_taxa / incorp_taxa: with "
    "no rows there is nothing that could be raw or scaled); a zero-taxon breeding-value matrix object is never built",
    "an object no later operation is applied to (the receiver of a copying operation, a matrix passed as an argument) must "
    "keep its labels and unscaled values whatever is done later to the objects derived from it: 'built from raw values "
    "... unscaling reproduces the raw value of every taxon' has no expiry",
    "targmax/targmin may return any index whose raw value ties with the extremum after rounding",
    "refused calls: which wrong inputs an operation turns down, and with which of ValueError / TypeError / IndexError, is not "
    "part of the property; what is asserted is that a call that raises has had no effect on the live object (a caller who "
    "catches the error keeps a matrix 'built from raw values'), so the rest of the history applies to it unchanged.  A wrong "
    "input that a copying operation accepts only yields a result that is thrown away (the receiver must be unchanged); one "
    "that an in-place operation accepts ends the history (what the object should hold is undefined).  A tuple of indices is a "
    "documented Sequence: it may be turned down or carried out with the meaning of the same indices in a list.  Group metadata "
    "(names / start / stop / length) may be dropped by a refused call but not altered",
    "group_taxa: the order inside and between groups is read back from the labels (names are unique up to copies of one taxon "
    "made by select); asserted are: same taxa, groups contiguous and ascending, every taxon still carries its raw values",
    "operands: which operand types an operation accepts is not part of the property; a ValueError / TypeError is a clean "
    "refusal for every combination.  What a matrix of the family holds is unambiguous (its taxa's raw values), so if it is "
    "accepted its taxa must arrive with those values; a nested list / tuple / DataFrame / ndarray is read as raw values by "
    "the copying operations (insert, adjoin: that is how they document the ndarray operand) and is ambiguous for the "
    "in-place ones (append, incorp: only the receiver's own taxa are asserted there); the generic scaled matrix operand "
    "has location 0 / scale 1 so that the values it stores and the values it represents coincide",
]

EPS = 2.0 ** -52
CLASSES = {
    "B": DenseBreedingValueMatrix,
    "E": DenseEstimatedBreedingValueMatrix,
    "G": DenseGenomicEstimatedBreedingValueMatrix,
}
# the whole family of concrete classes (the model-level ones inherit every taxa-axis operation and from_numpy)
FAMILY = dict(CLASSES, W=DenseWeightedGenomicEstimatedBreedingValueMatrix, M=DenseExpectedMaximumBreedingValueMatrix)


# ----------------------------------------------------------------------------------------------------------------
# oracle
# ----------------------------------------------------------------------------------------------------------------
def col_oracle(vals):
    """Exact statistics of a list of floats (no NaN): population variance, as the documentation says (nanstd)."""
    k = len(vals)
    fs = [Fraction(v) for v in vals]
    mu = sum(fs) / k
    var = sum((f - mu) ** 2 for f in fs) / k
    return {
        "k": k, "mu": float(mu), "var": float(var), "std": math.sqrt(float(var)),
        "A": max(abs(v) for v in vals), "max": max(vals), "min": min(vals),
        "const": all(v == vals[0] for v in vals),
    }


def _selftest():
    o = col_oracle([1.0, 2.0, 4.0])
    assert abs(o["mu"] - 7.0 / 3.0) < 1e-15 and abs(o["var"] - 14.0 / 9.0) < 1e-15 and not o["const"]
    assert abs(o["std"] - 1.247219128924647) < 1e-15
    o = col_oracle([5.0, 5.0, 5.0])
    assert o["const"] and o["var"] == 0.0 and o["std"] == 0.0 and o["max"] == 5.0 and o["min"] == 5.0
    o = col_oracle([0.1, 0.1, 0.1])
    assert o["const"] and o["var"] == 0.0 and o["mu"] == 0.1


_selftest()


def rt_tol(x, mu, k=1):
    """|unscale(from_numpy(x)) - x|: 1/s, x-m, r*d, s*mat, +m are five roundings; the first four are relative to
    |x-m| <= |x|+|m|, the last to |x|.  `k` = number of such round trips the value has been through."""
    return 16.0 * EPS * k * (abs(x) + abs(mu)) + 1e-300


def mean_tol(o):
    return 2.0 * o["k"] * EPS * o["A"] + 1e-300


def std_tol(o):
    # computed mean off by d <= k*eps*A; sqrt(var + d^2) - std <= d; plus relative rounding of the k-term sums
    return 4.0 * o["k"] * EPS * o["A"] + 8.0 * o["k"] * EPS * o["std"] + 1e-300


def to_array(rows):
    return numpy.array([[numpy.nan if v is None else v for v in r] for r in rows], dtype=float)


def column(rows, j):
    return [r[j] for r in rows]


def nonnan(col):
    return [v for v in col if v is not None]


# ----------------------------------------------------------------------------------------------------------------
# generators
# ----------------------------------------------------------------------------------------------------------------
KINDS = ["normal", "normal", "ints", "const", "const_inexact", "offset", "offset", "tiny", "twolevel", "unit", "unit"]
UNIT_EXP = (-30, 10)        # "unit": an ordinary trait expressed in a unit of 10**e (mol/g ... mg/t): spreads 1e-32 .. 1e12


@st.composite
def col_profile(draw):
    kind = draw(st.sampled_from(KINDS))
    base = 0.0
    if kind == "const":
        base = draw(st.sampled_from([0.0, 5.0, -3.5, 1e9, 1024.0]))
    elif kind == "const_inexact":
        base = draw(st.sampled_from([0.1, 0.3, 1e9 + 0.1, 1.0 / 3.0, 2.7, -0.7, 123456.789]))
    elif kind == "offset":
        base = draw(st.sampled_from([1e9, -1e9, 1e6, 123456789.125, 1e12, -4.0e7]))
    elif kind == "tiny":
        base = draw(st.sampled_from([1.0, 0.1, 1000.0, -2.5]))
    elif kind == "twolevel":
        base = draw(st.sampled_from([0.0, 10.0, -1.5, 1e9]))
    elif kind == "unit":
        base = float(draw(st.integers(*UNIT_EXP)))          # the decimal exponent of the unit
    hasnan = draw(st.sampled_from([False, False, True]))
    return {"kind": kind, "base": base, "nan": hasnan}


def value_for(pf):
    k, b = pf["kind"], pf["base"]
    if k in ("const", "const_inexact"):
        return st.just(b)
    if k == "normal":
        return st.integers(-100000, 100000).map(lambda q: q / 1000.0)
    if k == "ints":
        return st.integers(-5, 5).map(float)
    if k == "offset":
        return st.integers(-1000, 1000).map(lambda q: b + q / 1000.0)
    if k == "tiny":
        return st.integers(-3, 3).map(lambda q: b + q * 1e-9)
    if k == "twolevel":
        return st.sampled_from([b, b + 1.0])
    if k == "unit":
        u = float("1e%d" % int(b))
        return st.integers(-100000, 100000).map(lambda q: (q / 1000.0) * u)
    raise AssertionError(k)


@st.composite
def rows_strategy(draw, n, profiles, keep_one=True, nan_odds=4):
    """n rows x len(profiles) values (float or None=NaN).  keep_one: never a whole-NaN column."""
    t = len(profiles)
    rows = [[None] * t for _ in range(n)]
    for j, pf in enumerate(profiles):
        keeper = draw(st.integers(0, n - 1)) if keep_one else -1
        for i in range(n):
            v = draw(value_for(pf))
            if pf["nan"] and i != keeper and draw(st.integers(0, nan_odds - 1)) == 0:
                v = None
            rows[i][j] = v
    return rows


@st.composite
def values_case(draw):
    cls = draw(st.sampled_from(["B", "B", "E", "G"]))
    n = draw(st.one_of(st.integers(1, 12), st.integers(3, 8)))
    t = draw(st.integers(1, 3))
    profiles = [draw(col_profile()) for _ in range(t)]
    rows = draw(rows_strategy(n, profiles))
    labelled = draw(st.booleans())
    grp = [draw(st.integers(0, 3)) for _ in range(n)] if (labelled and draw(st.booleans())) else None
    return {"cls": cls, "rows": rows, "kinds": [p["kind"] for p in profiles], "labelled": labelled, "grp": grp}


# ----------------------------------------------------------------------------------------------------------------
# state check shared by `values` and `history`
# ----------------------------------------------------------------------------------------------------------------
def check_unscaled(ctx, obj, rows, pre, k, M, keep=None):
    """Round trip: unscale() == raw within the bound, NaN exactly where raw is NaN.  Returns list of bad rows.
    `keep`: only these rows are asserted (the others are excluded by a known finding)."""
    n, t = len(rows), len(rows[0])
    u = obj.unscale()
    if not ctx.check(u.shape == (n, t), pre + "shape", lambda: "unscale() shape %s, model %s" % (u.shape, (n, t))):
        return list(range(n))
    bad = []
    for j in range(t):
        col = column(rows, j)
        nn = nonnan(col)
        oc = col_oracle(nn) if nn else None
        # the location the object holds is the COMPUTED mean: |location| <= |exact mean| + mean_tol (a column whose exact
        # mean is 0 gets a location of order eps * max|x|, and unscale(0) is then off by eps * |location|)
        mu = (abs(oc["mu"]) + mean_tol(oc)) if nn else 0.0
        mref = max(abs(mu), M[j]) if M is not None else abs(mu)
        for i in (range(n) if keep is None else keep):
            x, got = col[i], float(u[i, j])
            if x is None:
                if not ctx.check(math.isnan(got), pre + "nan_positions",
                                 lambda: "row %d trait %d: raw is NaN, unscale()=%r" % (i, j, got)):
                    bad.append(i)
            else:
                if not ctx.check(not math.isnan(got), pre + "nan_positions",
                                 lambda: "row %d trait %d: raw=%r but unscale() is NaN (contaminated)" % (i, j, x)):
                    bad.append(i)
                elif not ctx.check(abs(got - x) <= rt_tol(x, mref, k), pre + "values",
                                   lambda: "row %d trait %d: raw=%r unscale()=%r |diff|=%.3g bound=%.3g location=%r scale=%r"
                                   % (i, j, x, got, abs(got - x), rt_tol(x, mref, k), obj.location.tolist(), obj.scale.tolist())):
                    bad.append(i)
    return sorted(set(bad))


def check_stored(ctx, obj, rows, pre):
    """location = nanmean, scale = nanstd (1 for constant traits), stored non-NaN entries have mean 0 / std 1."""
    n, t = len(rows), len(rows[0])
    loc, sc, mat = obj.location, obj.scale, obj.mat
    ctx.check(loc.shape == (t,) and sc.shape == (t,) and mat.shape == (n, t), pre + "shapes",
              lambda: "%s %s %s" % (loc.shape, sc.shape, mat.shape))
    for j in range(t):
        nn = nonnan(column(rows, j))
        if not nn:
            continue      # all-NaN trait (history only): nothing defined
        o = col_oracle(nn)
        ctx.check(abs(float(loc[j]) - o["mu"]) <= mean_tol(o), pre + "location",
                  lambda: "trait %d: location=%r, mean of raw=%r" % (j, float(loc[j]), o["mu"]))
        stored = [float(mat[i, j]) for i in range(n) if rows[i][j] is not None]
        if o["const"]:
            # input-side signature of F-C15-e: the float mean of the constant column is not the constant itself
            inexact = float(numpy.nanmean(to_array(rows), axis=0)[j]) != nn[0]     # same reduction from_numpy uses
            ctx.label("constant_trait_with_inexact_mean", inexact)
            if not ctx.known("F-C15-e", inexact):
                ctx.check(float(sc[j]) == 1.0 and all(v == 0.0 for v in stored), pre + "constant_unit_scale",
                          lambda: "constant trait %d (value %r x%d): scale=%r stored=%r (expected scale 1, stored 0)"
                          % (j, nn[0], len(nn), float(sc[j]), stored[:4]))
        else:
            ctx.check(abs(float(sc[j]) - o["std"]) <= std_tol(o), pre + "scale",
                      lambda: "trait %d: scale=%r, std of raw=%r (tol %.3g)" % (j, float(sc[j]), o["std"], std_tol(o)))
            if o["std"] > 64.0 * std_tol(o):      # standardisation is well conditioned
                k = len(stored)
                m = math.fsum(stored) / k
                s = math.sqrt(math.fsum((v - m) ** 2 for v in stored) / k)
                tolm = mean_tol(o) / o["std"] + 8.0 * k * EPS
                tols = 2.0 * std_tol(o) / o["std"] + 16.0 * k * EPS
                ctx.check(abs(m) <= tolm, pre + "centred", lambda: "trait %d: mean of stored=%r tol %.3g" % (j, m, tolm))
                ctx.check(abs(s - 1.0) <= tols, pre + "unit_std", lambda: "trait %d: std of stored=%r tol %.3g" % (j, s, tols))


def check_summaries(ctx, obj, rows, pre, k, stale=False, opname="", M=None, unstd=False):
    """tmax/tmin/trange/tmean/tstd/tvar(unscale=True) and arg-extrema against the raw values (NaN-free traits).

    history mode: `M[j]` bounds every location trait j has been centred with and `k` counts the round trips, so the
    values held by the object may have drifted from the model's raw values by `drift`; every tolerance includes it.
    stale: an in-place edit happened since the last re-standardisation (F-C15-d);  unstd: the object came out of
    concat_taxa with location 0 / scale 1 (F-C15-b)."""
    n, t = len(rows), len(rows[0])
    before = obj.mat.copy()
    S = {name: getattr(obj, name)(unscale=True) for name in ("tmax", "tmin", "trange", "tmean", "tstd", "tvar")}
    U = {name: getattr(obj, name)(unscale=False) for name in ("tmax", "tmin", "trange", "tmean", "tstd", "tvar")}
    amax, amin = obj.targmax(), obj.targmin()
    for name, v in list(S.items()) + list(U.items()) + [("targmax", amax), ("targmin", amin)]:
        ctx.check(getattr(v, "shape", None) == (t,), pre + "shape", lambda: "%s shape %s" % (name, getattr(v, "shape", None)))
    ctx.check(numpy.array_equal(before, obj.mat, equal_nan=True), pre + "mutated_matrix", "a summary call changed .mat")
    for j in range(t):
        col = column(rows, j)
        if any(v is None for v in col):
            ctx.label("summary_skipped_nan_trait")
            continue
        o = col_oracle(col)
        mref = (abs(o["mu"]) + mean_tol(o)) if M is None else max(abs(o["mu"]) + mean_tol(o), M[j])
        drift = 0.0 if M is None else rt_tol(o["A"], mref, k)
        tr = lambda x: rt_tol(x, mref, k)   # noqa: E731
        ctx.check(abs(float(S["tmax"][j]) - o["max"]) <= tr(o["max"]), pre + "tmax",
                  lambda: "trait %d: tmax(True)=%r raw max=%r" % (j, float(S["tmax"][j]), o["max"]))
        ctx.check(abs(float(S["tmin"][j]) - o["min"]) <= tr(o["min"]), pre + "tmin",
                  lambda: "trait %d: tmin(True)=%r raw min=%r" % (j, float(S["tmin"][j]), o["min"]))
        ctx.check(abs(float(S["trange"][j]) - (o["max"] - o["min"])) <= tr(o["max"]) + tr(o["min"]), pre + "trange",
                  lambda: "trait %d: trange(True)=%r raw range=%r" % (j, float(S["trange"][j]), o["max"] - o["min"]))
        # ---- mean / std / var: returned from location / scale ------------------------------------------------
        # F-C15-d: in-place taxa edits (append/remove/incorp) do not re-standardise -> location/scale are stale
        if not ctx.known("F-C15-d", stale) and not ctx.known("F-C15-b", unstd):
            ctx.check(abs(float(S["tmean"][j]) - o["mu"]) <= mean_tol(o) + drift, pre + "tmean",
                      lambda: "trait %d: tmean(True)=%r raw mean=%r%s" % (j, float(S["tmean"][j]), o["mu"], opname))
        # F-C15-a: constant trait -> scale is forced to 1 and reported as the standard deviation
        # (history mode: the values the object holds may have drifted from the model by `drift`, so a trait whose model
        #  values agree within that drift may be exactly constant inside the object)
        near_const = o["const"] or (M is not None and o["max"] - o["min"] <= 2.0 * drift)
        if not ctx.known("F-C15-a", near_const) and not ctx.known("F-C15-d", stale) and not ctx.known("F-C15-b", unstd):
            stl = std_tol(o) + 2.0 * drift
            ctx.check(abs(float(S["tstd"][j]) - o["std"]) <= stl, pre + "tstd",
                      lambda: "trait %d: tstd(True)=%r raw std=%r (raw column %r)%s" % (j, float(S["tstd"][j]), o["std"], col[:6], opname))
            tv = 2.0 * o["std"] * stl + stl ** 2 + 8.0 * EPS * o["var"]
            ctx.check(abs(float(S["tvar"][j]) - o["var"]) <= tv, pre + "tvar",
                      lambda: "trait %d: tvar(True)=%r raw var=%r (raw column %r)%s" % (j, float(S["tvar"][j]), o["var"], col[:6], opname))
        # ---- arg extrema ---------------------------------------------------------------------------------------
        im, ii = int(amax[j]), int(amin[j])
        ok = ctx.check(0 <= im < n and 0 <= ii < n, pre + "arg_range", lambda: "targmax=%d targmin=%d n=%d" % (im, ii, n))
        if ok:
            ctx.check(col[im] >= o["max"] - tr(o["max"]), pre + "targmax",
                      lambda: "trait %d: raw[targmax=%d]=%r but raw max=%r" % (j, im, col[im], o["max"]))
            ctx.check(col[ii] <= o["min"] + tr(o["min"]), pre + "targmin",
                      lambda: "trait %d: raw[targmin=%d]=%r but raw min=%r" % (j, ii, col[ii], o["min"]))
        # ---- scaled-side summaries describe the stored column -------------------------------------------------
        st_ = [float(obj.mat[i, j]) for i in range(n)]
        m = math.fsum(st_) / n
        sd = math.sqrt(math.fsum((v - m) ** 2 for v in st_) / n)
        a = max(abs(v) for v in st_)
        tl = 8.0 * n * EPS * (a + 1.0)
        ctx.check(float(U["tmax"][j]) == max(st_) and float(U["tmin"][j]) == min(st_)
                  and abs(float(U["trange"][j]) - (max(st_) - min(st_))) <= tl
                  and abs(float(U["tmean"][j]) - m) <= tl and abs(float(U["tstd"][j]) - sd) <= tl
                  and abs(float(U["tvar"][j]) - sd * sd) <= 2 * tl * (sd + 1.0), pre + "scaled_side",
                  lambda: "trait %d: unscale=False summaries %s do not describe stored column %r"
                  % (j, {q: float(U[q][j]) for q in U}, st_[:6]))


def build(case_cls, rows, names, grp):
    cls = FAMILY[case_cls]
    return cls.from_numpy(
        to_array(rows),
        taxa=None if names is None else numpy.array(names, dtype=object),
        taxa_grp=None if grp is None else numpy.array(grp, dtype=int),
        trait=numpy.array(["tr%d" % j for j in range(len(rows[0]))], dtype=object),
    )


# ----------------------------------------------------------------------------------------------------------------
# sub-check 1: values
# ----------------------------------------------------------------------------------------------------------------
def check_values(case, ctx):
    rows = case["rows"]
    n, t = len(rows), len(rows[0])
    names = ["t%02d" % ((7 * i + 3) % 97) for i in range(n)] if case["labelled"] else None
    raw = to_array(rows)
    snap = raw.copy()
    obj = build(case["cls"], rows, names, case["grp"])
    ctx.check(type(obj) is CLASSES[case["cls"]], "from_numpy.type", str(type(obj)))
    ctx.check(numpy.array_equal(raw, snap, equal_nan=True), "from_numpy.mutated_input")

    cols = [nonnan(column(rows, j)) for j in range(t)]
    os_ = [col_oracle(c) for c in cols]
    anynan = any(v is None for r in rows for v in r)
    ctx.label("class_" + case["cls"])
    ctx.label("has_nan", anynan)
    ctx.label("constant_trait", any(o["const"] for o in os_))
    ctx.label("large_offset", any(o["A"] >= 1e6 and not o["const"] for o in os_))
    ctx.label("tiny_spread", any(0.0 < o["std"] < 1e-6 * max(o["A"], 1e-300) for o in os_))
    ctx.label("spread_below_1e-9", any(0.0 < o["std"] < 1e-9 for o in os_))       # absolute: a trait in a small unit
    ctx.label("spread_above_1e6", any(o["std"] > 1e6 for o in os_))
    ctx.label("single_taxon", n == 1)
    ctx.label("ties_at_extremum", any(c.count(max(c)) > 1 and not o["const"] for c, o in zip(cols, os_)))
    ctx.nontrivial(n >= 3 and any(not o["const"] for o in os_))

    check_unscaled(ctx, obj, rows, "roundtrip.", 1, None)
    check_stored(ctx, obj, rows, "stored.")
    check_summaries(ctx, obj, rows, "summary.", 1)

    # labels carried unchanged
    ctx.check((obj.taxa is None) == (names is None) and (names is None or list(obj.taxa) == names), "labels.taxa")
    ctx.check((obj.taxa_grp is None) == (case["grp"] is None)
              and (case["grp"] is None or [int(g) for g in obj.taxa_grp] == case["grp"]), "labels.taxa_grp")
    ctx.check(list(obj.trait) == ["tr%d" % j for j in range(t)], "labels.trait")


# ----------------------------------------------------------------------------------------------------------------
# sub-check 2: histories
# ----------------------------------------------------------------------------------------------------------------
OPS = ["select", "delete", "insert", "adjoin", "concat", "append", "remove", "incorp"]
# in-place reorderings of the taxa axis: twice the eight above to one of these
OPS_DRAW = OPS * 2 + ["reorder", "reorder", "group"]
INPLACE = ("append", "remove", "incorp", "reorder", "group")
REFUSABLE = OPS + ["reorder"]
# what a call that the library turns down may raise (numpy's own index errors included)
REFUSALS = (ValueError, TypeError, IndexError)


@st.composite
def history_case(draw):
    cls = draw(st.sampled_from(["B", "B", "E", "G"]))
    n = draw(st.integers(1, 7))
    t = draw(st.integers(1, 3))
    profiles = [draw(col_profile()) for _ in range(t)]
    rows = draw(rows_strategy(n, profiles))
    has_grp = draw(st.booleans())
    grp = [draw(st.integers(0, 3)) for _ in range(n)] if has_grp else None
    nops = draw(st.integers(1, 7))
    ops = []
    rawi = st.integers(0, 10 ** 6)
    for _ in range(nops):
        name = draw(st.sampled_from(OPS_DRAW))
        if name in REFUSABLE and draw(st.integers(0, 3)) == 0:
            # a quarter of the steps: a call the library is expected to turn down (the kind of mistake is picked inside
            # `fn` among those that apply to the operation and the current state), made on the live object, which the
            # following steps keep using
            k = draw(st.integers(1, 2))
            ops.append(["refuse", name, draw(rawi), draw(st.lists(rawi, min_size=1, max_size=4)), draw(rawi),
                        draw(rows_strategy(k, profiles, keep_one=False, nan_odds=5)),
                        [draw(st.integers(0, 3)) for _ in range(k)], draw(st.booleans())])
        elif name == "reorder":
            ops.append([name, draw(rawi)])
        elif name == "group":
            ops.append([name])
        elif name == "select":
            ops.append([name, draw(st.lists(rawi, min_size=1, max_size=6))])
        elif name in ("delete", "remove"):
            ops.append([name, draw(st.one_of(rawi, st.lists(rawi, min_size=1, max_size=4)))])
        else:
            k = draw(st.sampled_from([0, 1, 1, 2, 2, 3]))        # 0: a block of no taxa ("no candidate passed the filter")
            new = draw(rows_strategy(k, profiles, keep_one=False, nan_odds=5)) if k else []
            g = [draw(st.integers(0, 3)) for _ in range(k)]
            if name in ("insert", "incorp"):
                ops.append([name, draw(rawi), new, g, draw(st.booleans())])
            elif name == "concat":
                k2 = draw(st.integers(0, 2))
                new2 = draw(rows_strategy(k2, profiles, keep_one=False, nan_odds=5)) if k2 else []
                g2 = [draw(st.integers(0, 3)) for _ in range(k2)]
                ops.append([name, new, g, new2, g2, draw(st.booleans())])
            else:
                ops.append([name, new, g, draw(st.booleans())])
    return {"cls": cls, "rows": rows, "grp": grp, "kinds": [p["kind"] for p in profiles], "ops": ops}


class _Refused(Exception):
    """a deliberately dubious call was turned down by the library (carries the library's exception)"""

    def __init__(self, exc):
        Exception.__init__(self, "%s: %s" % (type(exc).__name__, exc))
        self.exc = exc


def _guarded(f, dubious):
    if not dubious:
        return f()
    try:
        return f()
    except REFUSALS as e:
        raise _Refused(e)


GROUP_META = ("taxa_grp_name", "taxa_grp_stix", "taxa_grp_spix", "taxa_grp_len")


def full_state(o):
    """Everything a caller can observe of a matrix object, in a form that compares bit for bit (NaN included)."""
    def num(a):
        a = numpy.asarray(a)
        return (a.dtype.str, a.shape, numpy.ascontiguousarray(a).tobytes())

    def lab(a):
        if a is None:
            return None
        a = numpy.asarray(a)
        return (a.shape, a.ravel().tolist())
    s = {"mat": num(o.mat), "location": num(o.location), "scale": num(o.scale),
         "taxa": lab(o.taxa), "taxa_grp": lab(o.taxa_grp), "trait": lab(o.trait)}
    for m in GROUP_META:
        s[m] = lab(getattr(o, m))
    return s


def state_diff(a, b, keys=None):
    return [k for k in (keys or a) if a[k] != b[k]]


def _selftest_state():
    x = numpy.array([[1.0, numpy.nan], [2.0, 3.0]])
    o = DenseBreedingValueMatrix.from_numpy(x, taxa=numpy.array(["a", "b"], dtype=object), taxa_grp=numpy.array([1, 0]))
    s = full_state(o)
    assert state_diff(s, full_state(o)) == []
    o.group_taxa()
    d = state_diff(s, full_state(o))
    assert "taxa" in d and "mat" in d and "taxa_grp_name" in d and "location" not in d, d


_selftest_state()


def check_history(case, ctx):
    cname = case["cls"]
    cls = CLASSES[cname]
    t = len(case["rows"][0])
    has_grp = case["grp"] is not None
    counter = [0]

    def mkrows(vals, grps):
        out = []
        for r, g in zip(vals, grps):
            out.append({"name": "x%03d" % counter[0], "vals": list(r), "grp": int(g) if has_grp else None})
            counter[0] += 1
        return out

    model = mkrows(case["rows"], case["grp"] if has_grp else [0] * len(case["rows"]))
    M = [0.0] * t          # running max |value| per trait: bounds every location the values have been centred with

    def see(rs):
        for r in rs:
            for j, v in enumerate(r["vals"]):
                if v is not None:
                    M[j] = max(M[j], abs(v))

    def bv(rs):
        return build(cname, [r["vals"] for r in rs], [r["name"] for r in rs], [r["grp"] for r in rs] if has_grp else None)

    def block(add, as_bv):
        """The operand of an insert/adjoin/append/incorp: a matrix object, or the raw (k,t) array with its labels
        (always the array for a block of no taxa: nothing to standardise, nothing that could be raw or scaled)."""
        if as_bv and add:
            return bv(add), {}
        kw = {"taxa": numpy.array([r["name"] for r in add], dtype=object)}
        if has_grp:
            kw["taxa_grp"] = numpy.array([r["grp"] for r in add], dtype=int)
        return to_array([r["vals"] for r in add]).reshape(len(add), t), kw

    # objects that earlier steps produced or consumed and that no later step is applied to: each must keep describing
    # its own taxa whatever is done afterwards to the objects derived from it
    alive = []

    def retire(obj, rs, k, what):
        alive.append({"obj": obj, "rows": [list(r["vals"]) for r in rs], "names": [r["name"] for r in rs],
                      "grp": [r["grp"] for r in rs] if has_grp else None, "k": k, "what": what})

    def recheck_alive(after):
        pre = "history.earlier_object."
        for e in alive:
            o = e["obj"]
            ctx.check(o.taxa is not None and list(o.taxa) == e["names"], pre + "taxa",
                      lambda: "%s: taxa %s, but it was built with / left holding %s (after a later %s on another object)"
                      % (e["what"], None if o.taxa is None else list(o.taxa), e["names"], after))
            if e["grp"] is not None:
                ctx.check(o.taxa_grp is not None and [int(g) for g in o.taxa_grp] == e["grp"], pre + "taxa_grp",
                          lambda: "%s: taxa_grp %s, expected %s (after a later %s on another object)"
                          % (e["what"], None if o.taxa_grp is None else list(o.taxa_grp), e["grp"], after))
            check_unscaled(ctx, o, e["rows"], pre, e["k"], M)

    see(model)
    cur = bv(model)
    trips = 1              # number of standardise/unscale round trips the oldest value may have been through
    stale = False          # an in-place taxa edit happened since the last re-standardisation
    unstd = False          # the object came out of concat_taxa (F-C15-b): location 0 / scale 1 describe nothing
    seen_ops = set()
    ctx.label("class_" + cname)
    ctx.label("grouped", has_grp)
    ctx.label("start_has_nan", any(v is None for r in model for v in r["vals"]))
    ctx.label("start_constant_trait", any(col_oracle(nonnan(column(case["rows"], j)))["const"] for j in range(t)))

    def resync(badrows):
        """A value clause failed behind a suppressed/known clause: adopt the implementation's values for those rows so
        that the remaining steps are still checked against a consistent model."""
        u = cur.unscale()
        for i in badrows:
            if i < len(model) and i < u.shape[0]:
                model[i]["vals"] = [None if math.isnan(float(x)) else float(x) for x in u[i]]
        see(model)

    def verify_current(pre, after):
        """The usual clauses on the live object against the model: labels follow the rows, every taxon unscales to its raw
        values, earlier objects are intact, the original-scale summaries describe the raw values."""
        rows = [r["vals"] for r in model]
        ctx.check(cur.taxa is not None and list(cur.taxa) == [r["name"] for r in model], pre + "taxa",
                  lambda: "taxa %s, model %s" % (None if cur.taxa is None else list(cur.taxa), [r["name"] for r in model]))
        if has_grp:
            ctx.check(cur.taxa_grp is not None and [int(g) for g in cur.taxa_grp] == [r["grp"] for r in model], pre + "taxa_grp",
                      lambda: "taxa_grp %s, model %s" % (None if cur.taxa_grp is None else list(cur.taxa_grp), [r["grp"] for r in model]))
        else:
            ctx.check(cur.taxa_grp is None, pre + "taxa_grp", "groups appeared")
        bad = check_unscaled(ctx, cur, rows, pre, 2 * trips, M)
        if bad:
            resync(bad)
        recheck_alive(after)
        if cur.mat.shape[0] != len(model):
            return False
        check_summaries(ctx, cur, [r["vals"] for r in model], "history.summary.", 2 * trips, stale=stale, M=M, unstd=unstd,
                        opname=" after %s" % after)
        return True

    # ---- calls that the library is expected to turn down ------------------------------------------------------------
    def after_refusal(name, kind, what, exc, before, operands):
        """The call `what` raised `exc` (or, for a copying operation, returned a result that is thrown away): the live
        object must be exactly what it was before the call, and the history goes on with it.  -> False: history ends."""
        inplace = name in INPLACE
        ctx.label("refused_" + kind if exc is not None else "dubious_call_accepted_by_copying_operation")
        if exc is None:
            ctx.note("accepted", "%s/%s: %s" % (name, kind, what))
        ctx.label("refused_inplace_operation" if inplace else "refused_copying_operation", exc is not None)
        outcome = ("raised %s(%s)" % (type(exc).__name__, str(exc)[:80])) if exc is not None else "returned a new object"
        now = full_state(cur)
        # F-C15-f: append_taxa / incorp_taxa (like reorder_taxa, see there) assign the extended value matrix before they
        # touch the label arrays; when numpy then refuses the labels (a label array that is not 1-d) the exception leaves
        # values and labels of the live object out of step
        sig = name in ("append", "incorp") and kind == "labels_2d"
        if exc is not None and ctx.known("F-C15-f", sig):
            ctx.label("known_half_update_ends_history")
            return False
        core = [k for k in now if k not in GROUP_META]
        diff = state_diff(before, now, core)
        if not ctx.check(not diff, "history.refused.receiver_changed" if exc is not None else "history.%s.source_mutated" % name,
                         lambda: "%s %s and left the live object changed in %s: %d rows stored, taxa %s, taxa_grp %s; it held %d taxa before the call"
                         % (what, outcome, diff, cur.mat.shape[0], None if cur.taxa is None else numpy.asarray(cur.taxa).tolist(),
                            None if cur.taxa_grp is None else numpy.asarray(cur.taxa_grp).tolist(), len(model))):
            return False
        # group metadata: either untouched or dropped altogether (never describing another arrangement of the rows)
        md = state_diff(before, now, GROUP_META)
        ctx.check(not md or all(now[m] is None for m in GROUP_META), "history.refused.group_metadata_stale",
                  lambda: "%s %s and left group metadata %s altered" % (what, outcome, md))
        for o_, vals_, names_, grp_ in operands:
            Mo = [max([abs(v) for v in nonnan(column(vals_, j))] + [0.0]) for j in range(len(vals_[0]))]
            ctx.check(o_.taxa is not None and list(o_.taxa) == names_
                      and ((o_.taxa_grp is None) if grp_ is None else (o_.taxa_grp is not None and [int(g) for g in o_.taxa_grp] == grp_)),
                      "history.refused_operand.labels", lambda: "operand of %s: taxa %s" % (what, o_.taxa))
            check_unscaled(ctx, o_, vals_, "history.refused_operand.", 2, Mo)
        return verify_current("history.refused.", "the refused %s" % name if exc is not None else "the discarded %s" % name)

    def refused_call(op):
        """-> (name, kind, callable, description, matrix operands) for one deliberately wrong call on the live object."""
        _, name, kraw, idxraw, posraw, newvals, newgrp, flag = op
        n = len(model)
        sub = kraw // 16
        k = len(newvals)
        if name in ("insert", "adjoin", "append", "incorp"):
            # (the draw favours small numbers: the kinds that need a particular state come first)
            kinds = (["missing_grp"] * 3 if has_grp else []) + ["wrong_ntrait", "wrong_ndim"]
            if name in ("insert", "incorp"):
                kinds.append("bad_pos")
            kinds += ["wrong_type", "labels_2d"]
            if name in ("insert", "adjoin"):
                kinds.append("labels_len")
        elif name == "concat":
            kinds = ["wrong_ntrait", "mixed_grp", "ndarray_element"]
        else:
            kinds = ["out_of_range", "out_of_range", "float_index", "string_index", "tuple_indices", "tuple_indices"]
            if name != "reorder":
                kinds.append("not_a_sequence")      # (reorder_taxa(None) is numpy's newaxis: accepted, not a refusal)
        kind = kinds[kraw % len(kinds)]
        if kind == "tuple_indices":
            return name, kind, None, None, []
        names = ["y%03d" % (counter[0] + i) for i in range(k)]
        counter[0] += k
        grp = [int(g) for g in newgrp] if has_grp else None
        wide = [list(r) + [float(i)] for i, r in enumerate(newvals)]           # one trait too many
        operands = []

        def mat(vals, g):
            o = build(cname, vals, names, g)
            operands.append((o, [list(r) for r in vals], names, g))
            return o
        full = {"taxa": numpy.array(names, dtype=object)}
        if has_grp:
            full["taxa_grp"] = numpy.array(grp, dtype=int)

        if name in ("insert", "adjoin", "append", "incorp"):
            pos = posraw % (n + 1)
            val, kw = to_array(newvals).reshape(k, t), dict(full)
            if kind == "missing_grp":           # the receiver carries group labels, the new taxa come without any
                if flag:
                    val, kw = mat(newvals, None), {}
                else:
                    kw = {"taxa": full["taxa"]}
            elif kind == "wrong_ntrait":
                if flag:
                    val, kw = mat(wide, grp), {}
                else:
                    val = to_array(wide)
            elif kind == "wrong_ndim":
                if flag:                          # one taxon handed over as a vector
                    val, kw = val[0], {a: b[:1] for a, b in full.items()}
                else:
                    val = val[None]
            elif kind == "wrong_type":
                val = [[float("nan") if v is None else v for v in r] for r in newvals] if flag else None
            elif kind == "labels_2d":            # a column of labels, as DataFrame[[...]].values gives it
                which = "taxa_grp" if (has_grp and not flag) else "taxa"
                kw[which] = kw[which].reshape(k, 1)
            elif kind == "labels_len":
                kw["taxa"] = numpy.array(names + ["y%03d" % counter[0]], dtype=object)
                if has_grp:
                    kw["taxa_grp"] = numpy.array(grp + [0], dtype=int)
            elif kind == "bad_pos":
                pos = [n + 1 + sub % 3, -(n + 2) - sub % 3, pos + 0.5, None][(sub // 4) % 4]
            if name == "insert":
                f = lambda: cur.insert_taxa(pos, val, **kw)     # noqa: E731
            elif name == "adjoin":
                f = lambda: cur.adjoin_taxa(val, **kw)           # noqa: E731
            elif name == "append":
                f = lambda: cur.append_taxa(val, **kw)           # noqa: E731
            else:
                f = lambda: cur.incorp_taxa(pos, val, **kw)     # noqa: E731
            what = "%s_taxa(%s%s%s)" % (name, "%r, " % (pos,) if name in ("insert", "incorp") else "",
                                        type(val).__name__ + (str(getattr(val, "shape", "")) if isinstance(val, numpy.ndarray) else ""),
                                        "".join(", %s=%s" % (a, "array%s" % (b.shape,)) for a, b in kw.items()))
        elif name == "concat":
            if kind == "wrong_ntrait":
                other = mat(wide, grp)
            elif kind == "mixed_grp":
                other = build(cname, newvals, names, None if has_grp else [int(g) for g in newgrp])
                operands.append((other, [list(r) for r in newvals], names, None if has_grp else [int(g) for g in newgrp]))
            else:
                other = to_array(newvals).reshape(k, t)
            # (a bare array is only ever offered after the live object: in front the inherited method reads `.trait`
            #  off it -- AttributeError, garbage in rather than a refusal)
            mats = [cur, other] if (flag or kind == "ndarray_element") else [other, cur]
            f = lambda: cls.concat_taxa(mats)                    # noqa: E731
            what = "concat_taxa([%s])" % ", ".join("self" if m is cur else type(m).__name__ for m in mats)
        else:
            if name == "reorder":
                base = [int(i) for i in numpy.random.default_rng(posraw).permutation(n)]
            else:
                base = [r % n for r in idxraw]
            if kind == "out_of_range":
                bad = (n + sub % 3) if (sub // 4) % 2 == 0 else (-(n + 1) - sub % 3)
                j = (sub // 8) % len(base) if name == "reorder" else (sub // 8) % (len(base) + 1)
                arg = (base[:j] + [bad] + base[j + 1:]) if name == "reorder" else (base[:j] + [bad] + base[j:])
                if name in ("delete", "remove") and (sub // 64) % 3 == 0:
                    arg = bad                                     # a single index
                elif flag:
                    arg = numpy.array(arg, dtype="int64")
            elif kind == "float_index":
                arg = numpy.array(base, dtype=float)
            elif kind == "string_index":
                arg = [model[i]["name"] for i in base]
            else:
                arg = None
            f = {"select": lambda: cur.select_taxa(arg), "delete": lambda: cur.delete_taxa(arg),
                 "remove": lambda: cur.remove_taxa(arg), "reorder": lambda: cur.reorder_taxa(arg)}[name]
            what = "%s_taxa(%r)" % (name, arg)
        return name, kind, f, what, operands

    executed_after_refusal = False
    pending_refusal = False
    for step, op in enumerate(case["ops"]):
        n = len(model)
        before = full_state(cur)
        dubious = None                    # set: the call may legitimately be turned down (or be accepted with its plain meaning)
        if op[0] == "refuse":
            rname, kind, f, what, r_operands = refused_call(op)
            if kind == "tuple_indices":
                # a tuple where a list is usual: a documented Sequence.  Either outcome is fine: turned down (object
                # untouched) or carried out with the meaning of the same indices in a list
                dubious = kind
                op = ["reorder", op[4]] if rname == "reorder" else [rname, op[3]]
            else:
                try:
                    f()
                except REFUSALS as e:
                    exc = e
                else:
                    exc = None
                    if rname in INPLACE:
                        # an in-place operation took the wrong input: what the object should now hold is anybody's guess
                        ctx.label("dubious_call_accepted_by_inplace_operation_ends_history")
                        ctx.note("accepted", "%s/%s: %s" % (rname, kind, what))
                        return
                if not after_refusal(rname, kind, what, exc, before, r_operands):
                    return
                pending_refusal = pending_refusal or exc is not None
                for o_, vals_, names_, grp_ in r_operands:
                    if len(vals_[0]) == t:
                        alive.append({"obj": o_, "rows": vals_, "names": names_, "grp": grp_, "k": 2,
                                      "what": "a matrix argument of the refused step %d (%s)" % (step, rname)})
                continue
        name = op[0]
        pre = "history.%s." % name
        snap = (cur.mat.copy(), cur.location.copy(), cur.scale.copy())
        skip_values_rows = set()          # rows whose value clause is excluded by a known finding
        prev, prev_model, prev_k = cur, model, 2 * trips
        operands = []                     # matrix objects handed to this operation: (object, their rows)
        try:
            if name == "select":
                idx = [r % n for r in op[1]]
                # the same entities addressed through negative indices in a third of the positions (a tail selection)
                arg = [(i - n) if (r // 11) % 3 == 0 else i for i, r in zip(idx, op[1])]
                ctx.label("select_with_negative_index", any(a < 0 for a in arg))
                arg = tuple(arg) if dubious else arg if (op[1][0] // 5) % 2 == 0 else numpy.array(arg, dtype="int64")
                new = _guarded(lambda: cur.select_taxa(arg), dubious)
                model2 = [dict(model[i]) for i in idx]
            elif name in ("delete", "remove"):
                arg = op[1]
                if isinstance(arg, list):
                    idx = sorted(set(r % n for r in arg))[: n - 1]      # keep at least one taxon
                    if not idx:
                        continue
                    obj = tuple(idx) if dubious else idx
                else:
                    if n == 1:
                        continue
                    idx = [arg % n]
                    obj = idx[0] - n if (arg // 11) % 3 == 0 else idx[0]
                model2 = [r for i, r in enumerate(model) if i not in idx]
                if name == "delete":
                    new = _guarded(lambda: cur.delete_taxa(obj), dubious)
                else:
                    _guarded(lambda: cur.remove_taxa(obj), dubious)
                    new = cur
            elif name == "reorder":
                perm = [int(i) for i in numpy.random.default_rng(op[1]).permutation(n)]
                arg = tuple(perm) if dubious else perm if (op[1] // 5) % 2 == 0 else numpy.array(perm, dtype="int64")
                # F-C15-f: reorder_taxa re-indexes the value matrix, then uses the tuple as a multi-dimensional index of
                # the 1-d label arrays: IndexError with values and labels left out of step (one taxon: no error, the label
                # array collapses to a scalar).  Either way the object is unusable afterwards: the history ends here
                if dubious and ctx.known("F-C15-f", True):
                    ctx.label("known_half_update_ends_history")
                    try:
                        cur.reorder_taxa(arg)
                    except REFUSALS:
                        pass
                    return
                _guarded(lambda: cur.reorder_taxa(arg), dubious)
                new = cur
                model2 = [model[i] for i in perm]
            elif name == "group":
                cur.group_taxa()
                new = cur
                got = None if cur.taxa is None else list(cur.taxa)
                names = [r["name"] for r in model]
                if not ctx.check(got is not None and sorted(got) == sorted(names), pre + "taxa",
                                 lambda: "group_taxa: taxa %s are no rearrangement of %s" % (got, names)):
                    return
                left, model2 = list(range(n)), []                       # the order the labels are in now
                for x in got:
                    i = next(i for i in left if names[i] == x)
                    left.remove(i)
                    model2.append(model[i])
                if has_grp:
                    gs = [r["grp"] for r in model2]
                    ctx.check(all(a <= b for a, b in zip(gs, gs[1:])), pre + "groups_not_contiguous", lambda: "groups %s" % gs)
                    ctx.label("grouped_with_metadata", cur.taxa_grp_name is not None)
            elif name in ("insert", "incorp"):
                pos = op[1] % (n + 1)
                add = mkrows(op[2], op[3])
                see(add)
                val, kw = block(add, op[4] or name == "incorp")
                if not kw:
                    operands.append((val, add))
                ctx.label("zero_row_operand", not add)
                model2 = model[:pos] + add + model[pos:]
                if name == "insert":
                    new = cur.insert_taxa(pos, val, **kw)
                else:
                    cur.incorp_taxa(pos, val, **kw)
                    new = cur
                    # F-C15-c: the argument's *scaled* values are spliced under self's location/scale
                    if add and ctx.known("F-C15-c", True):
                        skip_values_rows = set(range(pos, pos + len(add)))
                ctx.label("inserted_all_nan_trait", any(all(r["vals"][j] is None for r in add) for j in range(t)))
            elif name in ("adjoin", "append"):
                add = mkrows(op[1], op[2])
                see(add)
                val, kw = block(add, op[3] or name == "append")
                if not kw:
                    operands.append((val, add))
                ctx.label("zero_row_operand", not add)
                model2 = model + add
                if name == "adjoin":
                    new = cur.adjoin_taxa(val, **kw)
                else:
                    cur.append_taxa(val, **kw)
                    new = cur
                    if add and ctx.known("F-C15-c", True):
                        skip_values_rows = set(range(n, n + len(add)))
            elif name == "concat":
                a = mkrows(op[1], op[2])
                b = mkrows(op[3], op[4])
                see(a + b)
                first = op[5]
                parts = [bv(x) for x in (a, b) if x]           # possibly none: the one-element list [cur]
                operands.extend((p, x) for p, x in zip(parts, [x for x in (a, b) if x]))
                ctx.label("concat_of_one_matrix", not parts)
                mats = ([cur] + parts) if first else (parts + [cur])
                model2 = (model + a + b) if first else (a + b + model)
                # F-C15-b: concat_taxa is inherited: it joins the *scaled* matrices and calls cls(mat=...) without
                # location/scale (defaults 0/1 on the base class, TypeError on the E/GE subclasses)
                known_b = ctx.known("F-C15-b", True)
                try:
                    new = cls.concat_taxa(mats)
                except TypeError as e:
                    ctx.label("concat_raises_TypeError_on_subclass")
                    if not known_b:
                        ctx.fail(pre + "raises", "%s.concat_taxa raised TypeError: %s" % (cls.__name__, e))
                    continue            # state unchanged
                if known_b:
                    skip_values_rows = set(range(len(model2)))
            else:
                raise AssertionError(name)
        except _Refused as r:
            if not after_refusal(name, dubious, "%s_taxa(%r)" % (name, arg if name in ("select", "reorder") else obj), r.exc, before, []):
                return
            pending_refusal = True
            continue
        if dubious:
            ctx.label("tuple_indices_accepted")
        seen_ops.add(name)
        executed_after_refusal = executed_after_refusal or pending_refusal

        # ---- the operation's own contract -------------------------------------------------------------------
        if name not in INPLACE:
            ctx.check(type(new) is cls, pre + "type", str(type(new)))
            ctx.check(numpy.array_equal(snap[0], cur.mat, equal_nan=True) and numpy.array_equal(snap[1], cur.location, equal_nan=True)
                      and numpy.array_equal(snap[2], cur.scale, equal_nan=True), pre + "source_mutated",
                      "the receiver of a non-in-place operation changed")
            trips += 1
            stale = False
            unstd = bool(skip_values_rows) and name == "concat"
        else:
            stale = True
        if name in ("insert", "incorp", "adjoin", "append", "concat"):
            trips += 1          # values handed over as a matrix went through their own round trip
        cur, model = new, model2
        rows = [r["vals"] for r in model]
        if name not in INPLACE:
            retire(prev, prev_model, prev_k, "the receiver of step %d (%s)" % (step, name))
        for o_, rs_ in operands:
            retire(o_, rs_, 2, "a matrix argument of step %d (%s)" % (step, name))

        # labels follow the rows
        ctx.check(cur.taxa is not None and list(cur.taxa) == [r["name"] for r in model], pre + "taxa",
                  lambda: "taxa %s, model %s" % (None if cur.taxa is None else list(cur.taxa), [r["name"] for r in model]))
        if has_grp:
            ctx.check(cur.taxa_grp is not None and [int(g) for g in cur.taxa_grp] == [r["grp"] for r in model], pre + "taxa_grp",
                      lambda: "taxa_grp %s, model %s" % (None if cur.taxa_grp is None else list(cur.taxa_grp), [r["grp"] for r in model]))
        else:
            ctx.check(cur.taxa_grp is None, pre + "taxa_grp", "groups appeared")

        # every retained / added taxon keeps its raw values; NaN exactly where it was
        if skip_values_rows:
            keep = [i for i in range(len(model)) if i not in skip_values_rows]
            bad = check_unscaled(ctx, cur, rows, pre, 2 * trips, M, keep=keep)
            resync(sorted(set(bad) | skip_values_rows))
        else:
            bad = check_unscaled(ctx, cur, rows, pre, 2 * trips, M)
            if bad:
                resync(bad)
        rows = [r["vals"] for r in model]
        # every object of an earlier step still holds its own taxa with their raw values
        ctx.label("inplace_step_with_earlier_objects_alive", name in INPLACE and bool(alive))
        recheck_alive(name)
        if cur.mat.shape[0] != len(model):
            return      # shape clause already failed (suppressed): nothing further can be aligned

        check_summaries(ctx, cur, rows, "history.summary.", 2 * trips, stale=stale, M=M, unstd=unstd,
                        opname=" after in-place %s" % name if stale else "")

    ctx.label("ops_%d+" % min(len(case["ops"]), 4))
    ctx.label("object_used_again_after_a_refused_call", executed_after_refusal)
    for nm in seen_ops:
        ctx.label("op_" + nm)
    ctx.nontrivial(len(model) >= 3 and len(seen_ops) >= 2
                   and any(not col_oracle(nonnan(column([r["vals"] for r in model], j)) or [0.0])["const"] for j in range(t)))


# ----------------------------------------------------------------------------------------------------------------
# sub-check 3: generic DenseScaledMatrix
# ----------------------------------------------------------------------------------------------------------------
@st.composite
def scaled_case(draw):
    t = draw(st.integers(1, 3))
    n = draw(st.integers(1, 6))
    depth = draw(st.sampled_from([0, 0, 2]))         # 0: (n,t) matrix; 2: (2,n,t) cube
    profiles = [draw(col_profile()) for _ in range(t)]
    rows = draw(rows_strategy(n * (depth or 1), profiles))
    loc = [draw(st.sampled_from([0.0, 1.0, -2.5, 100.0, 1e6])) for _ in range(t)]
    sc = [draw(st.sampled_from([1.0, 2.0, 0.5, 3.7, 1e-3, 1e3])) for _ in range(t)]
    ext = draw(rows_strategy(draw(st.integers(1, 3)), profiles, keep_one=False, nan_odds=6))
    ops = draw(st.lists(st.sampled_from(["rescale", "rescale_copy", "unscale", "unscale_copy", "transform", "transform_copy"]),
                        min_size=1, max_size=5))
    return {"rows": rows, "depth": depth, "loc": loc, "scale": sc, "ext": ext, "ops": ops}


def check_scaled(case, ctx):
    rows = case["rows"]
    t = len(rows[0])
    arr = to_array(rows)
    if case["depth"]:
        arr = arr.reshape(case["depth"], -1, t)
    obj = DenseScaledMatrix(arr.copy(), numpy.array(case["loc"], dtype=float), numpy.array(case["scale"], dtype=float))
    # the values the object represents, tracked by the model: flat list of rows (last axis = columns)
    flat = lambda a: a.reshape(-1, t)      # noqa: E731
    rep = [[None if math.isnan(float(v)) else float(v) * case["scale"][j] + case["loc"][j] for j, v in enumerate(r)] for r in flat(arr)]
    A = [max([abs(v) for v in nonnan(column(rep, j))] + [abs(case["loc"][j]), 1e-300]) for j in range(t)]
    trips = 1
    ctx.label("cube", bool(case["depth"]))
    ctx.label("has_nan", any(v is None for r in rep for v in r))
    ctx.nontrivial(len(rep) >= 3 and len(set(case["ops"])) >= 2)

    def same_rep(got, pre, k):
        got = flat(got)
        for i, r in enumerate(rep):
            for j, x in enumerate(r):
                g = float(got[i, j])
                if x is None:
                    ctx.check(math.isnan(g), pre + "nan_positions", lambda: "(%d,%d): NaN expected, got %r" % (i, j, g))
                else:
                    ctx.check(abs(g - x) <= 16.0 * EPS * k * (abs(x) + A[j]), pre + "values",
                              lambda: "(%d,%d): represented value %r, got %r" % (i, j, x, g))

    def standardised(got, pre):
        got = flat(got)
        for j in range(t):
            nn = nonnan(column(rep, j))
            o = col_oracle(nn)
            st_ = [float(got[i, j]) for i in range(len(rep)) if rep[i][j] is not None]
            if o["const"] or o["std"] <= 64.0 * (std_tol(o) + 32.0 * EPS * trips * A[j]):
                continue
            k = len(st_)
            m = math.fsum(st_) / k
            s = math.sqrt(math.fsum((v - m) ** 2 for v in st_) / k)
            slack = (mean_tol(o) + 32.0 * EPS * trips * A[j]) / o["std"] + 16.0 * k * EPS
            ctx.check(abs(m) <= slack and abs(s - 1.0) <= 2.0 * slack, pre + "standardised",
                      lambda: "column %d: mean %r std %r of the rescaled values (slack %.3g)" % (j, m, s, slack))

    for opn in case["ops"]:
        pre = "scaled.%s." % opn
        m0, l0, s0 = obj.mat.copy(), obj.location.copy(), obj.scale.copy()
        unchanged = lambda: (numpy.array_equal(m0, obj.mat, equal_nan=True) and numpy.array_equal(l0, obj.location)  # noqa: E731
                             and numpy.array_equal(s0, obj.scale))
        if opn == "unscale_copy":
            out = obj.unscale(inplace=False)
            ctx.check(unchanged() and out is not obj.mat, pre + "object_changed")
            same_rep(out, pre, trips + 1)
        elif opn == "unscale":
            out = obj.unscale(inplace=True)
            ctx.check(out is obj.mat, pre + "returns_own_matrix")
            ctx.check(bool((obj.scale == 1.0).all() and (obj.location == 0.0).all()), pre + "parameters_reset",
                      lambda: "location %s scale %s" % (obj.location.tolist(), obj.scale.tolist()))
            trips += 1
            same_rep(obj.mat, pre, trips)
        elif opn == "rescale_copy":
            out = obj.rescale(inplace=False)
            ctx.check(unchanged() and out is not obj.mat, pre + "object_changed")
            ctx.check(out.shape == obj.mat.shape, pre + "shape")
            standardised(out, pre)
        elif opn == "rescale":
            out = obj.rescale(inplace=True)
            ctx.check(out is obj.mat, pre + "returns_own_matrix")
            trips += 2
            standardised(obj.mat, pre)
            # parameters describe the represented values
            for j in range(t):
                o = col_oracle(nonnan(column(rep, j)))
                slack = 32.0 * EPS * trips * A[j]
                ctx.check(abs(float(obj.location[j]) - o["mu"]) <= mean_tol(o) + slack, pre + "location",
                          lambda: "column %d: location %r, mean of represented values %r" % (j, float(obj.location[j]), o["mu"]))
                if o["std"] > 64.0 * (std_tol(o) + slack):
                    ctx.check(abs(float(obj.scale[j]) - o["std"]) <= std_tol(o) + slack, pre + "scale",
                              lambda: "column %d: scale %r, std of represented values %r" % (j, float(obj.scale[j]), o["std"]))
            # and the object still represents the same values
            same_rep(obj.mat * obj.scale + obj.location, pre, trips)
        else:
            ext = to_array(case["ext"])
            keep = ext.copy()
            cp = opn.endswith("_copy")
            out = obj.transform(ext, copy=cp)
            ctx.check(unchanged(), pre + "object_changed")
            ctx.check((out is not ext and numpy.array_equal(ext, keep, equal_nan=True)) if cp else (out is ext), pre + "copy_flag")
            for i, r in enumerate(case["ext"]):
                for j, x in enumerate(r):
                    g = float(out[i, j])
                    if x is None:
                        ctx.check(math.isnan(g), pre + "nan_positions")
                        continue
                    L, Sc = float(obj.location[j]), float(obj.scale[j])
                    want = (Fraction(x) - Fraction(L)) / Fraction(Sc)
                    ctx.check(abs(Fraction(g) - want) <= 8.0 * EPS * abs(want) + 1e-300, pre + "values",
                              lambda: "(%d,%d): transform(%r) = %r, expected %r" % (i, j, x, g, float(want)))
            back = obj.untransform(out, copy=cp)
            ctx.check((back is not out) if cp else (back is out), pre + "untransform_copy_flag")
            for i, r in enumerate(case["ext"]):
                for j, x in enumerate(r):
                    if x is not None:
                        ctx.check(abs(float(back[i, j]) - x) <= 16.0 * EPS * (abs(x) + abs(float(obj.location[j]))) + 1e-300,
                                  pre + "untransform_inverse",
                                  lambda: "(%d,%d): untransform(transform(%r)) = %r" % (i, j, x, float(back[i, j])))


# ----------------------------------------------------------------------------------------------------------------
# sub-check 4: every kind of operand x every receiver class x every operation that takes an operand
# ----------------------------------------------------------------------------------------------------------------
MATRIX_FORMS = ["B", "E", "G", "W", "M"]
ARRAYLIKE_FORMS = ["list", "tuple", "rowarrays", "dataframe", "scaledmat"]       # not ndarrays
NDARRAY_FORMS = ["ndarray", "ndarray_f", "ndarray_view", "ndarray_ro"]
FORMS = MATRIX_FORMS + ARRAYLIKE_FORMS + NDARRAY_FORMS
OPERAND_OPS = ["insert", "adjoin", "append", "incorp", "concat"]


@st.composite
def operands_case(draw):
    recv = draw(st.sampled_from(["B", "E", "G", "W", "M", "E", "G"]))
    n = draw(st.integers(1, 6))
    t = draw(st.integers(1, 3))
    profiles = [draw(col_profile()) for _ in range(t)]
    rows = draw(rows_strategy(n, profiles))
    k = draw(st.integers(1, 3))
    add = draw(rows_strategy(k, profiles, keep_one=False, nan_odds=5))
    has_grp = draw(st.booleans())
    return {"recv": recv, "rows": rows, "add": add, "kinds": [p["kind"] for p in profiles],
            "grp": [draw(st.integers(0, 3)) for _ in range(n)] if has_grp else None,
            "addgrp": [draw(st.integers(0, 3)) for _ in range(k)] if has_grp else None,
            "pos": draw(st.integers(0, 10 ** 6)),
            # one bit per (form, operation): through the generic axis dispatcher / labels given explicitly / operand first
            "generic": draw(st.integers(0, 2 ** 70 - 1)), "labels": draw(st.integers(0, 2 ** 70 - 1)),
            "axis": draw(st.sampled_from([0, -2]))}


def check_operands(case, ctx):
    rname = case["recv"]
    R = FAMILY[rname]
    rows, add = case["rows"], case["add"]
    n, k, t = len(rows), len(add), len(rows[0])
    has_grp = case["grp"] is not None
    names = ["r%02d" % i for i in range(n)]
    addnames = ["a%02d" % i for i in range(k)]
    M = [max([abs(v) for v in nonnan(column(rows + add, j))] + [0.0]) for j in range(t)]
    pos = case["pos"] % (n + 1)
    axis = case["axis"]
    ctx.label("receiver_" + rname)
    ctx.label("grouped", has_grp)
    ctx.nontrivial(n >= 2 and any(not col_oracle(nonnan(column(rows, j)))["const"] for j in range(t)))

    def operand(form):
        """-> (object handed to the operation, is it a matrix of the family, is it the receiver's class or a subclass)"""
        a = to_array(add).reshape(k, t)
        if form in FAMILY:
            o = build(form, add, addnames, case["addgrp"])
            return o, True, isinstance(o, R)
        if form == "list":
            return [[float(v) for v in r] for r in a], False, False
        if form == "tuple":
            return tuple(tuple(float(v) for v in r) for r in a), False, False
        if form == "rowarrays":
            return [r.copy() for r in a], False, False
        if form == "dataframe":
            import pandas
            return pandas.DataFrame(a.copy()), False, False
        if form == "scaledmat":
            return DenseScaledMatrix(a.copy(), numpy.zeros(t), numpy.ones(t)), False, False
        if form == "ndarray":
            return a, False, False
        if form == "ndarray_f":
            return numpy.asfortranarray(a), False, False
        if form == "ndarray_view":
            wide = numpy.full((2 * k + 1, 2 * t + 1), 1.0e3)
            wide[1::2, 1::2] = a
            return wide[1::2, 1::2], False, False
        if form == "ndarray_ro":
            a.setflags(write=False)
            return a, False, False
        raise AssertionError(form)

    def same_labels(obj, wantn, wantg):
        return (obj.taxa is not None and list(obj.taxa) == wantn
                and ((obj.taxa_grp is None and not has_grp)
                     or (has_grp and obj.taxa_grp is not None and [int(g) for g in obj.taxa_grp] == wantg)))

    bit = 0
    for form in FORMS:
        for op in OPERAND_OPS:
            generic = bool((case["generic"] >> bit) & 1)
            explicit = bool((case["labels"] >> bit) & 1)
            bit += 1
            if op == "concat" and form not in FAMILY:
                continue          # a list of matrices holding something that is no matrix at all: not a taxa-axis operation
            pre = "operands.%s." % op
            recv = build(rname, rows, names, case["grp"])
            val, is_bv, legit = operand(form)
            explicit = explicit or not is_bv          # labels always accompany an operand that carries none itself
            kind = ("matrix_of_receiver_class" if form == rname else "matrix_of_a_subclass" if legit else
                    "matrix_of_parent_or_sibling_class" if is_bv else "ndarray" if form in NDARRAY_FORMS else "array_like")
            kw = {}
            if explicit:
                kw["taxa"] = numpy.array(addnames, dtype=object)
                if has_grp:
                    kw["taxa_grp"] = numpy.array(case["addgrp"], dtype=int)
            snap = (recv.mat.copy(), recv.location.copy(), recv.scale.copy())
            inplace = op in INPLACE
            first = True
            what = "%s.%s%s(%s operand%s)" % (R.__name__, op, "" if generic else "_taxa",
                                              type(val).__name__ if form not in NDARRAY_FORMS else form,
                                              ", labels passed" if explicit else "")
            try:
                if op == "insert":
                    new = recv.insert(pos, val, axis=axis, **kw) if generic else recv.insert_taxa(pos, val, **kw)
                elif op == "adjoin":
                    new = recv.adjoin(val, axis=axis, **kw) if generic else recv.adjoin_taxa(val, **kw)
                elif op == "append":
                    recv.append(val, axis=axis, **kw) if generic else recv.append_taxa(val, **kw)
                    new = recv
                elif op == "incorp":
                    recv.incorp(pos, val, axis=axis, **kw) if generic else recv.incorp_taxa(pos, val, **kw)
                    new = recv
                else:
                    first = not explicit if is_bv else (case["labels"] >> bit) & 1 == 0     # receiver first / operand first
                    mats = [recv, val] if first else [val, recv]
                    new = R.concat(mats, axis=axis) if generic else R.concat_taxa(mats)
            except (ValueError, TypeError) as e:
                # ---- a clean refusal: nothing with altered values may be left behind ---------------------------------
                ctx.label("refused_" + kind)
                ctx.check(numpy.array_equal(snap[0], recv.mat, equal_nan=True)
                          and numpy.array_equal(snap[1], recv.location, equal_nan=True)
                          and numpy.array_equal(snap[2], recv.scale, equal_nan=True)
                          and same_labels(recv, names, case["grp"]),
                          pre + "refused_but_receiver_changed",
                          lambda: "%s raised %s(%s) and left the receiver changed (taxa %s)"
                          % (what, type(e).__name__, e, None if recv.taxa is None else list(recv.taxa)))
                if is_bv:
                    check_unscaled(ctx, val, add, "operands.refused_operand.", 2, M)
                continue

            # ---- accepted: every taxon of the result carries its raw values --------------------------------------------
            ctx.label("accepted_" + kind)
            if op in ("insert", "incorp"):
                lo = pos
                mrows, mnames = rows[:pos] + add + rows[pos:], names[:pos] + addnames + names[pos:]
                mgrp = (case["grp"][:pos] + case["addgrp"] + case["grp"][pos:]) if has_grp else None
            elif op in ("adjoin", "append") or first:
                lo = n
                mrows, mnames = rows + add, names + addnames
                mgrp = (case["grp"] + case["addgrp"]) if has_grp else None
            else:
                lo = 0
                mrows, mnames = add + rows, addnames + names
                mgrp = (case["addgrp"] + case["grp"]) if has_grp else None
            newrows = set(range(lo, lo + k))
            if not ctx.check(getattr(new, "mat", None) is not None and new.mat.shape == (n + k, t), pre + "shape",
                             lambda: "%s: result %r" % (what, getattr(getattr(new, "mat", None), "shape", None))):
                continue
            # the documented operand kinds (own class / subclass, or labels given) must arrive with their labels; for any
            # other accepted kind only the values are asserted
            if explicit or legit:
                ctx.check(same_labels(new, mnames, mgrp), pre + "labels",
                          lambda: "%s: taxa %s groups %s, expected %s %s"
                          % (what, None if new.taxa is None else list(new.taxa),
                             None if new.taxa_grp is None else list(new.taxa_grp), mnames, mgrp))
            skip = set()
            if op == "concat":
                if ctx.known("F-C15-b", True):                   # joins the scaled matrices under location 0 / scale 1
                    skip = set(range(n + k))
            elif inplace:
                if not is_bv:
                    ctx.label("inplace_non_matrix_operand_values_not_asserted")
                    skip = newrows                               # raw or already scaled: not defined
                elif ctx.known("F-C15-c", True):                 # the operand's scaled values are spliced in
                    skip = newrows
            keep = [i for i in range(n + k) if i not in skip]
            bad = check_unscaled(ctx, new, mrows, pre, 6, M, keep=keep)
            if not inplace:
                ctx.check(numpy.array_equal(snap[0], recv.mat, equal_nan=True)
                          and numpy.array_equal(snap[1], recv.location, equal_nan=True)
                          and numpy.array_equal(snap[2], recv.scale, equal_nan=True)
                          and same_labels(recv, names, case["grp"]), pre + "source_mutated",
                          lambda: "%s changed its receiver" % what)
            if is_bv:
                check_unscaled(ctx, val, add, "operands.operand_object.", 2, M)
            if not skip and not bad and op in ("insert", "adjoin"):
                check_summaries(ctx, new, mrows, "operands.summary.", 6, M=M, opname=" after " + what)


SUBCHECKS = [
    SubCheck("values", check_values, values_case(), quick=1500, thorough=4000, shards_quick=4,
             rule="generated raw (n 1-12, t 1-3) matrices by column profile (normal, ints, constant exact/inexact mean, offsets "
                  "to 1e12 with unit spread, 1e-9 spreads, two-level ties, ordinary values in units of 1e-30..1e10; NaN entries, "
                  "never a whole column) x three classes; "
                  "non-trivial = >= 3 taxa and >= 1 non-constant trait; distinct by sha1 of the case",
             required_labels=("constant_trait", "has_nan", "large_offset", "class_E", "class_G", "spread_below_1e-9",
                              "spread_above_1e6")),
    SubCheck("history", check_history, history_case(), quick=1500, thorough=3000, shards_quick=4,
             rule="start matrix + 1-7 taxa-axis operations (select/delete/insert/adjoin/concat/append/remove/incorp, in-place "
                  "reorder/group; indices "
                  "relative to the current shape, new rows as raw ndarray or as a matrix object, blocks of 0-3 taxa); every earlier "
                  "receiver / matrix argument is kept and re-verified after every later step; a quarter of the steps are calls "
                  "expected to be refused (14 kinds of wrong input, in-place and copying operations), after which the same object "
                  "must be bit-identical and the history continues on it; non-trivial = >= 3 taxa at "
                  "the end, >= 2 distinct operation kinds, >= 1 non-constant trait",
             required_labels=tuple("op_" + o for o in OPS) + ("op_reorder", "op_group", "zero_row_operand",
                                                              "inplace_step_with_earlier_objects_alive",
                                                              "refused_missing_grp", "refused_wrong_ntrait", "refused_out_of_range",
                                                              "refused_inplace_operation", "refused_copying_operation",
                                                              "object_used_again_after_a_refused_call", "grouped_with_metadata")),
    SubCheck("scaled", check_scaled, scaled_case(), quick=800, thorough=2500, shards_quick=2,
             rule="DenseScaledMatrix (matrix or cube) with explicit location/scale + 1-5 of rescale/unscale (in place or copy) / "
                  "transform+untransform; non-trivial = >= 3 rows and >= 2 distinct operations"),
    SubCheck("operands", check_operands, operands_case(), quick=110, thorough=300, shards_quick=4,
             rule="one receiver (class B/E/G/W/M, 1-6 taxa, grouped or not) and one block of 1-3 new taxa; inside the case the "
                  "block is offered as EVERY operand kind (matrix of each of the 5 classes, list, tuple, list of row arrays, "
                  "DataFrame, generic scaled matrix, ndarray C/F/strided/read-only) to EVERY operand-taking operation (insert, "
                  "adjoin, append, incorp, concat; *_taxa or the generic dispatcher with axis 0 / -2; labels explicit or taken "
                  "from the operand; concat with matrix operands only) on a fresh receiver: 61 operations per case; non-trivial = >= 2 receiver taxa "
                  "and >= 1 non-constant trait",
             required_labels=("receiver_B", "receiver_E", "receiver_G", "receiver_W", "receiver_M",
                              "refused_matrix_of_parent_or_sibling_class", "accepted_matrix_of_a_subclass",
                              "accepted_matrix_of_receiver_class", "refused_array_like", "accepted_ndarray")),
]
