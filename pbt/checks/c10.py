"""C10 — selection limits bracket every attainable value and only tighten along closed breeding histories.

A case is a founder population, an additive model and a *history* (JSON list of select / truncate / mate steps whose raw
integer arguments are interpreted relative to the current population).  Invariants are checked after every step against
integer allele counts.
"""
import copy
import math

import numpy
from hypothesis import strategies as st

from pbt import compat  # noqa: F401
from pbt.core import SubCheck
from pbt import gens
from pbt.checks.c01 import PROTOCOLS
from pbt.checks.c09 import ROUNDING_D

from pybrops.model.gmod.DenseAdditiveLinearGenomicModel import DenseAdditiveLinearGenomicModel
from pybrops.popgen.gmat.DensePhasedGenotypeMatrix import DensePhasedGenotypeMatrix
from pybrops.popgen.gmat.DenseGenotypeMatrix import DenseGenotypeMatrix

ASSUMPTIONS = [
    "closed population: every step is a sub-selection (with repeats) or a mating among current members; no immigration, no mutation",
    "binary allele coding per chromosome copy, diploid",
]

EFFECTS = [-2.0, -1.0, -0.5, 0.0, 0.0, 0.25, 1.0, 3.0, -1e-3, 1e-3]
ROUND_N = sorted(set(d // 2 for d in ROUNDING_D if d % 2 == 0 and d // 2 <= 110))   # 49, 98, 103, 107
SIZES = ROUND_N + [1, 2, 3, 5, 8, 13, 50, 97, 99]


@st.composite
def history_case(draw):
    n0 = draw(st.integers(2, 8))
    p = draw(st.integers(2, 9))
    t = draw(st.integers(1, 3))
    lay = draw(gens.variant_layout(p, max_chr=3))
    cols = []
    for j in range(p):
        kind = draw(st.sampled_from(["all0", "all1", "mixed", "mixed", "one1", "one0"]))
        cols.append({"kind": kind, "bits": draw(st.lists(st.integers(0, 1), min_size=2 * n0, max_size=2 * n0)),
                     "at": draw(st.integers(0, 2 * n0 - 1))})
    u = [[draw(st.sampled_from(EFFECTS)) for _ in range(t)] for _ in range(p)]
    # q fixed-effect rows: the location of the genomic values is beta[0] + (1/q) * sum(beta[1:]) (the documented Xstar)
    q = draw(st.sampled_from([1, 1, 2, 3]))
    beta = [[draw(st.sampled_from([0.0, 1.5, -7.0, 100.0, -42.0])) for _ in range(t)] for _ in range(q)]
    steps = []
    nsteps = draw(st.integers(1, 6))
    for _ in range(nsteps):
        kind = draw(st.sampled_from(["mate", "mate", "mate_to", "mate_to", "select", "truncate"]))
        if kind == "mate":
            prot = draw(st.sampled_from(sorted(PROTOCOLS)))
            ncross = draw(st.integers(1, 4))
            steps.append({"op": "mate", "prot": prot, "ncross": ncross,
                          "parents": [draw(st.integers(0, 10 ** 6)) for _ in range(4 * ncross)],
                          "nmating": draw(st.integers(1, 2)), "nprogeny": draw(st.integers(1, 3)),
                          "nself": draw(st.sampled_from([0, 0, 1, 2])), "seed": draw(st.integers(0, 2 ** 32 - 1))})
        elif kind == "mate_to":
            prot = draw(st.sampled_from(sorted(PROTOCOLS)))
            size = draw(st.sampled_from(SIZES))
            steps.append({"op": "mate", "prot": prot, "ncross": size,
                          "parents": [draw(st.integers(0, 10 ** 6)) for _ in range(8)],   # cycled
                          "nmating": 1, "nprogeny": 1, "nself": draw(st.sampled_from([0, 0, 1])),
                          "seed": draw(st.integers(0, 2 ** 32 - 1))})
        elif kind == "select":
            steps.append({"op": "select", "idx": draw(st.lists(st.integers(0, 10 ** 6), min_size=1, max_size=10)),
                          "to": draw(st.sampled_from([None, None] + SIZES[:8])),
                          "via": draw(st.sampled_from(["select", "delete", "remove"]))})
        else:
            steps.append({"op": "truncate", "k": draw(st.integers(1, 6)), "trait": draw(st.integers(0, 2)),
                          "via": draw(st.sampled_from(["select", "delete", "remove"]))})
    return {"n0": n0, "p": p, "t": t, "lay": lay, "cols": cols, "u": u, "beta": beta, "steps": steps,
            "unscale": draw(st.booleans())}


def founders(case):
    n, p = case["n0"], case["p"]
    a = numpy.zeros((2, n, p), dtype="int8")
    for j, col in enumerate(case["cols"]):
        k = col["kind"]
        if k == "all1":
            a[:, :, j] = 1
        elif k == "mixed":
            a[:, :, j] = numpy.array(col["bits"], dtype="int8").reshape(2, n)
        elif k == "one1":
            a[col["at"] % 2, (col["at"] // 2) % n, j] = 1
        elif k == "one0":
            a[:, :, j] = 1
            a[col["at"] % 2, (col["at"] // 2) % n, j] = 0
    return a


def ref_limits(u, counts, d, loc, ploidy=2):
    """upper / lower selection limit from integer allele counts: independent of allele frequencies as floats"""
    p, t = u.shape
    usl, lsl = [], []
    m = float(ploidy)
    for k in range(t):
        hi, lo = [], []
        for j in range(p):
            e = float(u[j, k])
            c = counts[j]
            if e > 0.0:
                hi.append(m * e if c > 0 else 0.0)
                lo.append(m * e if c == d else 0.0)
            else:
                hi.append(m * e if c == d else 0.0)
                lo.append(m * e if c > 0 else 0.0)
        usl.append(math.fsum(hi) + loc[k])
        lsl.append(math.fsum(lo) + loc[k])
    return usl, lsl


def check_history(case, ctx):
    p, t = case["p"], case["t"]
    u = numpy.array(case["u"], dtype="float64").reshape(p, t)
    braw = case["beta"]
    if braw and not isinstance(braw[0], list):
        braw = [braw]                       # older replay files: one intercept row
    beta = numpy.array(braw, dtype="float64")
    q = beta.shape[0]
    locvec = [float(beta[0, k]) + (1.0 / q) * math.fsum(float(beta[r, k]) for r in range(1, q)) for k in range(t)]
    model = DenseAdditiveLinearGenomicModel(beta=beta, u_misc=None, u_a=u,
                                            trait=numpy.array(["tr%d" % k for k in range(t)], dtype=object))
    unscale = case["unscale"]
    loc = [locvec[k] if unscale else 0.0 for k in range(t)]
    tol = 1e-9 * (1.0 + 2.0 * float(numpy.abs(u).sum()) + float(numpy.abs(beta).sum()))
    ctx.label("fixed_effect_rows>1", q > 1)
    pop = gens.build_pgmat(founders(case), case["lay"])
    if not pop.is_grouped_vrnt():
        pop.group_vrnt()

    prev = None
    lost1 = numpy.zeros(p, dtype=bool)   # allele 1 absent at some earlier generation
    lost0 = numpy.zeros(p, dtype=bool)
    n_mate = 0
    visited_round_fixed = False
    any_lost_during = False

    def observe(step_no, what):
        nonlocal prev, lost1, lost0, visited_round_fixed, any_lost_during
        g = pop.mat
        n = g.shape[1]
        d = 2 * n
        dos = g.sum(0, dtype="int64")
        counts = [int(x) for x in dos.sum(0)]
        rusl, rlsl = ref_limits(u, counts, d, loc)
        # individuals' values from the raw genotypes (oracle side)
        vals = dos.astype("float64") @ u + numpy.array(loc)[None, :]
        forms = {}
        forms["phased"] = (model.usl(pop, unscale=unscale), model.lsl(pop, unscale=unscale))
        ug = DenseGenotypeMatrix(mat=dos.astype("int8"), ploidy=2)
        forms["unphased"] = (model.usl(ug, unscale=unscale), model.lsl(ug, unscale=unscale))
        forms["ndarray"] = (model.usl(dos.astype("int8"), ploidy=2, unscale=unscale), model.lsl(dos.astype("int8"), ploidy=2, unscale=unscale))
        pfrac = numpy.array([c / d for c in counts], dtype="float64")     # correctly rounded: exactly 0/1 iff lost/fixed
        forms["numpy"] = (model.usl_numpy(pfrac, 2, unscale=unscale), model.lsl_numpy(pfrac, 2, unscale=unscale))
        inround = d in ROUNDING_D
        fixed1_nonzero = any(counts[j] == d and (u[j] != 0).any() for j in range(p))
        if inround and fixed1_nonzero:
            visited_round_fixed = True
            ctx.label("rounding_size_with_fixed_nonzero_locus")
        ctx.label("all_fixed_population", all(c in (0, d) for c in counts))
        for name, (usl, lsl) in forms.items():
            usl = numpy.asarray(usl, dtype="float64").ravel()
            lsl = numpy.asarray(lsl, dtype="float64").ravel()
            if not ctx.check(usl.shape == (t,) and lsl.shape == (t,), "limits.shape", "%s %s" % (usl.shape, lsl.shape)):
                continue
            for k in range(t):
                where = "step %d (%s) n=%d trait %d via %s" % (step_no, what, n, k, name)
                ctx.check(abs(usl[k] - rusl[k]) <= tol, "usl.definition",
                          lambda: "%s: usl=%r, from integer counts %r (counts=%s d=%d u=%s)" % (where, float(usl[k]), rusl[k], counts, d, u[:, k].tolist()))
                ctx.check(abs(lsl[k] - rlsl[k]) <= tol, "lsl.definition",
                          lambda: "%s: lsl=%r, from integer counts %r (counts=%s d=%d u=%s)" % (where, float(lsl[k]), rlsl[k], counts, d, u[:, k].tolist()))
                ctx.check(float(vals[:, k].max()) <= usl[k] + tol, "bracket.upper",
                          lambda: "%s: individual value %r exceeds usl %r" % (where, float(vals[:, k].max()), float(usl[k])))
                ctx.check(float(vals[:, k].min()) >= lsl[k] - tol, "bracket.lower",
                          lambda: "%s: individual value %r below lsl %r" % (where, float(vals[:, k].min()), float(lsl[k])))
                if all(c in (0, d) for c in counts):
                    ctx.check(abs(usl[k] - lsl[k]) <= tol and abs(usl[k] - float(vals[0, k])) <= tol, "fixed_population_limits_equal_value",
                              lambda: "%s: usl=%r lsl=%r common value %r" % (where, float(usl[k]), float(lsl[k]), float(vals[0, k])))
                if prev is not None:
                    pu, pl = prev[name]
                    ctx.check(usl[k] <= pu[k] + tol, "monotone.usl_increased",
                              lambda: "%s: usl %r > previous %r" % (where, float(usl[k]), float(pu[k])))
                    ctx.check(lsl[k] >= pl[k] - tol, "monotone.lsl_decreased",
                              lambda: "%s: lsl %r < previous %r" % (where, float(lsl[k]), float(pl[k])))
        # the library's own breeding values are bracketed too
        bv = model.gebv(pop).unscale() if unscale else None
        if bv is not None:
            usl = numpy.asarray(forms["phased"][0]).ravel()
            lsl = numpy.asarray(forms["phased"][1]).ravel()
            ctx.check(bool((bv <= usl[None, :] + tol).all() and (bv >= lsl[None, :] - tol).all()), "bracket.library_gebv",
                      lambda: "step %d: gebv range [%s,%s] vs limits [%s,%s]" % (step_no, bv.min(0), bv.max(0), lsl, usl))
        # lost alleles never reappear
        c = numpy.array(counts)
        ctx.check(not (lost1 & (c > 0)).any(), "lost_allele_reappeared", lambda: "step %d: allele 1 back at loci %s" % (step_no, numpy.flatnonzero(lost1 & (c > 0)).tolist()))
        ctx.check(not (lost0 & (c < d)).any(), "lost_allele_reappeared", lambda: "step %d: allele 0 back at loci %s" % (step_no, numpy.flatnonzero(lost0 & (c < d)).tolist()))
        if prev is not None and (((c == 0) & ~lost1).any() or ((c == d) & ~lost0).any()):
            any_lost_during = True
        lost1 |= (c == 0)
        lost0 |= (c == d)
        prev = {name: (numpy.asarray(a, dtype="float64").ravel().copy(), numpy.asarray(b, dtype="float64").ravel().copy()) for name, (a, b) in forms.items()}
        return vals

    # Unphased views of the same population that live across selection steps and are culled by the same selection through
    # select_taxa / delete_taxa of the complement / in-place remove_taxa: the dosage matrix of the diploids (ploidy 2) and
    # the 2n chromosome copies as haploid individuals (ploidy 1; same allele counts, limits with one copy per locus).
    views = {}

    def fresh_views():
        g = pop.mat
        views["diploid_dosages"] = (DenseGenotypeMatrix(mat=g.sum(0).astype("int8"), ploidy=2), 2)
        views["haploid_copies"] = (DenseGenotypeMatrix(mat=numpy.concatenate([g[0], g[1]], axis=0).astype("int8"), ploidy=1), 1)

    def cull_views(idx, n, via):
        uniq = len(set(idx)) == len(idx) and list(idx) == sorted(idx)     # culling keeps the survivors in their old order
        for name, (vm, m) in list(views.items()):
            rows = list(idx) if m == 2 else list(idx) + [n + i for i in idx]
            total = n if m == 2 else 2 * n
            comp = sorted(set(range(total)) - set(rows))
            if via == "select" or not uniq or not comp:
                vm = vm.select_taxa(numpy.array(rows, dtype="int64"))
                ctx.label("view_culled_by_select_taxa")
            elif via == "delete":
                vm = vm.delete_taxa(numpy.array(comp, dtype="int64"))
                ctx.label("view_culled_by_delete_taxa")
            else:
                vm = copy.deepcopy(vm)
                vm.remove_taxa(numpy.array(comp, dtype="int64"))
                ctx.label("view_culled_by_remove_taxa_in_place")
            views[name] = (vm, m)

    def observe_views(step_no, what):
        g = pop.mat
        n = g.shape[1]
        d = 2 * n
        counts = [int(x) for x in g.sum(0, dtype="int64").sum(0)]
        for name, (vm, m) in views.items():
            rusl, rlsl = ref_limits(u, counts, d, loc, ploidy=m)
            if not ctx.check(vm.ntaxa == (n if m == 2 else 2 * n), "view.members",
                             lambda: "step %d (%s) view %s: %s members, expected %s" % (step_no, what, name, vm.ntaxa, n if m == 2 else 2 * n)):
                continue
            vvals = numpy.asarray(vm.mat, dtype="float64") @ u + numpy.array(loc)[None, :]
            usl = numpy.asarray(model.usl(vm, unscale=unscale), dtype="float64").ravel()
            lsl = numpy.asarray(model.lsl(vm, unscale=unscale), dtype="float64").ravel()
            for k in range(t):
                where = "step %d (%s) n=%d trait %d via culled view %s" % (step_no, what, n, k, name)
                ctx.check(abs(usl[k] - rusl[k]) <= tol, "usl.definition", lambda: "%s: usl=%r, from integer counts %r" % (where, float(usl[k]), rusl[k]))
                ctx.check(abs(lsl[k] - rlsl[k]) <= tol, "lsl.definition", lambda: "%s: lsl=%r, from integer counts %r" % (where, float(lsl[k]), rlsl[k]))
                ctx.check(float(vvals[:, k].max()) <= usl[k] + tol, "bracket.upper", lambda: "%s: member value %r exceeds usl %r" % (where, float(vvals[:, k].max()), float(usl[k])))
                ctx.check(float(vvals[:, k].min()) >= lsl[k] - tol, "bracket.lower", lambda: "%s: member value %r below lsl %r" % (where, float(vvals[:, k].min()), float(lsl[k])))

    vals = observe(0, "founders")
    fresh_views()
    observe_views(0, "founders")
    for sno, step in enumerate(case["steps"], 1):
        n = pop.ntaxa
        if step["op"] == "select":
            idx = [i % n for i in step["idx"]]
            if step.get("to"):
                idx = [idx[q % len(idx)] for q in range(step["to"])]
            pop = pop.select_taxa(numpy.array(idx, dtype="int64"))
            cull_views(idx, n, step.get("via", "select"))
            what = "select %d" % len(idx)
        elif step["op"] == "truncate":
            k = min(step["k"], n)
            order = numpy.argsort(-vals[:, step["trait"] % case["t"]], kind="stable")[:k]
            pop = pop.select_taxa(numpy.array(sorted(order.tolist()), dtype="int64"))
            cull_views(sorted(order.tolist()), n, step.get("via", "select"))
            what = "truncate %d" % k
        else:
            cls, npar, isdh, _ = PROTOCOLS[step["prot"]]
            ncross = step["ncross"]
            par = step["parents"]
            xc = numpy.array([[par[(c * npar + q) % len(par)] % n for q in range(npar)] for c in range(ncross)], dtype="int64")
            mp = cls(rng=numpy.random.default_rng(step["seed"]))
            pop = mp.mate(pop, xc, step["nmating"], step["nprogeny"], nself=step["nself"])
            n_mate += 1
            what = "%s -> %d" % (step["prot"], pop.ntaxa)
            fresh_views()
        vals = observe(sno, what)
        observe_views(sno, what)
    ctx.label("matings>=2", n_mate >= 2)
    ctx.label("locus_lost_along_history", any_lost_during)
    ctx.nontrivial(n_mate >= 1 and any_lost_during)
    ctx.label("full_nontrivial", n_mate >= 2 and any_lost_during and visited_round_fixed)


SUBCHECKS = [
    SubCheck("histories", check_history, history_case(), quick=120, thorough=1200, shards_quick=8, shrink_s=15, max_rounds=3,
             rule="generated (founders 2..8 taxa x 2..9 binary loci with forced fixed / single-copy loci, additive model with any signs, "
                  "exact zeros and 1..3 traits, history of 1..6 select / truncate / mate steps over all seven protocols, population sizes "
                  "steered into and out of the set where 1/(2n) is not exactly invertible: 49, 98, 103, 107); limits read through four "
                  "input forms; non-trivial = at least one mating step and at least one allele lost along the way",
             required_labels=("rounding_size_with_fixed_nonzero_locus", "locus_lost_along_history", "matings>=2", "all_fixed_population")),
]
