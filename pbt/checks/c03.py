"""C03 — labels stay attached to their data under every matrix operation history (model-based, histories as JSON programs).

Every entity (taxon / variant / trait) has a hidden integer id.  All of its labels are functions of the id and every data
cell is a function of the ids of its coordinates, so after ANY operation the harness can read back which entity sits where
and whether it still carries its own labels and data.  Index semantics are taken from numpy applied to the id lists
(numpy's delete/take/insert are not under test); label/data binding, operand immutability, mutating == non-mutating,
generic == specific and the group-partition predicate are checked after every step.
"""
import copy
import os

import numpy
from hypothesis import strategies as st

from pbt import compat  # noqa: F401
from pbt.core import SubCheck
from pbt import gens

from pybrops.core.mat.DenseTaxaMatrix import DenseTaxaMatrix
from pybrops.core.mat.DenseVariantMatrix import DenseVariantMatrix
from pybrops.core.mat.DenseTraitMatrix import DenseTraitMatrix
from pybrops.core.mat.DenseTaxaVariantMatrix import DenseTaxaVariantMatrix
from pybrops.core.mat.DensePhasedTaxaVariantMatrix import DensePhasedTaxaVariantMatrix
from pybrops.core.mat.DenseTaxaTraitMatrix import DenseTaxaTraitMatrix
from pybrops.popgen.gmat.DenseGenotypeMatrix import DenseGenotypeMatrix
from pybrops.popgen.gmat.DensePhasedGenotypeMatrix import DensePhasedGenotypeMatrix
from pybrops.core.mat.DenseSquareTaxaMatrix import DenseSquareTaxaMatrix
from pybrops.popgen.cmat.DenseMolecularCoancestryMatrix import DenseMolecularCoancestryMatrix
from pybrops.core.mat.DenseSquareTaxaTraitMatrix import DenseSquareTaxaTraitMatrix
from pybrops.breed.prot.gt.DenseUnphasedGenotyping import DenseUnphasedGenotyping
from pybrops.breed.prot.gt.DenseMaskedUnphasedGenotyping import DenseMaskedUnphasedGenotyping
from pybrops.breed.prot.gt.DenseMaskedPhasedGenotyping import DenseMaskedPhasedGenotyping

ASSUMPTIONS = [
    "index semantics (which positions an int / slice / list / mask denotes) are numpy's and are taken from numpy applied to the id lists",
    "operands handed to adjoin/insert/append/incorp/concat share the receiver's entities on all other axes (pybrops does not check this; "
    "the property is about entities keeping their own labels and data)",
    "the order among entities with equal sort keys is not part of the property",
]

# ------------------------------------------------------------------------------------------------------------------
# label universe
# ------------------------------------------------------------------------------------------------------------------
LABELS = {
    "taxa": ["taxa", "taxa_grp"],
    "vrnt": ["vrnt_chrgrp", "vrnt_phypos", "vrnt_name", "vrnt_genpos", "vrnt_xoprob", "vrnt_hapgrp", "vrnt_hapalt",
             "vrnt_hapref", "vrnt_mask"],
    "trait": ["trait"],
}
GROUP = {
    "taxa": ("taxa_grp", ["taxa_grp_name", "taxa_grp_stix", "taxa_grp_spix", "taxa_grp_len"]),
    "vrnt": ("vrnt_chrgrp", ["vrnt_chrgrp_name", "vrnt_chrgrp_stix", "vrnt_chrgrp_spix", "vrnt_chrgrp_len"]),
}
NONE_FILLABLE = {"taxa", "vrnt_name"}     # absent on the operand -> filled with None (documented); others -> TypeError
OBJ = {"taxa", "vrnt_name", "vrnt_hapalt", "vrnt_hapref", "trait"}
DTYPE = {"taxa_grp": "int64", "vrnt_chrgrp": "int64", "vrnt_phypos": "int64", "vrnt_genpos": "float64",
         "vrnt_xoprob": "float64", "vrnt_hapgrp": "int64", "vrnt_mask": "bool"}
# default sort keys, primary first
SORTKEYS = {"taxa": ["taxa_grp", "taxa"], "vrnt": ["vrnt_chrgrp", "vrnt_phypos"], "trait": ["trait"]}


# How integer group ids are spelled in the current case (set by Harness from case["id_scheme"]; pure function of the case):
#   small    the ids as below
#   negative shifted so that -1 and 0 occur (codes such as "unplaced"), taxa groups also far below zero
#   huge     2**60 + id: distinct integers that are NOT distinct after conversion to float64 (spacing 256 there)
#   edge     spread towards both ends of int64
ID_SCHEME = {"taxa_grp": "small", "vrnt_chrgrp": "small"}


def _spell_id(label, v):
    sch = ID_SCHEME.get(label, "small")
    if sch == "negative":
        return v - 2 if v < 300 else -(2 ** 40) - v
    if sch == "huge":
        return 2 ** 60 + v
    if sch == "edge":
        return (-(2 ** 63) + v) if v % 2 == 0 else (2 ** 63 - 1 - v)
    return v


def label_value(label, eid, dup):
    """label of entity `eid`; dup=True draws names from a small alphabet so labels are duplicated across entities"""
    if label == "taxa":
        return "t%02d" % (eid % 3) if dup else "t%03d" % eid
    if label == "taxa_grp":
        # every fifth entity belongs to a group whose id does not fit a narrow integer dtype
        # (also every second entity created after the initial matrix, whose entities have ids below 6: wider ids arrive later)
        return _spell_id(label, 300 + (eid * 7) % 700 if (eid % 5 == 4 or (eid >= 6 and eid % 2 == 0)) else (eid * 5) % 3)
    if label == "vrnt_chrgrp":
        return _spell_id(label, (eid * 7) % 3 + 1)
    if label == "vrnt_phypos":
        return (eid * 11) % 7 + 1 if dup else (eid * 11) % 97 + 1
    if label == "vrnt_name":
        return "m%d" % (eid % 4) if dup else "m%03d" % eid
    if label == "vrnt_genpos":
        return ((eid * 3) % 16) / 8.0
    if label == "vrnt_xoprob":
        return ((eid * 7) % 6) / 10.0
    if label == "vrnt_hapgrp":
        return eid % 4
    if label == "vrnt_hapalt":
        return "A%d" % eid
    if label == "vrnt_hapref":
        return "R%d" % eid
    if label == "vrnt_mask":
        return bool((eid // 2) % 2)
    if label == "trait":
        return "y%d" % (eid % 2) if dup else "y%03d" % eid
    raise AssertionError(label)


def elem_value(label, el, dup):
    # el = (id, labels that are None, block, labels given explicitly by the caller: those take the value of entity id+500)
    if label in el[1]:
        return None
    return label_value(label, el[0] + (500 if (len(el) > 3 and label in el[3]) else 0), dup)


def label_array(label, elems, dup, narrow=False):
    vals = [elem_value(label, el, dup) for el in elems]
    if narrow and label == "taxa_grp" and all(v is not None and -128 <= v <= 127 for v in vals):
        return numpy.array(vals, dtype="int8")          # a legal, narrower integer dtype for the group labels
    if label in OBJ:
        a = numpy.empty(len(vals), dtype=object)
        for i, v in enumerate(vals):
            a[i] = v
        return a
    return numpy.array(vals, dtype=DTYPE[label])


# ------------------------------------------------------------------------------------------------------------------
# families
# ------------------------------------------------------------------------------------------------------------------
class Fam:
    def __init__(self, name, cls, kinds, dtype, extra=None, fixed=None, square=False):
        self.name, self.cls, self.kinds, self.dtype = name, cls, kinds, dtype
        self.square = square              # (taxa x taxa): every taxa operation acts on both axes
        self.extra = extra or {}
        self.fixed = fixed or {}          # unlabelled axis kind -> length
        self.labelled = [k for k in kinds if k in LABELS]


FAMILIES = {f.name: f for f in [
    Fam("DenseGenotypeMatrix", DenseGenotypeMatrix, ["taxa", "vrnt"], "int8", extra={"ploidy": 2}),
    Fam("DensePhasedGenotypeMatrix", DensePhasedGenotypeMatrix, ["phase", "taxa", "vrnt"], "int8", fixed={"phase": 2}),
    Fam("DenseTaxaVariantMatrix", DenseTaxaVariantMatrix, ["taxa", "vrnt"], "float64"),
    Fam("DensePhasedTaxaVariantMatrix", DensePhasedTaxaVariantMatrix, ["phase", "taxa", "vrnt"], "float64", fixed={"phase": 2}),
    Fam("DenseTaxaTraitMatrix", DenseTaxaTraitMatrix, ["taxa", "trait"], "float64"),
    Fam("DenseTaxaMatrix", DenseTaxaMatrix, ["taxa", "other"], "float64", fixed={"other": 2}),
    Fam("DenseVariantMatrix", DenseVariantMatrix, ["vrnt", "other"], "float64", fixed={"other": 2}),
    Fam("DenseTraitMatrix", DenseTraitMatrix, ["trait", "other"], "float64", fixed={"other": 2}),
    Fam("DenseSquareTaxaMatrix", DenseSquareTaxaMatrix, ["taxa"], "float64", square=True),
    Fam("DenseMolecularCoancestryMatrix", DenseMolecularCoancestryMatrix, ["taxa"], "float64", square=True),
    Fam("DenseSquareTaxaTraitMatrix", DenseSquareTaxaTraitMatrix, ["taxa", "trait"], "float64", square=True),
]}
BASE_FAMILIES = {"DenseTaxaMatrix", "DenseVariantMatrix", "DenseTraitMatrix"}

PRIME = {"taxa": 7, "vrnt": 3, "trait": 3, "phase": 5, "other": 5}


def build_mat(fam, elems):
    """data cells are a function of the hidden ids of their coordinates"""
    if fam.square:
        # cell(i,j) = 1000*id_i + id_j when both entities come from the same original matrix (block), else the fill value
        ids = numpy.array([el[0] for el in elems["taxa"]], dtype="float64")
        blk = numpy.array([el[2] for el in elems["taxa"]], dtype="int64")
        m = ids[:, None] * 1000.0 + ids[None, :]
        m[blk[:, None] != blk[None, :]] = numpy.nan
        if "trait" in fam.kinds:
            # (taxa, taxa, trait): each trait layer adds 1e6 * trait id (exact in binary64)
            tids = numpy.array([el[0] for el in elems["trait"]], dtype="float64")
            m = m[:, :, None] + 1.0e6 * tids[None, None, :]
        return m
    shape = []
    parts = []
    for ax, k in enumerate(fam.kinds):
        ids = numpy.array([el[0] for el in elems[k]], dtype="int64")
        shape.append(len(ids))
        sh = [1] * len(fam.kinds)
        sh[ax] = len(ids)
        if fam.dtype == "int8":
            parts.append((ids * PRIME[k]).reshape(sh))
        else:
            parts.append((ids.astype("float64") * (1000.0 ** ax)).reshape(sh))
    tot = parts[0]
    for q in parts[1:]:
        tot = tot + q
    if fam.dtype == "int8":
        return ((tot % 251) - 125).astype("int8")
    return tot.astype("float64")


def make_matrix(fam, elems, present, dup, narrow=False):
    kw = dict(fam.extra)
    for k in fam.labelled:
        for lb in LABELS[k]:
            if present[lb]:
                kw[lb] = label_array(lb, elems[k], dup, narrow)
    return fam.cls(mat=build_mat(fam, elems), **kw)


def full_state(fam, x):
    """everything observable about a matrix: data, labels, group metadata"""
    st_ = {"mat": numpy.array(x.mat, copy=True)}
    for k in fam.labelled:
        for lb in LABELS[k]:
            v = getattr(x, lb)
            st_[lb] = None if v is None else numpy.array(v, copy=True)
        if k in GROUP:
            for f in GROUP[k][1]:
                v = getattr(x, f)
                st_[f] = None if v is None else numpy.array(v, copy=True)
    return st_


def state_diff(a, b, ignore=()):
    out = []
    for key in a:
        if key in ignore:
            continue
        if not gens.same_array(a[key], b[key]):
            out.append(key)
    return out


# ------------------------------------------------------------------------------------------------------------------
# strategy: a program
# ------------------------------------------------------------------------------------------------------------------
THOROUGH = os.environ.get("PBT_TIER") == "thorough"      # longer histories and larger axes in the thorough tier
MAXSTEPS = 25 if THOROUGH else 8
SIZES = [1, 2, 3, 3, 4, 5, 6, 8, 10] if THOROUGH else [1, 2, 3, 3, 4, 5, 6]

OPS_NONMUT = ["select", "delete", "insert", "adjoin", "concat"]
OPS_MUT = ["append", "remove", "incorp", "reorder", "sort", "group", "ungroup"]
COUNTERPART = {"append": "adjoin", "remove": "delete", "incorp": "insert"}
RAW = st.integers(0, 10 ** 6)


@st.composite
def program(draw, families):
    famname = draw(st.sampled_from(families))
    fam = FAMILIES[famname]
    sizes = {k: draw(st.sampled_from(SIZES)) for k in fam.labelled}
    present = {}
    for k in fam.labelled:
        for lb in LABELS[k]:
            present[lb] = draw(st.sampled_from([True, True, True, False]))
    nsteps = draw(st.integers(1, MAXSTEPS))
    steps = []
    for _ in range(nsteps):
        op = draw(st.sampled_from(OPS_NONMUT + OPS_MUT + ["group", "sort", "reorder", "copy"]))
        stp = {"op": op, "kind": draw(st.sampled_from(fam.labelled)),
               "generic": draw(st.sampled_from(["pos", "neg"])),
               "idxform": draw(st.sampled_from(["int", "negint", "slice", "list", "array", "mask"])),
               "raw": [draw(RAW) for _ in range(6)],
               "k": draw(st.integers(1, 3)),
               "valform": draw(st.sampled_from(["matrix", "matrix", "ndarray", "matrix_no_names", "matrix_missing_required", "ndarray_no_names",
                                                "matrix_with_overrides"])),
               "keys": draw(st.sampled_from([None, None, "one", "two"])),
               "concat_pos": draw(st.integers(0, 2)),
               "deep": draw(st.booleans())}
        steps.append(stp)
    return {"family": famname, "sizes": sizes, "present": present, "dup": draw(st.booleans()), "steps": steps,
            "narrow": draw(st.sampled_from([False, False, True])),
            "id_scheme": {"taxa_grp": draw(st.sampled_from(["small", "small", "small", "small", "negative", "huge", "edge"])),
                          "vrnt_chrgrp": draw(st.sampled_from(["small", "small", "small", "negative", "huge", "edge"]))}}


# ------------------------------------------------------------------------------------------------------------------
# interpretation helpers
# ------------------------------------------------------------------------------------------------------------------
def index_arg(form, raw, n, unique, allow_mask):
    """index object built relative to the current axis length n; returns (obj, description)"""
    if form == "mask" and not allow_mask:
        form = "array"
    if form == "int":
        return int(raw[0] % n)
    if form == "negint":
        return int(raw[0] % n) - n
    if form == "slice":
        a = raw[0] % (n + 1)
        b = raw[1] % (n + 1)
        step = [None, 1, 2][raw[2] % 3]
        return slice(min(a, b), max(a, b), step)
    cnt = raw[3] % min(n, 4) + 1
    vals = [int(raw[(q + 1) % 6] * (q + 1) % n) for q in range(cnt)]
    if unique:
        seen, u = set(), []
        for v in vals:
            if v not in seen:
                seen.add(v)
                u.append(v)
        vals = u
    if form == "list":
        return vals
    if form == "array":
        return numpy.array(vals, dtype="int64")
    m = numpy.zeros(n, dtype=bool)
    m[vals] = True
    return m


def describe(obj):
    if isinstance(obj, numpy.ndarray):
        return "array(%s)" % obj.tolist()
    return repr(obj)


class Harness:
    def __init__(self, case, ctx):
        self.case, self.ctx = case, ctx
        sch = case.get("id_scheme") or {}
        for lb in ID_SCHEME:
            ID_SCHEME[lb] = sch.get(lb, "small")
        self.fam = FAMILIES[case["family"]]
        self.dup = case["dup"]
        self.present = dict(case["present"])
        self.next_id = {k: 0 for k in self.fam.kinds}
        self.block = 0
        self.elems = {}
        for k in self.fam.kinds:
            n = self.fam.fixed[k] if k in self.fam.fixed else case["sizes"][k]
            self.elems[k] = [self.fresh(k) for _ in range(n)]
        self.x = make_matrix(self.fam, self.elems, self.present, self.dup, narrow=bool(case.get("narrow")) and not self.fam.square)
        self.ctx.label("narrow_group_dtype", bool(case.get("narrow")) and self.x.taxa_grp is not None and self.x.taxa_grp.dtype == numpy.dtype("int8")) if "taxa" in self.fam.labelled and not self.fam.square else None
        for lb, kind in (("taxa_grp", "taxa"), ("vrnt_chrgrp", "vrnt")):
            if kind in self.fam.labelled and self.present.get(lb):
                self.ctx.label("id_scheme:%s=%s" % (lb, ID_SCHEME[lb]))
        self.trace = []
        self.ancestors = []

    def fresh(self, k, none=()):
        eid = self.next_id[k]
        self.next_id[k] += 1
        return (eid, frozenset(none), self.block, frozenset())

    def axis_of(self, k):
        if self.fam.square:
            return 0 if k == "taxa" else 2          # (taxa, taxa[, trait])
        return self.fam.kinds.index(k)

    def ndim(self):
        return len(self.fam.kinds) + (1 if self.fam.square else 0)

    def other_axis_labels_known_lost(self, k):
        """F-C03-g: non-mutating operations of the square taxa-trait family return a matrix without the OTHER axis' labels"""
        fam = self.fam
        if fam.name != "DenseSquareTaxaTraitMatrix":
            return False
        others = [lb for kk in fam.labelled if kk != k for lb in LABELS[kk] if self.present[lb]]
        self.ctx.label("square_trait_nonmutating_op_with_other_axis_labels", bool(others))
        return bool(others) and self.ctx.known("F-C03-g", True)

    def other_axis_fields(self, k):
        out = []
        for kk in self.fam.labelled:
            if kk != k:
                out += LABELS[kk]
                if kk in GROUP:
                    out += GROUP[kk][1]
        return out

    def adopt_result(self, res):
        """a non-mutating operation produced `res` from the live matrix: the old matrix stays alive as an operand that
        later operations on the result must not disturb (results may share label arrays with their operands)"""
        self.ancestors.append((self.x, full_state(self.fam, self.x), dict(self.elems)))
        self.ancestors = self.ancestors[-3:]
        self.x = res

    def mutate_live(self, do, y, where):
        """`do(target)` was applied to a deep copy `y`; apply it to the live object as well (so that aliasing with earlier
        operands becomes observable) and require the same resulting state"""
        _, err = do(self.x)
        self.ctx.check(err is None and not state_diff(full_state(self.fam, y), full_state(self.fam, self.x)), "mutation_not_deterministic",
                       lambda: "%s: second application on the live object: %r" % (where, err))

    def check_ancestors(self, where):
        for (obj, snap, _) in self.ancestors:
            bad = state_diff(snap, full_state(self.fam, obj))
            self.ctx.check(not bad, "earlier_operand_changed_by_later_operation",
                           lambda: "%s: a matrix that was the operand of an earlier non-mutating operation changed in fields %s" % (where, bad))

    # -------------------------------------------------------------------------------------------------------------
    def verify(self, x, elems, where, only_kind=None):
        ctx, fam = self.ctx, self.fam
        exp = build_mat(fam, elems)
        if not ctx.check(x.mat.shape == exp.shape, "data.shape", lambda: "%s: shape %s expected %s" % (where, x.mat.shape, exp.shape)):
            return
        ctx.check(x.mat.dtype == exp.dtype, "data.dtype", lambda: "%s: %s" % (where, x.mat.dtype))
        ctx.check(gens.same_array(x.mat, exp), "data.cells_not_of_their_entities",
                  lambda: "%s: data\n%s\nexpected (from the entities' ids)\n%s" % (where, x.mat, exp))
        for k in fam.labelled:
            if only_kind is not None and k != only_kind:
                continue
            for lb in LABELS[k]:
                got = getattr(x, lb)
                if not self.present[lb]:
                    ctx.check(got is None, "label.appeared_from_nowhere", lambda: "%s: %s=%s" % (where, lb, got))
                    continue
                want = label_array(lb, elems[k], self.dup)
                ctx.check(got is not None and gens.same_array(got, want), "label.%s_detached" % lb,
                          lambda: "%s: %s=%s expected %s for entities %s" % (where, lb, None if got is None else got.tolist(), want.tolist(), [e[0] for e in elems[k]]))
            if k in GROUP:
                grouped = getattr(x, "is_grouped_" + k)()
                if grouped:
                    lab, meta = GROUP[k]
                    errs = gens.partition_errors(getattr(x, lab), *[getattr(x, f) for f in meta])
                    ctx.label("grouped_state_checked")
                    if errs and ctx.known("F-C03-a", self.reordered_since_group.get(k, False)):
                        continue
                    ctx.check(not errs, "group.partition_untrue", lambda: "%s: axis %s reports grouped but %s; labels=%s" % (where, k, errs, getattr(x, lab).tolist()))

    reordered_since_group = {}

    # -------------------------------------------------------------------------------------------------------------
    def operand(self, k, stp):
        """values for adjoin/insert/append/incorp: `cnt` fresh entities on axis k, receiver's entities elsewhere.
        returns (values, kwargs, new_elems, expect_reject)"""
        fam = self.fam
        cnt = stp["k"]
        form = stp["valform"]
        none = set()
        missing_required = None
        labs = LABELS[k]
        if form in ("matrix_no_names", "ndarray_no_names"):
            for lb in labs:
                if lb in NONE_FILLABLE and self.present[lb]:
                    none.add(lb)
        if form == "matrix_missing_required":
            req = [lb for lb in labs if lb not in NONE_FILLABLE and self.present[lb]]
            if req:
                missing_required = req[stp["raw"][5] % len(req)]
        self.block += 1          # entities of an operand form their own block (square families)
        new = [self.fresh(k, none | ({missing_required} if missing_required else set())) for _ in range(cnt)]
        el = dict(self.elems)
        el[k] = new
        pres = dict(self.present)
        for lb in none:
            pres[lb] = False
        if missing_required:
            pres[missing_required] = False
        if form.startswith("matrix"):
            el_plain = dict(el)
            el_plain[k] = [(e[0], frozenset(), e[2], frozenset()) for e in new]
            vals = make_matrix(fam, el_plain, pres, self.dup)
            kw = {}
            if form == "matrix_with_overrides":
                # a matrix operand plus explicit label arrays for SOME labels: the explicit ones win, the others come from the matrix
                cand = [lb for lb in labs if pres[lb]]
                chosen = [lb for q, lb in enumerate(cand) if (stp["raw"][q % 6] + q) % 3 == 0] or cand[:1]
                new = [(e[0], e[1], e[2], frozenset(chosen)) for e in new]
                for lb in chosen:
                    kw[lb] = label_array(lb, new, self.dup)
                self.ctx.label("matrix_operand_with_partial_label_overrides", bool(chosen))
            return vals, kw, new, missing_required is not None
        kw = {}
        for lb in labs:
            if pres[lb]:
                kw[lb] = label_array(lb, [(e[0], frozenset(), e[2], frozenset()) for e in new], self.dup)
        return build_mat(fam, el), kw, new, False

    # -------------------------------------------------------------------------------------------------------------
    def call(self, fn, *a, **kw):
        """returns (result, exception)"""
        try:
            return fn(*a, **kw), None
        except (ValueError, TypeError, IndexError) as e:
            return None, e

    def run_step(self, sno, stp):
        ctx, fam = self.ctx, self.fam
        op, k = stp["op"], stp["kind"]
        if k == "trait" and op in ("group", "ungroup"):
            op = "sort"
        ax = self.axis_of(k)
        axarg = ax if stp["generic"] == "pos" else ax - self.ndim()
        if fam.square and k == "taxa":
            ax = 0
            nd = self.ndim()
            axarg = [0, 1, 0 - nd, 1 - nd][(stp["raw"][4] + (0 if stp["generic"] == "pos" else 2)) % 4]
            if op in ("insert", "incorp", "concat"):
                ctx.label("square_insert_like")
                if ctx.known("F-C03-c", True):
                    return
        n = len(self.elems[k])
        x = self.x
        before = full_state(fam, x)
        where = "step %d %s_%s" % (sno, op, k)
        ctx.label("op:" + op)
        ctx.label("axis:" + k)
        generic_ok = not (fam.name in BASE_FAMILIES and op in ("incorp", "reorder") and ctx.known("F-C03-b", True))

        if op == "copy":
            y = copy.deepcopy(x) if stp["deep"] else copy.copy(x)
            ctx.check(not state_diff(before, full_state(fam, y)), "copy.differs", where)
            if stp["deep"]:
                self.x = y
            return

        # ---- non-mutating ----------------------------------------------------------------------------------------
        if op in ("select", "delete"):
            if op == "delete" and n <= 1:
                return
            form = stp["idxform"]
            if op == "select" and form not in ("list", "array"):
                form = "list" if form in ("int", "slice") else "array"     # select takes array-likes of indices only
            obj = index_arg(form, stp["raw"], n, unique=(op == "delete"), allow_mask=(op == "delete"))
            ids = numpy.arange(n)
            kept = numpy.take(ids, obj, axis=0) if op == "select" else numpy.delete(ids, obj, axis=0)
            kept = numpy.atleast_1d(kept)
            if len(kept) == 0:
                return
            where += "(%s)" % describe(obj)
            res, err = self.call(getattr(x, "%s_%s" % (op, k)), obj)
            if not ctx.check(err is None, "op_raised_on_valid_arguments", lambda: "%s: %r" % (where, err)):
                return
            gres, gerr = self.call(getattr(x, op), obj, axis=axarg)
            ctx.check(gerr is None and not state_diff(full_state(fam, res), full_state(fam, gres)), "generic_differs_from_specific",
                      lambda: "%s axis=%d: %r" % (where, axarg, gerr))
            ctx.check(not state_diff(before, full_state(fam, x)), "operand_modified", lambda: "%s: receiver fields %s" % (where, state_diff(before, full_state(fam, x))))
            new_elems = dict(self.elems)
            new_elems[k] = [self.elems[k][int(i)] for i in kept]
            if self.other_axis_labels_known_lost(k):
                self.verify(res, new_elems, where, only_kind=k)     # data and this axis' labels; the result is not adopted
                return
            self.verify(res, new_elems, where)
            ctx.check(res.mat is not x.mat, "result_aliases_receiver_data", where)
            self.adopt_result(res)
            self.elems = new_elems
            self.reordered_since_group = dict(self.reordered_since_group)
            self.reordered_since_group[k] = False
            return

        if op in ("insert", "adjoin", "append", "incorp", "concat"):
            values, kw, new, expect_reject = self.operand(k, stp)
            vsnap = full_state(fam, values) if not isinstance(values, numpy.ndarray) else {"mat": values.copy()}
            if op in ("insert", "incorp") and k == "taxa" and self.present.get("taxa_grp") and getattr(x, "taxa_grp", None) is not None:
                gvals = [elem_value("taxa_grp", e, self.dup) for e in new]
                info = numpy.iinfo(x.taxa_grp.dtype)
                too_wide = any(v is not None and not (info.min <= v <= info.max) for v in gvals)
                ctx.label("insert_group_id_wider_than_receiver_dtype", too_wide)
                if too_wide and ctx.known("F-C03-f", True):
                    return
            if op in ("adjoin", "append", "concat") and k == "taxa" and self.present.get("taxa_grp") and getattr(x, "taxa_grp", None) is not None:
                gvals = [elem_value("taxa_grp", e, self.dup) for e in new]
                info = numpy.iinfo(x.taxa_grp.dtype)
                ctx.label("joined_group_id_wider_than_receiver_dtype", any(v is not None and not (info.min <= v <= info.max) for v in gvals))
            if op in ("insert", "incorp"):
                if stp["idxform"] in ("list", "array") and len(new) > 1:
                    pos = sorted(int(stp["raw"][q] % (n + 1)) for q in range(len(new)))
                    obj = pos if stp["idxform"] == "list" else numpy.array(pos, dtype="int64")
                else:
                    obj = int(stp["raw"][0] % (n + 1))
                    if ax != 0 and len(self.fam.kinds) > 1:
                        ctx.label("scalar_insert_position_on_axis>0")
                        if ctx.known("F-C03-d", True):
                            obj = [obj]          # the one-element list form is unaffected by the finding
                idm = numpy.insert(numpy.arange(n), obj, -1 - numpy.arange(len(new)), axis=0)
                where += "(at %s, %d new)" % (describe(obj), len(new))
            elif op == "concat":
                idm = None
            else:
                obj = None
                idm = numpy.concatenate([numpy.arange(n), -1 - numpy.arange(len(new))])
            mutating = op in ("append", "incorp")
            ctx.label("values:" + stp["valform"])

            def specific(target, name):
                f = getattr(target, "%s_%s" % (name, k))
                return self.call(f, obj, values, **kw) if name in ("insert", "incorp") else self.call(f, values, **kw)

            def generic(target, name):
                f = getattr(target, name)
                return self.call(f, obj, values, axis=axarg, **kw) if name in ("insert", "incorp") else self.call(f, values, axis=axarg, **kw)

            if op == "concat":
                if isinstance(values, numpy.ndarray) or expect_reject:
                    return
                new = [(e[0], e[1], e[2], frozenset()) for e in new]      # concat takes matrices only: no explicit label arrays
                # concat takes a list of same-class matrices; labels absent on one operand are None-filled (names) or rejected (others)
                order = [x, values] if stp["concat_pos"] != 1 else [values, x]
                idm = numpy.concatenate([numpy.arange(n), -1 - numpy.arange(len(new))]) if order[0] is x else numpy.concatenate([-1 - numpy.arange(len(new)), numpy.arange(n)])
                res, err = self.call(getattr(fam.cls, "concat_" + k), order)
                if stp["valform"] == "matrix_no_names" and err is not None:
                    return      # mixed presence of required arrays in a concat list may be rejected cleanly
                if not ctx.check(err is None, "op_raised_on_valid_arguments", lambda: "%s: %r" % (where, err)):
                    return
                gres, gerr = self.call(fam.cls.concat, order, axis=axarg)
                ctx.check(gerr is None and not state_diff(full_state(fam, res), full_state(fam, gres)), "generic_differs_from_specific", lambda: "%s axis=%d: %r" % (where, axarg, gerr))
            elif not mutating:
                res, err = specific(x, op)
                if expect_reject and err is not None:
                    # an operand lacking a label array the receiver has may be rejected cleanly
                    ctx.check(not state_diff(before, full_state(fam, x)), "operand_modified", where)
                    return
                if not ctx.check(err is None, "op_raised_on_valid_arguments", lambda: "%s: %r" % (where, err)):
                    return
                gres, gerr = generic(x, op)
                ctx.check(gerr is None and not state_diff(full_state(fam, res), full_state(fam, gres)), "generic_differs_from_specific", lambda: "%s axis=%d: %r" % (where, axarg, gerr))
            else:
                y = copy.deepcopy(x)
                _, err = specific(y, op)
                if expect_reject and err is not None:
                    ctx.check(not state_diff(before, full_state(fam, y)), "rejected_operation_modified_receiver", where)
                    return
                if not ctx.check(err is None, "op_raised_on_valid_arguments", lambda: "%s: %r" % (where, err)):
                    return
                res = y
                if generic_ok:
                    z = copy.deepcopy(x)
                    try:
                        _, gerr = generic(z, op)
                    except RecursionError as e:
                        gerr = e
                    ctx.check(gerr is None and not state_diff(full_state(fam, res), full_state(fam, z)), "generic_differs_from_specific",
                              lambda: "%s axis=%d: %r %s" % (where, axarg, gerr, state_diff(full_state(fam, res), full_state(fam, z))))
                # mutating == non-mutating counterpart
                w, werr = specific(x, COUNTERPART[op])
                if werr is None:
                    ign = self.other_axis_fields(k) if self.other_axis_labels_known_lost(k) else ()
                    ctx.check(not state_diff(full_state(fam, res), full_state(fam, w), ignore=ign), "mutating_differs_from_nonmutating",
                              lambda: "%s vs %s: fields %s" % (where, COUNTERPART[op], state_diff(full_state(fam, res), full_state(fam, w))))
            # operands untouched
            ctx.check(not state_diff(before, full_state(fam, x)), "operand_modified", lambda: "%s: receiver fields %s" % (where, state_diff(before, full_state(fam, x))))
            if isinstance(values, numpy.ndarray):
                ctx.check(gens.same_array(values, vsnap["mat"]), "operand_modified", where + ": values array")
            else:
                ctx.check(not state_diff(vsnap, full_state(fam, values)), "operand_modified", lambda: "%s: values fields %s" % (where, state_diff(vsnap, full_state(fam, values))))
            new_elems = dict(self.elems)
            new_elems[k] = [self.elems[k][i] if i >= 0 else new[-1 - i] for i in [int(q) for q in idm]]
            if not mutating and self.other_axis_labels_known_lost(k):
                self.verify(res, new_elems, where, only_kind=k)
                return
            self.verify(res, new_elems, where)
            if mutating:
                self.mutate_live(lambda t: specific(t, op), res, where)
            else:
                self.adopt_result(res)
            self.elems = new_elems
            self.reordered_since_group = dict(self.reordered_since_group)
            self.reordered_since_group[k] = False
            return

        # ---- mutating, same entities ----------------------------------------------------------------------------------
        if op == "remove":
            if n <= 1:
                return
            obj = index_arg(stp["idxform"], stp["raw"], n, unique=True, allow_mask=True)
            kept = numpy.atleast_1d(numpy.delete(numpy.arange(n), obj, axis=0))
            if len(kept) == 0:
                return
            where += "(%s)" % describe(obj)
            y = copy.deepcopy(x)
            _, err = self.call(getattr(y, "remove_" + k), obj)
            if not ctx.check(err is None, "op_raised_on_valid_arguments", lambda: "%s: %r" % (where, err)):
                return
            z = copy.deepcopy(x)
            _, gerr = self.call(z.remove, obj, axis=axarg)
            ctx.check(gerr is None and not state_diff(full_state(fam, y), full_state(fam, z)), "generic_differs_from_specific", lambda: "%s axis=%d: %r" % (where, axarg, gerr))
            w, werr = self.call(getattr(x, "delete_" + k), obj)
            if werr is None:
                ign = self.other_axis_fields(k) if self.other_axis_labels_known_lost(k) else ()
                ctx.check(not state_diff(full_state(fam, y), full_state(fam, w), ignore=ign), "mutating_differs_from_nonmutating",
                          lambda: "%s vs delete: fields %s" % (where, state_diff(full_state(fam, y), full_state(fam, w))))
            new_elems = dict(self.elems)
            new_elems[k] = [self.elems[k][int(i)] for i in kept]
            self.verify(y, new_elems, where)
            self.mutate_live(lambda t: self.call(getattr(t, "remove_" + k), obj), y, where)
            self.elems = new_elems
            self.reordered_since_group = dict(self.reordered_since_group)
            self.reordered_since_group[k] = False
            return

        if op == "reorder":
            perm = numpy.argsort(numpy.array([(stp["raw"][q % 6] * (q + 3)) % 1000 for q in range(n)]), kind="stable")
            obj = perm.tolist() if stp["idxform"] in ("list", "int") else perm
            where += "(%s)" % perm.tolist()
            y = copy.deepcopy(x)
            _, err = self.call(getattr(y, "reorder_" + k), obj)
            if not ctx.check(err is None, "op_raised_on_valid_arguments", lambda: "%s: %r" % (where, err)):
                return
            if generic_ok:
                z = copy.deepcopy(x)
                try:
                    _, gerr = self.call(z.reorder, obj, axis=axarg)
                except RecursionError as e:
                    gerr = e
                ctx.check(gerr is None and not state_diff(full_state(fam, y), full_state(fam, z)), "generic_differs_from_specific", lambda: "%s axis=%d: %r" % (where, axarg, gerr))
            new_elems = dict(self.elems)
            new_elems[k] = [self.elems[k][int(i)] for i in perm]
            if k in GROUP and getattr(x, "is_grouped_" + k)() and perm.tolist() != list(range(n)):
                self.reordered_since_group = dict(self.reordered_since_group)
                self.reordered_since_group[k] = True
                ctx.label("reorder_after_group")
            self.verify(y, new_elems, where)
            self.mutate_live(lambda t: self.call(getattr(t, "reorder_" + k), obj), y, where)
            self.elems = new_elems
            return

        if op in ("sort", "group", "ungroup"):
            if op == "ungroup":
                y = copy.deepcopy(x)
                _, err = self.call(getattr(y, "ungroup_" + k))
                if not ctx.check(err is None, "op_raised_on_valid_arguments", lambda: "%s: %r" % (where, err)):
                    return
                ctx.check(not getattr(y, "is_grouped_" + k)(), "ungroup.still_grouped", where)
                z = copy.deepcopy(x)
                _, gerr = self.call(z.ungroup, axis=axarg)
                ctx.check(gerr is None and not state_diff(full_state(fam, y), full_state(fam, z)), "generic_differs_from_specific", lambda: "%s: %r" % (where, gerr))
                self.verify(y, self.elems, where)
                self.mutate_live(lambda t: self.call(getattr(t, "ungroup_" + k)), y, where)
                self.reordered_since_group = dict(self.reordered_since_group)
                self.reordered_since_group[k] = False
                return
            # keys
            keyspec = stp["keys"] if op == "sort" else None
            elems = self.elems[k]
            if keyspec is None:
                keylabs = [lb for lb in SORTKEYS[k] if self.present[lb]]
                keycols = [[elem_value(lb, el, self.dup) for el in elems] for lb in keylabs]  # primary first
                keys_arg = None
            else:
                ids = [el[0] for el in elems]
                cols = [[(i * 3) % 2 for i in ids]] + ([[(i * 5) % 3 for i in ids]] if keyspec == "two" else [])
                keycols = cols                                   # primary first
                keys_arg = tuple(numpy.array(c, dtype="int64") for c in reversed(cols))   # numpy.lexsort: last key is primary
            sortable = len(keycols) > 0 and not any(v is None for col in keycols for v in col)
            y = copy.deepcopy(x)
            fn = getattr(y, "%s_%s" % (op, k))
            _, err = self.call(fn, keys_arg) if op == "sort" else self.call(fn)
            if not sortable:
                # nothing to sort on (or None names): a clean rejection that leaves the matrix alone is the contract
                if err is not None:
                    ctx.check(not state_diff(before, full_state(fam, y), ignore=GROUP.get(k, ("", []))[1]), "rejected_operation_modified_receiver", where)
                    return
            if not ctx.check(err is None, "op_raised_on_valid_arguments", lambda: "%s: %r" % (where, err)):
                return
            z = copy.deepcopy(x)
            _, gerr = (self.call(z.sort, keys_arg, axis=axarg) if op == "sort" else self.call(z.group, axis=axarg))
            ctx.check(gerr is None and not state_diff(full_state(fam, y), full_state(fam, z)), "generic_differs_from_specific", lambda: "%s axis=%d: %r" % (where, axarg, gerr))
            # read the realised permutation back from the data (ids are injective in the first cell along the axis)
            exp0 = build_mat(fam, self.elems)
            if fam.square and k == "taxa":
                e2 = exp0 if exp0.ndim == 2 else exp0[:, :, 0]
                y2 = y.mat if y.mat.ndim == 2 else (y.mat[:, :, 0] if y.mat.ndim == 3 and y.mat.shape[2] > 0 else None)
                src = numpy.diagonal(e2).reshape(n, 1)
                dst = numpy.diagonal(y2).reshape(-1, 1) if y2 is not None and y2.shape[0] == y2.shape[1] else None
            else:
                src = numpy.moveaxis(exp0, ax, 0).reshape(n, -1)
                dst = numpy.moveaxis(y.mat, ax, 0).reshape(y.mat.shape[ax], -1) if y.mat.ndim == exp0.ndim else None
            if dst is None or dst.shape != src.shape:
                ctx.fail("data.shape", where)
                return
            perm, used = [], set()
            for i in range(n):
                hit = [j for j in range(n) if j not in used and numpy.array_equal(src[j], dst[i], equal_nan=(src.dtype.kind == "f"))]
                # among identical rows (same entity selected twice) prefer the one whose labels also match
                if not hit:
                    ctx.fail("sort.not_a_permutation_of_the_entities", lambda: "%s: row %d of the result is no row of the input" % (where, i))
                    return
                perm.append(hit[0])
                used.add(hit[0])
            new_elems = dict(self.elems)
            new_elems[k] = [elems[j] for j in perm]
            if sortable:
                rows = [tuple(col[j] for col in keycols) for j in perm]
                ctx.check(all(rows[i] <= rows[i + 1] for i in range(len(rows) - 1)), "sort.keys_not_nondecreasing",
                          lambda: "%s: keys (primary first) after sort %s" % (where, rows))
            self.reordered_since_group = dict(self.reordered_since_group)
            self.reordered_since_group[k] = False
            if op == "group":
                lab = GROUP[k][0]
                ctx.check(getattr(y, "is_grouped_" + k)() == bool(self.present[lab]), "group.flag",
                          lambda: "%s: is_grouped=%s but %s present=%s" % (where, getattr(y, "is_grouped_" + k)(), lab, self.present[lab]))
                ctx.label("grouped_with_labels", self.present[lab])
            self.verify(y, new_elems, where)
            self.mutate_live((lambda t: self.call(getattr(t, "%s_%s" % (op, k)), keys_arg)) if op == "sort" else (lambda t: self.call(getattr(t, "%s_%s" % (op, k)))), y, where)
            self.elems = new_elems
            return
        raise AssertionError(op)


def check_program(case, ctx):
    h = Harness(case, ctx)
    fam = h.fam
    ctx.label("family:" + fam.name)
    ctx.label("dup_labels", case["dup"])
    ctx.label("absent_optional_array", not all(case["present"].values()))
    ctx.label("single_entity_axis", any(v == 1 for v in case["sizes"].values()))
    h.verify(h.x, h.elems, "construction")
    ops = []
    for sno, stp in enumerate(case["steps"], 1):
        h.run_step(sno, stp)
        ops.append(stp["op"])
        # invariant after every step on the live matrix
        h.verify(h.x, h.elems, "after step %d (%s)" % (sno, stp["op"]))
        h.check_ancestors("after step %d (%s)" % (sno, stp["op"]))
    hist = [s["op"] for s in case["steps"]]
    ctx.label("sort_after_append", any(a in ("append", "incorp", "adjoin", "insert", "concat") and b in ("sort", "group") for a, b in zip(hist, hist[1:])))
    ctx.label("op_after_group", any(a == "group" for a in hist[:-1]))
    ctx.nontrivial(len(hist) >= 3 and any(o in OPS_MUT for o in hist) and any(o in ("sort", "group", "reorder") for o in hist)
                   and max(case["sizes"].values()) >= 3)


# ------------------------------------------------------------------------------------------------------------------
# genotyping protocols as single-step operations (phased -> phased/unphased, with and without mask)
# ------------------------------------------------------------------------------------------------------------------
@st.composite
def genotyping_case(draw):
    present = {}
    for k in ("taxa", "vrnt"):
        for lb in LABELS[k]:
            present[lb] = draw(st.sampled_from([True, True, True, False]))
    return {"family": "DensePhasedGenotypeMatrix",
            "sizes": {"taxa": draw(st.integers(1, 5)), "vrnt": draw(st.integers(1, 7))},
            "present": present, "dup": draw(st.booleans()), "steps": [],
            "pre": draw(st.lists(st.sampled_from(["group_taxa", "sort_vrnt", "reorder_vrnt", "select_vrnt"]), max_size=2))
                   + draw(st.sampled_from([["group_vrnt"], ["group_vrnt"], ["group_vrnt", "group_taxa"], []])),
            "raw": [draw(RAW) for _ in range(6)],
            "protocol": draw(st.sampled_from(["unphased", "masked_unphased", "masked_phased"])),
            "invert": draw(st.booleans())}


def check_genotyping(case, ctx):
    h = Harness(case, ctx)
    fam = h.fam
    base = {"op": None, "kind": None, "generic": "pos", "idxform": "list", "raw": case["raw"], "k": 1, "valform": "matrix",
            "keys": None, "concat_pos": 0, "deep": True}
    for sno, pre in enumerate(case["pre"], 1):
        op, k = pre.split("_")
        stp = dict(base, op=op, kind=k)
        h.run_step(sno, stp)
    x = h.x
    before = full_state(fam, x)
    ctx.label("protocol:" + case["protocol"])
    grouped_v = x.is_grouped_vrnt()
    grouped_t = x.is_grouped_taxa()
    ctx.label("input_grouped_vrnt", grouped_v)
    ctx.label("input_grouped_taxa", grouped_t)
    has_mask = bool(h.present["vrnt_mask"])
    ctx.label("has_mask", has_mask)
    if case["protocol"] == "unphased":
        out = DenseUnphasedGenotyping().genotype(x)
        keep = list(range(len(h.elems["vrnt"])))
    else:
        cls = DenseMaskedUnphasedGenotyping if case["protocol"] == "masked_unphased" else DenseMaskedPhasedGenotyping
        ctx.label("invert", case["invert"])
        if has_mask:
            m = [bool(label_value("vrnt_mask", el[0], h.dup)) != bool(case["invert"]) for el in h.elems["vrnt"]]
        else:
            m = [True] * len(h.elems["vrnt"])
        keep = [j for j, b in enumerate(m) if b]
        if not keep:
            # every variant masked out: an empty variant axis; only require a clean outcome
            try:
                cls(invert=case["invert"]).genotype(x)
            except (ValueError, TypeError, IndexError):
                pass
            ctx.label("all_variants_masked")
            return
        out = cls(invert=case["invert"]).genotype(x)
    ctx.check(not state_diff(before, full_state(fam, x)), "operand_modified", "genotyping protocol changed its input")
    new_elems = dict(h.elems)
    new_elems["vrnt"] = [h.elems["vrnt"][j] for j in keep]
    ctx.nontrivial(len(keep) < len(h.elems["vrnt"]) and grouped_v)
    ctx.label("variants_dropped_from_grouped_matrix", len(keep) < len(h.elems["vrnt"]) and grouped_v)
    if case["protocol"] == "masked_phased":
        ctx.check(type(out) is DensePhasedGenotypeMatrix, "genotyping.output_class", str(type(out)))
        h.verify(out, new_elems, "masked phased genotyping")
    else:
        ctx.check(type(out) is DenseGenotypeMatrix, "genotyping.output_class", str(type(out)))
        # unphased projection: dosage = sum over phases, labels as for the phased matrix
        exp = build_mat(fam, new_elems).sum(0, dtype="int8")
        ctx.check(out.mat.shape == exp.shape and gens.same_array(out.mat, exp), "data.cells_not_of_their_entities",
                  lambda: "unphased projection: data %s expected %s" % (out.mat.tolist(), exp.tolist()))
        ufam = FAMILIES["DenseGenotypeMatrix"]
        for k in ufam.labelled:
            for lb in LABELS[k]:
                got = getattr(out, lb)
                if not h.present[lb]:
                    ctx.check(got is None, "label.appeared_from_nowhere", lb)
                else:
                    want = label_array(lb, new_elems[k], h.dup)
                    ctx.check(got is not None and gens.same_array(got, want), "label.%s_detached" % lb,
                              lambda: "%s=%s expected %s" % (lb, None if got is None else got.tolist(), want.tolist()))
            if getattr(out, "is_grouped_" + k)():
                lab, meta = GROUP[k]
                errs = gens.partition_errors(getattr(out, lab), *[getattr(out, f) for f in meta])
                ctx.label("grouped_state_checked")
                ctx.check(not errs, "group.partition_untrue", lambda: "unphased output axis %s: %s; labels=%s" % (k, errs, getattr(out, lab).tolist()))
    # grouping is carried over for taxa; for variants a grouped input stays grouped
    ctx.check(out.is_grouped_taxa() == grouped_t, "genotyping.taxa_grouping_flag")


_CONCRETE = ["DenseGenotypeMatrix", "DensePhasedGenotypeMatrix", "DenseTaxaVariantMatrix", "DensePhasedTaxaVariantMatrix", "DenseTaxaTraitMatrix"]
_BASE = ["DenseTaxaMatrix", "DenseVariantMatrix", "DenseTraitMatrix"]
_SQUARE = ["DenseSquareTaxaMatrix", "DenseMolecularCoancestryMatrix", "DenseSquareTaxaTraitMatrix"]

SUBCHECKS = [
    SubCheck("histories", check_program, program(_CONCRETE), quick=500, thorough=2500, shards_quick=8, shrink_s=30,
             rule="generated program: family in %s, 1..6 entities per labelled axis, each optional label array independently present/absent, "
                  "unique or duplicated labels, 1..8 steps of select/delete/insert/adjoin/concat/append/remove/incorp/reorder/sort/group/ungroup/"
                  "copy on any labelled axis with int/negative/slice/list/array/mask indices and matrix/ndarray operands; after every step: data and "
                  "every label array match the entities' hidden ids, operands unchanged, generic(axis=+/-) == specific, mutating == non-mutating, "
                  "grouped => true partition; non-trivial = >=3 steps incl. a mutating op and a sort/group/reorder, some axis with >=3 entities" % _CONCRETE,
             required_labels=("grouped_state_checked", "reorder_after_group", "sort_after_append", "absent_optional_array", "single_entity_axis", "dup_labels",
                              "joined_group_id_wider_than_receiver_dtype", "id_scheme:taxa_grp=huge", "id_scheme:vrnt_chrgrp=negative")),
    SubCheck("base_classes", check_program, program(_BASE), quick=150, thorough=1500, shards_quick=4, shrink_s=30,
             rule="same program generator on the base classes %s (2-D, one labelled axis)" % _BASE),
    SubCheck("square", check_program, program(_SQUARE), quick=200, thorough=2000, shards_quick=4, shrink_s=30,
             rule="same program generator on the square-taxa classes %s: every taxa operation acts on both axes; a cell is 1000*id_i+id_j "
                  "when both entities come from the same original matrix and the class fill value (NaN) otherwise" % _SQUARE,
             required_labels=("grouped_state_checked", "op:adjoin", "op:append")),
    SubCheck("genotyping", check_genotyping, genotyping_case(), quick=200, thorough=2000, shards_quick=4, shrink_s=20,
             rule="generated phased genotype matrix (optional arrays independently absent, duplicated labels), 0..3 preparatory group/sort/"
                  "reorder/select steps, then one of the three genotyping protocols (mask, inverted mask, no mask): output data and labels are "
                  "those of the retained entities, input unchanged, a reported grouping is a true partition; non-trivial = variants dropped "
                  "from a matrix that was grouped along the variant axis",
             required_labels=("variants_dropped_from_grouped_matrix", "grouped_state_checked")),
]
