"""C16 — saving, loading and copying reproduce objects exactly.

Sub-checks
  hdf5    write histories (1-4 objects of one class written to one or two group paths of one file with
          overwrite=True, through a file name / pathlib.Path / open h5py.File) then from_hdf5 -> observably equal to the
          LAST object written to that path.  The objects of one history differ in optional fields, sizes (half of the
          later writes keep the sizes of the object stored at that location before) and in the dtype WIDTH of every
          numeric field the class accepts in several widths, with values that need the drawn width; numeric arrays must
          come back in the item size they were written with (``width`` clauses; nrep excepted, its reader normalises).
  frames  pandas / CSV / *_dict / egmap forms with matching options (same column names, separators, units on both sides;
          label columns for absent labels are switched off on both sides); CSV files are also overwritten 1-3 times.
  vcf     VCF text generated from a grammar (phased diploid GT) -> from_vcf of both genotype classes.
  copy    copy.copy / copy.deepcopy / .copy() / .deepcopy(): equal to the source; deep copies share no memory with it and
          mutating every mutable field of the deep copy leaves the source unchanged.  Then a generated history on the SAME
          source: further copies through any entry point (method forms with the default / None / a fresh memo), earlier
          deep copies edited in place in between, the source edited (in place or through its setter) in between; every
          copy must equal the source as it is at the moment of the copy.

Oracle: ``observably_equal(a, b)`` = diff of two *snapshots*; a snapshot walks every public property / public instance
attribute of the object (recursively into dicts, interpolation splines and nested pybrops objects) and copies the
values.  Two snapshots are equal when None-ness, container shapes, numpy dtype *kinds*, element types of object arrays
and all values agree (floats: exact, NaN == NaN; a stated relative tolerance only where text formatting or unit conversion is
in the path).  The expected object is always built by the harness from the case, never by calling the implementation twice.
"""
import contextlib
import copy
import importlib
import inspect
import io
import os
import pathlib
import shutil
import tempfile

import numpy
import pandas
import h5py
from hypothesis import strategies as st

from pbt import compat  # noqa: F401
from pbt.core import SubCheck

from scipy.interpolate import interp1d

ASSUMPTIONS = [
    "matching options: the same column names / separator / genetic-position units are passed to writer and reader; a label "
    "column is switched off on both sides (col=None) when the object does not have that label, because the formats have no "
    "representation for an absent label",
    "frame and CSV formats: taxa and trait labels are unique, non-empty, start with a letter that no NA/number/bool token "
    "starts with, and contain no control characters (wide/long data frames key on the labels; CSV type inference)",
    "HDF5 labels: any text without surrogates and control characters (h5py variable-length strings cannot hold NUL)",
    "long data-frame formats sort taxa and traits by name: compared after sorting the original the same way; group "
    "metadata (taxa_grp_name/stix/spix/len) is not part of any frame format and is not compared there",
    "breeding-value frames: from_pandas re-standardises, so values are compared on unscale() with |err| <= 64*eps*max|x|",
    "CSV floats: exact for short dyadic values (k/8, k/64); relative tolerance 1e-12 for arbitrary doubles because from_csv "
    "uses pandas' default float parser, which keeps 17 decimal digits including leading zeros; cM unit round trip "
    "0.01*(100*x): relative tolerance 4*eps; HDF5, pandas(M units), copies: exact",
    "VCF: contig names are decimal integers (from_vcf does int(CHROM)), >= 1 record, unique sample names, all calls "
    "phased diploid and non-missing; identifier '.' (missing) is not compared",
    "dtype widths: a field is built in a non-default width (float32; int8/int16/int32) only for classes whose setter accepts "
    "it (probed per class and field at run time: TypeError from the constructor = class insists on one dtype; coancestry "
    "matrices insist on float64/int64, genomic-model coefficients and matrix vrnt_genpos/vrnt_xoprob on float64); from_hdf5 "
    "returns numeric arrays in the item size written, except nrep (h5py_File_read_ndarray_int normalises to the platform "
    "integer) which is compared in value only; frames/CSV carry no dtype and are generated in the default widths",
    "HDF5 group path segments and field-name collisions: segments are prefixed with 'g' so a group is never named like a field",
]

HERE = os.path.dirname(os.path.dirname(os.path.dirname(os.path.abspath(__file__))))
TMP_ROOT = os.path.join(HERE, ".tmp")
EPS = 2.220446049250313e-16


# ======================================================================================================
#  observably_equal : snapshot + diff
# ======================================================================================================

def _is_pybrops_obj(x):
    return type(x).__module__.startswith("pybrops.")


def public_names(obj):
    """public properties of the class + public instance attributes"""
    names = set()
    for name in dir(type(obj)):
        if name.startswith("_"):
            continue
        try:
            attr = inspect.getattr_static(type(obj), name)
        except AttributeError:
            continue
        if isinstance(attr, property):
            names.add(name)
    for name in getattr(obj, "__dict__", {}):
        if not name.startswith("_"):
            names.add(name)
    return sorted(names)


def snapshot(x, _depth=0):
    """Deep, implementation-independent copy of everything observable about ``x``."""
    if x is None or isinstance(x, (bool, int, float, str, bytes)):
        return x
    if isinstance(x, numpy.generic):
        return x
    if isinstance(x, numpy.ndarray):
        return x.copy()
    if isinstance(x, dict):
        return {"__dict__": [(k.item() if isinstance(k, numpy.generic) else k, snapshot(v, _depth + 1))
                             for k, v in x.items()]}
    if isinstance(x, (list, tuple)):
        return {"__seq__": type(x).__name__, "items": [snapshot(v, _depth + 1) for v in x]}
    if isinstance(x, interp1d):
        xs = numpy.asarray(x.x, dtype=float)
        probe = numpy.concatenate([xs, (xs[:-1] + xs[1:]) / 2.0, [xs.min() - 3.0, xs.max() + 7.0]])
        try:
            val = numpy.asarray(x(probe), dtype=float)
        except ValueError:           # fill_value that refuses extrapolation
            val = numpy.asarray(x(xs), dtype=float)
        return {"__interp1d__": True, "x": numpy.array(x.x), "y": numpy.array(x.y), "values": val}
    if isinstance(x, (numpy.random.Generator, numpy.random.RandomState)) or type(x).__name__ == "module":
        return {"__service__": id(x)}
    if _is_pybrops_obj(x) and _depth < 4:
        attrs = {}
        for name in public_names(x):
            try:
                v = getattr(x, name)
            except Exception as e:                       # a getter that raises must raise on both sides
                attrs[name] = {"__raises__": type(e).__name__}
                continue
            if callable(v) and not isinstance(v, (numpy.ndarray,)) and not isinstance(v, interp1d):
                continue
            attrs[name] = snapshot(v, _depth + 1)
        return {"__object__": type(x).__module__ + "." + type(x).__name__, "attrs": attrs}
    return {"__opaque__": type(x).__name__}


def _skind(v):
    if isinstance(v, (bool, numpy.bool_)):
        return "b"
    if isinstance(v, (int, numpy.integer)):
        return "i"
    if isinstance(v, (float, numpy.floating)):
        return "f"
    if isinstance(v, str):
        return "U"
    if isinstance(v, (bytes, numpy.bytes_)):
        return "S"
    return type(v).__name__


def _feq(a, b, ftol):
    a = float(a)
    b = float(b)
    if a == b or (a != a and b != b):
        return True
    if ftol and a == a and b == b:
        return abs(a - b) <= ftol * max(abs(a), abs(b))
    return False


def diff(a, b, ftol=0.0, path="", out=None, limit=12):
    """list of (path, what, message); what in {none,type,dtype,shape,value,keys}"""
    if out is None:
        out = []
    if len(out) >= limit:
        return out

    def add(what, msg):
        out.append((path or "<self>", what, msg))

    if a is None or b is None:
        if not (a is None and b is None):
            add("none", "%s vs %s" % ("None" if a is None else _brief(a), "None" if b is None else _brief(b)))
        return out
    if isinstance(a, numpy.ndarray) or isinstance(b, numpy.ndarray):
        if not (isinstance(a, numpy.ndarray) and isinstance(b, numpy.ndarray)):
            add("type", "%s vs %s" % (type(a).__name__, type(b).__name__))
            return out
        if a.dtype.kind != b.dtype.kind:
            add("dtype", "dtype %s vs %s" % (a.dtype, b.dtype))
            return out
        if a.shape != b.shape:
            add("shape", "shape %s vs %s" % (a.shape, b.shape))
            return out
        if a.dtype.kind == "O":
            for i, (x, y) in enumerate(zip(a.ravel().tolist(), b.ravel().tolist())):
                if type(x) is not type(y) or x != y:
                    add("value" if type(x) is type(y) else "dtype", "element %d: %r (%s) vs %r (%s)" % (
                        i, x, type(x).__name__, y, type(y).__name__))
                    break
        elif a.dtype.kind == "f":
            af, bf = a.ravel(), b.ravel()
            for i in range(af.size):
                if not _feq(af[i], bf[i], ftol):
                    add("value", "element %d: %r vs %r" % (i, float(af[i]), float(bf[i])))
                    break
        else:
            if not numpy.array_equal(a, b):
                add("value", "%s vs %s" % (_brief(a), _brief(b)))
        return out
    if isinstance(a, dict) and isinstance(b, dict):
        for tag in ("__dict__", "__seq__", "__interp1d__", "__service__", "__object__", "__opaque__", "__raises__"):
            if (tag in a) != (tag in b):
                add("type", "%s vs %s" % (sorted(a)[:1], sorted(b)[:1]))
                return out
        if "__dict__" in a:
            da, db = dict(a["__dict__"]), dict(b["__dict__"])
            if set(da) != set(db):
                add("keys", "keys %s vs %s" % (sorted(map(str, da)), sorted(map(str, db))))
            for k in da:
                if k in db:
                    diff(da[k], db[k], ftol, "%s[%r]" % (path, k), out, limit)
            return out
        if "__seq__" in a:
            if a["__seq__"] != b["__seq__"] or len(a["items"]) != len(b["items"]):
                add("shape", "%s[%d] vs %s[%d]" % (a["__seq__"], len(a["items"]), b["__seq__"], len(b["items"])))
                return out
            for i, (x, y) in enumerate(zip(a["items"], b["items"])):
                diff(x, y, ftol, "%s[%d]" % (path, i), out, limit)
            return out
        if "__interp1d__" in a:
            for k in ("x", "y", "values"):
                diff(a[k], b[k], ftol, "%s.<spline %s>" % (path, k), out, limit)
            return out
        if "__service__" in a:
            return out                  # identity of service objects (rng) is checked explicitly by the copy sub-check
        if "__opaque__" in a or "__raises__" in a:
            if a != b:
                add("type", "%r vs %r" % (a, b))
            return out
        if "__object__" in a:
            if a["__object__"] != b["__object__"]:
                add("type", "class %s vs %s" % (a["__object__"], b["__object__"]))
                return out
            ka, kb = set(a["attrs"]), set(b["attrs"])
            if ka != kb:
                add("keys", "attribute sets differ: %s" % sorted(ka ^ kb))
            for k in sorted(ka & kb):
                diff(a["attrs"][k], b["attrs"][k], ftol, (path + "." if path else "") + k, out, limit)
            return out
    # scalars
    ka, kb = _skind(a), _skind(b)
    if ka != kb:
        add("dtype", "%r (%s) vs %r (%s)" % (a, type(a).__name__, b, type(b).__name__))
        return out
    if ka == "f":
        if not _feq(a, b, ftol):
            add("value", "%r vs %r" % (a, b))
    elif ka in ("b", "i", "U", "S"):
        if a != b:
            add("value", "%r vs %r" % (a, b))
    else:
        add("type", "unsupported value type %s" % ka)
    return out


def _brief(x):
    s = repr(x.tolist() if isinstance(x, numpy.ndarray) else x)
    return s if len(s) < 120 else s[:117] + "..."


def observably_equal(a, b, ftol=0.0, skip=()):
    """True iff every public data / label / metadata attribute of ``a`` and ``b`` agrees in value and dtype kind."""
    return not mismatches(a, b, ftol, skip)


def mismatches(a, b, ftol=0.0, skip=()):
    sa = a if isinstance(a, dict) and "__object__" in a else snapshot(a)
    sb = b if isinstance(b, dict) and "__object__" in b else snapshot(b)
    out = diff(sa, sb, ftol)
    return [m for m in out if _top(m[0]) not in skip]


def _top(path):
    for i, ch in enumerate(path):
        if ch in ".[":
            return path[:i]
    return path


# self-test of the oracle on tiny hand-made examples (import time; a failure is a harness error)
def _selftest():
    a = numpy.array([1, 2], dtype="int8")
    assert not diff(a, a.copy())
    assert diff(a, a.astype("int64")) == []                       # same kind
    assert diff(a, a.astype(float))[0][1] == "dtype"
    assert diff(None, a)[0][1] == "none"
    assert diff(numpy.array(["a"], dtype=object), numpy.array([b"a"], dtype=object))[0][1] == "dtype"
    assert diff(numpy.array([numpy.nan]), numpy.array([numpy.nan])) == []
    assert diff(numpy.array([1.0]), numpy.array([1.0 + 4e-16])) != []
    assert diff(numpy.array([1.0]), numpy.array([1.0 + 4e-16]), ftol=8 * EPS) == []
    assert diff(snapshot({"a": 1}), snapshot({"a": numpy.int64(1)})) == []
    assert diff(snapshot({"a": 1}), snapshot({"a": 1, "b": 2}))[0][1] == "keys"
    assert diff(snapshot({"a": "x"}), snapshot({"a": b"x"}))[0][1] == "dtype"
    assert _top("taxa[3]") == "taxa" and _top("gpmod.beta") == "gpmod" and _top("mat") == "mat"


_selftest()

CATEGORY = {}
for _n in ("taxa", "trait", "vrnt_name", "vrnt_hapalt", "vrnt_hapref", "vrnt_fncode", "taxa_grp", "vrnt_chrgrp",
           "vrnt_phypos", "vrnt_stop", "vrnt_hapgrp"):
    CATEGORY[_n] = "labels"
for _n in ("taxa_grp_name", "taxa_grp_stix", "taxa_grp_spix", "taxa_grp_len", "vrnt_chrgrp_name", "vrnt_chrgrp_stix",
           "vrnt_chrgrp_spix", "vrnt_chrgrp_len"):
    CATEGORY[_n] = "groupmeta"
for _n in ("mat", "beta", "u", "u_a", "u_d", "u_misc", "vrnt_genpos", "vrnt_xoprob", "vrnt_mask", "spline"):
    CATEGORY[_n] = "data"
for _n in ("ploidy", "location", "scale", "model_name", "hyperparams", "nenv", "nrep", "var_env", "var_rep", "var_err",
           "spline_kind", "spline_fill_value", "gpmod"):
    CATEGORY[_n] = "params"


def report(ctx, prefix, mm, note=""):
    """one ctx.check per mismatch; clause = <prefix>.<category>.<what>"""
    for path, what, msg in mm:
        cat = CATEGORY.get(_top(path), "derived")
        ctx.fail("%s.%s.%s" % (prefix, cat, what), "%s: %s %s" % (path, msg, note))


# ======================================================================================================
#  classes under test
# ======================================================================================================

def _load(modpath, name):
    return getattr(importlib.import_module(modpath + "." + name), name)


# name -> (package, mat shape spec, mat dtype, family)
_TABLE = [
    ("DenseGenotypeMatrix", "pybrops.popgen.gmat", "np", "int8", "geno"),
    ("DensePhasedGenotypeMatrix", "pybrops.popgen.gmat", "2np", "int8", "geno"),
    ("DenseBreedingValueMatrix", "pybrops.popgen.bvmat", "nt", "f", "bv"),
    ("DenseEstimatedBreedingValueMatrix", "pybrops.popgen.bvmat", "nt", "f", "bv"),
    ("DenseGenomicEstimatedBreedingValueMatrix", "pybrops.popgen.bvmat", "nt", "f", "bv"),
    ("DenseCoancestryMatrix", "pybrops.popgen.cmat", "nn", "f", "cmat"),
    ("DenseMolecularCoancestryMatrix", "pybrops.popgen.cmat", "nn", "f", "cmat"),
    ("DenseVanRadenCoancestryMatrix", "pybrops.popgen.cmat", "nn", "f", "cmat"),
    ("DenseYangCoancestryMatrix", "pybrops.popgen.cmat", "nn", "f", "cmat"),
    ("DenseGeneralizedWeightedCoancestryMatrix", "pybrops.popgen.cmat", "nn", "f", "cmat"),
    ("DenseTwoWayDHAdditiveGeneticVarianceMatrix", "pybrops.model.vmat", "nnt", "f", "var"),
    ("DenseTwoWayDHAdditiveGenicVarianceMatrix", "pybrops.model.vmat", "nnt", "f", "var"),
    ("DenseDihybridDHAdditiveGeneticVarianceMatrix", "pybrops.model.vmat", "nnt", "f", "var"),
    ("DenseDihybridDHAdditiveGenicVarianceMatrix", "pybrops.model.vmat", "nnt", "f", "var"),
    ("DenseThreeWayDHAdditiveGeneticVarianceMatrix", "pybrops.model.vmat", "nnnt", "f", "var"),
    ("DenseThreeWayDHAdditiveGenicVarianceMatrix", "pybrops.model.vmat", "nnnt", "f", "var"),
    ("DenseFourWayDHAdditiveGeneticVarianceMatrix", "pybrops.model.vmat", "nnnnt", "f", "var"),
    ("DenseFourWayDHAdditiveGenicVarianceMatrix", "pybrops.model.vmat", "nnnnt", "f", "var"),
    ("DenseTwoWayDHAdditiveProgenyGeneticCovarianceMatrix", "pybrops.model.pcvmat", "nntt", "f", "var"),
    ("DenseDihybridDHAdditiveProgenyGeneticCovarianceMatrix", "pybrops.model.pcvmat", "nntt", "f", "var"),
    ("DenseThreeWayDHAdditiveProgenyGeneticCovarianceMatrix", "pybrops.model.pcvmat", "nnntt", "f", "var"),
    ("DenseFourWayDHAdditiveProgenyGeneticCovarianceMatrix", "pybrops.model.pcvmat", "nnnntt", "f", "var"),
    ("DenseSquareTaxaTraitMatrix", "pybrops.core.mat", "nnt", "f", "sqtt"),
    ("DenseSquareTaxaSquareTraitMatrix", "pybrops.core.mat", "nntt", "f", "core"),
    ("DenseSquareTaxaMatrix", "pybrops.core.mat", "nn", "f", "core"),
    ("DenseTaxaMatrix", "pybrops.core.mat", "nt", "f", "core"),
    ("DenseTaxaTraitMatrix", "pybrops.core.mat", "nt", "f", "core"),
    ("DenseTaxaVariantMatrix", "pybrops.core.mat", "np", "f", "core"),
    ("DensePhasedTaxaVariantMatrix", "pybrops.core.mat", "2np", "f", "core"),
    ("DenseVariantMatrix", "pybrops.core.mat", "pt", "f", "core"),
    ("DenseTraitMatrix", "pybrops.core.mat", "tn", "f", "core"),
    ("DenseMatrix", "pybrops.core.mat", "nt", "f", "core"),
]
MATRIX = {}
for _name, _pkg, _shape, _dt, _fam in _TABLE:
    _c = _load(_pkg, _name)
    if inspect.isabstract(_c):          # e.g. DenseCoancestryMatrix: only its concrete subclasses can be built
        continue
    MATRIX[_name] = {"cls": _c, "shape": _shape, "dtype": _dt, "family": _fam}

StandardGeneticMap = _load("pybrops.popgen.gmap", "StandardGeneticMap")
ExtendedGeneticMap = _load("pybrops.popgen.gmap", "ExtendedGeneticMap")
ALGMOD = _load("pybrops.model.gmod", "DenseAdditiveLinearGenomicModel")
ADLGMOD = _load("pybrops.model.gmod", "DenseAdditiveDominanceLinearGenomicModel")
G_E_Phenotyping = _load("pybrops.breed.prot.pt", "G_E_Phenotyping")

OTHER = {
    "StandardGeneticMap": {"cls": StandardGeneticMap, "family": "gmap"},
    "ExtendedGeneticMap": {"cls": ExtendedGeneticMap, "family": "gmap"},
    "DenseAdditiveLinearGenomicModel": {"cls": ALGMOD, "family": "gmod"},
    "DenseAdditiveDominanceLinearGenomicModel": {"cls": ADLGMOD, "family": "gmod"},
    "G_E_Phenotyping": {"cls": G_E_Phenotyping, "family": "ge"},
}
ALL = dict(MATRIX)
ALL.update(OTHER)

HDF5_CLASSES = sorted(k for k, v in ALL.items() if hasattr(v["cls"], "to_hdf5") and hasattr(v["cls"], "from_hdf5"))
FRAME_FORMATS = {}          # class name -> list of formats, enumerated from the classes at import
for _k, _v in ALL.items():
    _c = _v["cls"]
    _f = []
    if hasattr(_c, "to_pandas") and hasattr(_c, "from_pandas"):
        _f.append("pandas")
    if hasattr(_c, "to_csv") and hasattr(_c, "from_csv"):
        _f.append("csv")
    if hasattr(_c, "to_pandas_dict") and hasattr(_c, "from_pandas_dict"):
        _f.append("pandas_dict")
    if hasattr(_c, "to_csv_dict") and hasattr(_c, "from_csv_dict"):
        _f.append("csv_dict")
    if hasattr(_c, "to_egmap") and hasattr(_c, "from_egmap"):
        _f.append("egmap")
    if _f and _v["family"] in ("bv", "cmat", "var", "sqtt", "gmap", "gmod"):
        FRAME_FORMATS[_k] = _f
FRAME_CLASSES = sorted(FRAME_FORMATS)
COPY_CLASSES = sorted(ALL)

# ======================================================================================================
#  strategies (JSON-able content specs)
# ======================================================================================================

_SAFE = st.characters(blacklist_categories=("Cs", "Cc"))
_EXOTIC = ["é", "日本語", "Ωmega", "a,b", 'q"uote', " lead", "trail ", "tab em", "naïve", "Ünï", "a;b", "x'y", "ß", "ёж", "#1", "NA",
           "nan", "1", "1.5", "True", "-", ""]


def _label(prefix, minlen):
    free = st.text(_SAFE, min_size=minlen, max_size=6)
    asc = st.text(st.characters(min_codepoint=32, max_codepoint=126), min_size=minlen, max_size=5)
    ex = st.sampled_from([e for e in _EXOTIC if len(e) >= minlen])
    return st.one_of(asc, free, ex).map(lambda s: prefix + s)


def _labels(draw, k, prefix, unique):
    minlen = 0
    if unique:
        return draw(st.lists(_label(prefix, minlen), min_size=k, max_size=k, unique=True))
    return draw(st.lists(_label(prefix, minlen), min_size=k, max_size=k))


# dtype widths.  Every field for which a class accepts several widths of one kind (setters that only ask for "integer" /
# "floating" / "real" / ndarray) is built in a drawn width, with values that need that width: an offset near the top of the
# drawn integer type is added to group ids / chromosome numbers / haplotype groups / replicate counts, positions are spread
# over the range of the drawn type, float arrays are cast to the drawn float type (the object then *holds* float32 values).
# Which (class, field) pairs accept a non-default width is probed from the classes (``_accepts``), the rest keep the default.
_INT_OFFS = {"int8": [0, 0, 100, 124, -100], "int16": [0, 100, 124, 1000, 32000, 32764, -200],
             "int32": [0, 124, 32764, 2023001, 2 ** 31 - 4, -40000], "int64": [0, 0, 124, 32764, 2023001, 2 ** 31 - 4, 2 ** 40]}
_INT_MAX = {"int8": 2 ** 7 - 1, "int16": 2 ** 15 - 1, "int32": 2 ** 31 - 1, "int64": 2 ** 63 - 1}
_INT_FIELDS = ("taxa_grp", "vrnt_chrgrp", "vrnt_hapgrp", "nrep", "map_chrgrp")
_FLOAT_FIELDS = ("mat", "location", "scale", "map_genpos", "var")


@st.composite
def widths_strategy(draw):
    """field -> [integer dtype, offset]  |  float dtype  |  [integer dtype, spread?] for positions"""
    profile = draw(st.sampled_from(["narrow", "wide", "mixed", "mixed"]))

    def idt(choices=("int8", "int16", "int32", "int64")):
        if profile == "narrow":
            return choices[0] if draw(st.booleans()) else draw(st.sampled_from(choices))
        if profile == "wide":
            return "int64"
        return draw(st.sampled_from(choices))

    def fdt():
        if profile == "narrow":
            return "float32"
        if profile == "wide":
            return "float64"
        return draw(st.sampled_from(["float32", "float64"]))

    dt = {"profile": profile}
    for f in _INT_FIELDS:
        d = idt()
        dt[f] = [d, draw(st.sampled_from(_INT_OFFS[d]))]
    for f in ("vrnt_phypos", "map_phypos"):
        dt[f] = [idt(("int32", "int64") if f == "map_phypos" else ("int16", "int32", "int64")), draw(st.booleans())]
    for f in _FLOAT_FIELDS:
        dt[f] = fdt()
    return dt


@st.composite
def content_strategy(draw, frame=False, sizes=None):
    """everything any builder may need; optional parts are None when absent.  ``sizes``: take the array sizes of an earlier
    content (a later write of an object of the same shape)"""
    n = draw(st.integers(1, 4))
    p = draw(st.integers(1, 5))
    t = draw(st.integers(1, 3))
    if sizes is not None:
        n, p, t = sizes["n"], sizes["p"], sizes["t"]
    rich = draw(st.sampled_from(["poor", "rich", "mixed", "mixed"]))

    def have():
        if rich == "poor":
            return False
        if rich == "rich":
            return True
        return draw(st.booleans())

    px = (lambda s: s) if frame else (lambda s: "")
    c = {"n": n, "p": p, "t": t, "rich": rich, "vseed": draw(st.integers(0, 2 ** 31 - 1)),
         "float_mode": draw(st.sampled_from(["dyadic", "dyadic", "normal", "wide"])),
         "nan": draw(st.booleans()) and not frame}
    c["taxa"] = _labels(draw, n, px("x"), frame) if have() else None
    c["taxa_grp"] = draw(st.lists(st.integers(0, 3), min_size=n, max_size=n)) if have() else None
    c["trait"] = _labels(draw, t, px("q"), frame) if have() else None
    c["vrnt_chrgrp"] = draw(st.lists(st.sampled_from([1, 2, 3, 7, 11]), min_size=p, max_size=p)) if have() else None
    c["vrnt_phypos"] = draw(st.lists(st.integers(1, 10 ** 9), min_size=p, max_size=p)) if have() else None
    c["vrnt_name"] = _labels(draw, p, px("m"), False) if have() else None
    c["vrnt_genpos"] = have()
    c["vrnt_xoprob"] = have()
    c["vrnt_hapgrp"] = have()
    c["vrnt_hapalt"] = _labels(draw, p, "", False) if have() else None
    c["vrnt_hapref"] = _labels(draw, p, "", False) if have() else None
    c["vrnt_mask"] = have()
    c["group_taxa"] = draw(st.booleans())
    c["group_vrnt"] = draw(st.booleans())
    c["ploidy"] = draw(st.sampled_from([2, 2, 1, 4]))
    c["wild"] = draw(st.booleans())
    # models / phenotyping
    c["q"] = draw(st.integers(1, 2))
    c["nmisc"] = draw(st.sampled_from([None, 0, 1, 2]))
    if sizes is not None:
        c["q"], c["nmisc"] = sizes["q"], sizes["nmisc"]
    c["model_name"] = draw(_label("", 0)) if have() else None
    if have():
        keys = draw(st.lists(st.sampled_from(["ha", "hb", "hc", "hé"]), min_size=0, max_size=3, unique=True))
        c["hyper"] = [[k, draw(st.one_of(st.integers(-5, 5), st.sampled_from([0.5, -2.25, 1e-3]),
                                        st.lists(st.sampled_from([0.0, 1.5, -3.0]), min_size=1, max_size=3),
                                        st.sampled_from(["ML", "REML", "é"])))]
                      for k in keys]
    else:
        c["hyper"] = None
    c["nenv"] = draw(st.integers(1, 3)) if sizes is None else sizes["nenv"]
    c["nrep"] = draw(st.one_of(st.integers(1, 3), st.just("array")))
    c["var"] = [draw(st.sampled_from([None, 0.0, 0.5, "array"])) for _ in range(3)]
    # genetic maps
    nchr = draw(st.integers(1, 3)) if sizes is None else len(sizes["map_sizes"])
    c["map_chr"] = draw(st.lists(st.sampled_from([1, 2, 3, 5, 10, 23]), min_size=nchr, max_size=nchr, unique=True))
    c["map_sizes"] = [draw(st.integers(2, 4)) for _ in range(nchr)] if sizes is None else list(sizes["map_sizes"])
    nm = sum(c["map_sizes"])
    c["map_name"] = _labels(draw, nm, px("m"), False) if have() else None
    c["map_fncode"] = draw(st.lists(st.one_of(st.sampled_from(["H", "K", "U"]), _label(px("k"), 0)), min_size=nm,
                                    max_size=nm)) if have() else None
    c["map_shuffle"] = draw(st.integers(0, 10 ** 6))
    c["dt"] = None if frame else draw(st.one_of(st.none(), widths_strategy(), widths_strategy()))
    return c


def _pick_class(draw, names):
    """family first, then class, so that one-class families (maps, protocol) are not starved"""
    fams = sorted(set(ALL[k]["family"] for k in names))
    fam = draw(st.sampled_from(fams))
    return draw(st.sampled_from([k for k in names if ALL[k]["family"] == fam]))


_GROUPSEG = st.text(_SAFE.filter(lambda ch: ch != "/"), min_size=0, max_size=5).map(lambda s: "g" + s)
_FNAME = st.text(st.characters(whitelist_categories=("Ll", "Lu", "Lo", "Nd"), whitelist_characters=" ._-"),
                 min_size=0, max_size=6).map(lambda s: "f" + s)


@st.composite
def hdf5_case(draw):
    clsname = _pick_class(draw, HDF5_CLASSES)
    nwrites = draw(st.sampled_from([1, 2, 2, 3, 3, 4]))
    segs = draw(st.lists(_GROUPSEG, min_size=0, max_size=3))
    other = draw(_GROUPSEG)
    rel = draw(st.sampled_from(["child", "sibling"]))
    hist = []
    for i in range(nwrites):
        # half of the later writes to a location store an object with the array sizes of the one stored there before
        # (same shapes; other values / labels / optional fields / dtype widths)
        slot = draw(st.sampled_from([0, 0, 0, 1]))
        prev = [h["content"] for h in hist if h["slot"] == slot]
        same = bool(prev) and draw(st.booleans())
        hist.append({"slot": slot, "content": draw(content_strategy(sizes=prev[-1] if same else None))})
    return {"cls": clsname, "how": draw(st.sampled_from(["str", "str", "path", "handle"])), "fname": draw(_FNAME),
            "segs": segs, "other": other, "rel": rel, "lead_slash": draw(st.booleans()),
            "trail_slash": draw(st.booleans()), "foreign_mat": draw(st.sampled_from([False, False, True])),
            "history": hist}


@st.composite
def frames_case(draw):
    clsname = _pick_class(draw, FRAME_CLASSES)
    fmt = draw(st.sampled_from(FRAME_FORMATS[clsname]))
    nwrites = draw(st.sampled_from([1, 1, 2, 3])) if fmt in ("csv", "csv_dict", "egmap") else 1
    cols = draw(st.lists(_label("c", 0), min_size=14, max_size=14, unique=True))
    return {"cls": clsname, "format": fmt, "history": [draw(content_strategy(frame=True)) for _ in range(nwrites)],
            "default_cols": draw(st.booleans()), "cols": cols, "sep": draw(st.sampled_from([",", ",", "\t", ";", "|"])),
            "units": draw(st.sampled_from(["M", "cM", "Morgans", "centiMorgans"])),
            "bv_mode": draw(st.sampled_from(["unscale", "unscale", "unscale", "passback"])),
            "fname": draw(_FNAME)}


_COPY_OPS = ["copy.copy", "copy.deepcopy", "method.copy", "method.deepcopy", "method.deepcopy", "method.deepcopy(None)",
             "method.deepcopy({})", "edit_source:inplace", "edit_source:setter"]


@st.composite
def copy_case(draw):
    """content + a history of further copy operations on the same source object: [op, edit the copy afterwards?, raw index]"""
    nops = draw(st.integers(1, 5))
    hist = [[draw(st.sampled_from(_COPY_OPS)), draw(st.sampled_from([True, True, False])), draw(st.integers(0, 10 ** 6))]
            for _ in range(nops)]
    return {"cls": _pick_class(draw, COPY_CLASSES), "content": draw(content_strategy()), "history": hist}


_VCF_TOKEN = st.text(st.characters(blacklist_categories=("Cs", "Cc", "Zs", "Zl", "Zp"), blacklist_characters=";,=\x7f"),
                     min_size=1, max_size=6)


@st.composite
def vcf_case(draw):
    nsamp = draw(st.integers(1, 10))
    samples = draw(st.lists(_VCF_TOKEN.map(lambda s: "s" + s) | st.sampled_from(["A1", "B73", "Mo17", "é", "日本"]),
                            min_size=nsamp, max_size=nsamp, unique=True))
    ncontig = draw(st.integers(1, 4))
    contigs = draw(st.lists(st.integers(1, 99), min_size=ncontig, max_size=ncontig, unique=True))
    nrec = draw(st.integers(1, 8))
    recs = []
    for _ in range(nrec):
        nalt = draw(st.sampled_from([1, 1, 1, 2, 3]))
        gts = [[draw(st.integers(0, nalt)), draw(st.integers(0, nalt))] for _ in range(nsamp)]
        recs.append({"chrom": draw(st.sampled_from(contigs)), "pos": draw(st.integers(1, 2 * 10 ** 9)),
                     "id": draw(st.one_of(st.just("."), _VCF_TOKEN.map(lambda s: "r" + s), st.sampled_from(["rs12", "None", "1"]))),
                     "ref": draw(st.sampled_from(["A", "C", "G", "T", "AT", "GCC"])), "nalt": nalt,
                     "qual": draw(st.sampled_from([".", "30", "99.5"])), "filter": draw(st.sampled_from([".", "PASS", "q10"])),
                     "info": draw(st.sampled_from([".", "DP=14", "DP=3;AF=0.5"])),
                     "extra_fmt": draw(st.booleans()), "gt": gts})
    return {"samples": samples, "contigs": contigs, "records": recs, "sorted": draw(st.booleans()),
            "contig_header": draw(st.booleans()), "contig_length": draw(st.booleans()), "fname": draw(_FNAME),
            "crlf": False}


# ======================================================================================================
#  deterministic builders (case -> pybrops object)
# ======================================================================================================

def _floats(rng, shape, c, allow_nan=True):
    mode = c["float_mode"]
    if mode == "dyadic":
        a = rng.integers(-64, 65, size=shape) / 8.0
    elif mode == "normal":
        a = rng.standard_normal(size=shape)
    else:
        a = rng.standard_normal(size=shape) * 10.0 ** rng.integers(-8, 9, size=shape)
    a = numpy.asarray(a, dtype="float64")
    if allow_nan and c.get("nan") and a.size > 1:
        a.ravel()[int(rng.integers(0, a.size))] = numpy.nan
    return a


def _width(c, clsname, field):
    """drawn width spec of ``field`` if the content has one and the class accepts other widths there, else None"""
    dt = c.get("dt")
    if not dt or field not in dt:
        return None
    if not dt.get("__probe__") and not _accepts(clsname, field):
        return None
    return dt[field]


def _ints(values, spec):
    """small non-negative int64 ``values`` -> drawn integer type, shifted towards the top (or below zero) of its range"""
    values = numpy.asarray(values, dtype="int64")
    if spec is None:
        return values
    dtype, off = spec
    if off > 0 and values.size:
        off = min(off, _INT_MAX[dtype] - int(values.max()))
    return (values + off).astype(dtype)


def _positions(values, spec, top):
    """positions in [0, top] (int64) -> drawn integer type; ``spread``: moved to the upper part of the type's range"""
    values = numpy.asarray(values, dtype="int64")
    if spec is None:
        return values
    dtype, spread = spec
    lim = _INT_MAX[dtype]
    if top > lim:
        values = values % lim
        top = lim
    if spread:
        values = values + ((lim - top) if dtype != "int64" else 2 ** 33 + 5)
    return values.astype(dtype)


def _fcast(a, spec):
    return a if spec is None else a.astype(spec)


_ACCEPTS = {}
_PROBE = {"n": 2, "p": 2, "t": 1, "rich": "rich", "vseed": 1, "float_mode": "dyadic", "nan": False, "taxa": ["a", "b"],
          "taxa_grp": [0, 1], "trait": ["q"], "vrnt_chrgrp": [1, 2], "vrnt_phypos": [5, 9], "vrnt_name": ["m", "k"],
          "vrnt_genpos": True, "vrnt_xoprob": True, "vrnt_hapgrp": True, "vrnt_hapalt": ["A", "C"], "vrnt_hapref": ["G", "T"],
          "vrnt_mask": True, "group_taxa": False, "group_vrnt": False, "ploidy": 2, "wild": False, "q": 1, "nmisc": 1,
          "model_name": "m", "hyper": None, "nenv": 2, "nrep": "array", "var": ["array", "array", "array"], "map_chr": [1],
          "map_sizes": [2], "map_name": ["m", "k"], "map_fncode": ["H", "K"], "map_shuffle": 0}
_PROBE_SPEC = {"taxa_grp": ["int16", 0], "vrnt_chrgrp": ["int16", 0], "vrnt_hapgrp": ["int16", 0], "nrep": ["int16", 0],
               "map_chrgrp": ["int16", 0], "vrnt_phypos": ["int32", False], "map_phypos": ["int32", False],
               "mat": "float32", "location": "float32", "scale": "float32", "map_genpos": "float32", "var": "float32"}


def _accepts(clsname, field):
    """does the class take a non-default width in this field?  (probed once: build a small object with only this field in
    another width; a TypeError of the setter = the class insists on one dtype, the field then keeps the default)"""
    key = (clsname, field)
    if key not in _ACCEPTS:
        c = dict(_PROBE)
        c["dt"] = {"__probe__": True, field: _PROBE_SPEC[field]}
        try:
            build(clsname, c)
            _ACCEPTS[key] = True
        except TypeError:
            _ACCEPTS[key] = False
    return _ACCEPTS[key]


def _obj(lst):
    out = numpy.empty(len(lst), dtype=object)
    for i, s in enumerate(lst):
        out[i] = s
    return out


def build_matrix(clsname, c, frame=False):
    ent = MATRIX[clsname]
    cls = ent["cls"]
    rng = numpy.random.default_rng(c["vseed"])
    n, p, t = c["n"], c["p"], c["t"]
    shape = tuple({"n": n, "p": p, "t": t, "2": 2}[ch] for ch in ent["shape"])
    if ent["dtype"] == "int8":
        if c["wild"]:
            mat = rng.integers(-128, 128, size=shape).astype("int8")
        elif ent["shape"] == "np":
            mat = rng.integers(0, c["ploidy"] + 1, size=shape).astype("int8")
        else:
            mat = rng.integers(0, 2, size=shape).astype("int8")
    else:
        mat = _floats(rng, shape, c, allow_nan=not frame)
        if ent["shape"] == "nn" and c["vseed"] % 2 == 0 and not numpy.isnan(mat).any():
            mat = (mat + mat.T) / 2.0      # half of the square matrices symmetric, half not (transposition must show)
        mat = _fcast(mat, _width(c, clsname, "mat"))
    params = inspect.signature(cls.__init__).parameters
    kw = {"mat": mat}
    if "taxa" in params and c["taxa"] is not None:
        kw["taxa"] = _obj(c["taxa"])
    if "taxa_grp" in params and c["taxa_grp"] is not None:
        kw["taxa_grp"] = _ints(c["taxa_grp"], _width(c, clsname, "taxa_grp"))
    if "trait" in params and c["trait"] is not None:
        kw["trait"] = _obj(c["trait"])
    if "vrnt_chrgrp" in params:
        if c["vrnt_chrgrp"] is not None:
            kw["vrnt_chrgrp"] = _ints(c["vrnt_chrgrp"], _width(c, clsname, "vrnt_chrgrp"))
        if c["vrnt_phypos"] is not None:
            kw["vrnt_phypos"] = _positions(c["vrnt_phypos"], _width(c, clsname, "vrnt_phypos"), 10 ** 9)
        if c["vrnt_name"] is not None:
            kw["vrnt_name"] = _obj(c["vrnt_name"])
        if c["vrnt_genpos"]:
            kw["vrnt_genpos"] = numpy.cumsum(rng.integers(0, 40, size=p) / 64.0)
        if c["vrnt_xoprob"]:
            kw["vrnt_xoprob"] = rng.integers(0, 33, size=p) / 64.0
        if c["vrnt_hapgrp"]:
            kw["vrnt_hapgrp"] = _ints(rng.integers(0, 3, size=p), _width(c, clsname, "vrnt_hapgrp"))
        if c["vrnt_hapalt"] is not None:
            kw["vrnt_hapalt"] = _obj(c["vrnt_hapalt"])
        if c["vrnt_hapref"] is not None:
            kw["vrnt_hapref"] = _obj(c["vrnt_hapref"])
        if c["vrnt_mask"]:
            kw["vrnt_mask"] = rng.integers(0, 2, size=p).astype(bool)
    if "ploidy" in params:
        kw["ploidy"] = int(c["ploidy"])
    if "location" in params:
        kw["location"] = _fcast(_floats(rng, (t,), c, allow_nan=False), _width(c, clsname, "location"))
        kw["scale"] = _fcast(numpy.abs(_floats(rng, (t,), c, allow_nan=False)) + 0.125, _width(c, clsname, "scale"))
    obj = cls(**kw)
    grouped = []
    if c["group_taxa"] and kw.get("taxa_grp") is not None and hasattr(obj, "group_taxa"):
        obj.group_taxa()
        grouped.append("taxa")
    if c["group_vrnt"] and kw.get("vrnt_chrgrp") is not None and hasattr(obj, "group_vrnt"):
        obj.group_vrnt()
        grouped.append("vrnt")
    return obj, grouped


def build_gmap(clsname, c):
    rng = numpy.random.default_rng(c["vseed"])
    chrgrp, phypos, genpos = [], [], []
    for ch, k in zip(c["map_chr"], c["map_sizes"]):
        pos = numpy.cumsum(rng.integers(1, 10 ** 6, size=k))
        if c["float_mode"] == "dyadic":
            gp = numpy.cumsum(rng.integers(0, 50, size=k) / 64.0)
        else:
            gp = numpy.cumsum(numpy.abs(rng.standard_normal(size=k)) * rng.integers(0, 2, size=k))
        chrgrp += [ch] * k
        phypos += pos.tolist()
        genpos += gp.tolist()
    nm = len(chrgrp)
    perm = numpy.random.default_rng(c["map_shuffle"]).permutation(nm)
    chrgrp = _ints(numpy.array(chrgrp, dtype="int64")[perm], _width(c, clsname, "map_chrgrp"))
    pspec = _width(c, clsname, "map_phypos")
    top = 4 * 10 ** 6 + 100                # bound of the positions and stops generated here
    stop = numpy.array(phypos, dtype="int64")[perm] + rng.integers(0, 100, size=nm)
    phypos = _positions(numpy.array(phypos, dtype="int64")[perm], pspec, top)
    stop = _positions(stop, pspec, top)
    genpos = _fcast(numpy.array(genpos, dtype="float64")[perm], _width(c, clsname, "map_genpos"))
    if clsname == "StandardGeneticMap":
        return StandardGeneticMap(vrnt_chrgrp=chrgrp, vrnt_phypos=phypos, vrnt_genpos=genpos), ["vrnt"]
    kw = {}
    if c["map_name"] is not None:
        kw["vrnt_name"] = _obj(c["map_name"])[perm]
    if c["map_fncode"] is not None:
        kw["vrnt_fncode"] = _obj(c["map_fncode"])[perm]
    return ExtendedGeneticMap(vrnt_chrgrp=chrgrp, vrnt_phypos=phypos, vrnt_stop=stop, vrnt_genpos=genpos,
                              **kw), ["vrnt"]


def _hyper(c):
    if c["hyper"] is None:
        return None
    out = {}
    for k, v in c["hyper"]:
        out[k] = numpy.array(v, dtype=float) if isinstance(v, list) else v
    return out


def build_gmod(clsname, c):
    rng = numpy.random.default_rng(c["vseed"])
    t, p, q = c["t"], c["p"], c["q"]
    beta = _floats(rng, (q, t), c, allow_nan=False)
    u_misc = None if c["nmisc"] is None else _floats(rng, (c["nmisc"], t), c, allow_nan=False)
    u_a = _floats(rng, (p, t), c, allow_nan=False)
    kw = dict(beta=beta, u_misc=u_misc, u_a=u_a, trait=None if c["trait"] is None else _obj(c["trait"]),
              model_name=c["model_name"], hyperparams=_hyper(c))
    if clsname == "DenseAdditiveDominanceLinearGenomicModel":
        kw["u_d"] = _floats(rng, (p, t), c, allow_nan=False)
        return ADLGMOD(**kw), []
    return ALGMOD(**kw), []


def build_ge(c, gpmod=None):
    rng = numpy.random.default_rng(c["vseed"] + 1)
    if gpmod is None:
        gpmod, _ = build_gmod("DenseAdditiveLinearGenomicModel", c)
    t = c["t"]
    nenv = int(c["nenv"])
    nrep = c["nrep"]
    if not isinstance(nrep, int):
        spec = _width(c, "G_E_Phenotyping", "nrep")
        nrep = _ints(rng.integers(1, 4, size=nenv), None if spec is None else [spec[0], abs(spec[1])])
    vspec = _width(c, "G_E_Phenotyping", "var")
    vs = []
    for v in c["var"]:
        if v == "array":
            v = rng.integers(0, 17, size=t) / 8.0
            if vspec is not None and c["float_mode"] != "dyadic":
                v = v + rng.random(size=t)              # not representable in single precision
            v = _fcast(v, vspec)
        vs.append(v)
    return G_E_Phenotyping(gpmod=gpmod, nenv=nenv, nrep=nrep, var_env=vs[0], var_rep=vs[1], var_err=vs[2],
                           rng=numpy.random.default_rng(0)), []


def build(clsname, c, frame=False):
    fam = ALL[clsname]["family"]
    if fam == "gmap":
        return build_gmap(clsname, c)
    if fam == "gmod":
        return build_gmod(clsname, c)
    if fam == "ge":
        return build_ge(c)
    return build_matrix(clsname, c, frame)


def optional_profile(snap):
    """(names of top-level attributes that are None, names that are not None) among those that can be None"""
    absent, present = set(), set()
    for k, v in snap["attrs"].items():
        if v is None:
            absent.add(k)
        else:
            present.add(k)
    return absent, present


def has_non_ascii(c, fields=("taxa", "trait", "vrnt_name", "vrnt_hapalt", "vrnt_hapref", "map_name", "model_name")):
    for f in fields:
        v = c.get(f)
        if v is None:
            continue
        for s in ([v] if isinstance(v, str) else v):
            if any(ord(ch) > 127 for ch in s):
                return True
    return False


@contextlib.contextmanager
def workdir():
    os.makedirs(TMP_ROOT, exist_ok=True)
    d = tempfile.mkdtemp(dir=TMP_ROOT, prefix="c16-")
    try:
        yield d
    finally:
        shutil.rmtree(d, ignore_errors=True)


@contextlib.contextmanager
def quiet():
    """DenseSquareTaxaTraitMatrix.to_pandas has a stray print(); keep it out of the runner's report"""
    buf = io.StringIO()
    with contextlib.redirect_stdout(buf):
        yield buf


@contextlib.contextmanager
def quiet_fd2():
    """htslib writes '[W::vcf_parse] Contig ... is not defined in the header' to the C-level stderr"""
    saved = os.dup(2)
    devnull = os.open(os.devnull, os.O_WRONLY)
    try:
        os.dup2(devnull, 2)
        yield
    finally:
        os.dup2(saved, 2)
        os.close(saved)
        os.close(devnull)


# ======================================================================================================
#  hdf5 : write histories
# ======================================================================================================

def _group_paths(case):
    segs = list(case["segs"])
    other = case["other"]
    if case["rel"] == "child" or not segs:
        segs1 = segs + [other]
    else:
        if other == segs[-1]:
            other = other + "2"
        segs1 = segs[:-1] + [other]

    def fmt(s):
        if not s:
            return None
        g = "/".join(s)
        if case["lead_slash"]:
            g = "/" + g
        if case["trail_slash"]:
            g = g + "/"
        return g
    return [fmt(segs), fmt(segs1)]


def _hyper_keys(snap):
    v = snap["attrs"].get("hyperparams")
    if isinstance(v, dict) and "__dict__" in v:
        return set(k for k, _ in v["__dict__"])
    return set()


def check_hdf5(case, ctx):
    clsname = case["cls"]
    cls = ALL[clsname]["cls"]
    fam = ALL[clsname]["family"]
    groups = _group_paths(case)
    ctx.label("class:" + clsname)
    ctx.label("family:" + fam)
    ctx.label("writes:%d" % len(case["history"]))
    ctx.label("how:" + case["how"])
    with workdir() as d:
        fname = os.path.join(d, case["fname"] + ".h5")
        written = {0: [], 1: []}        # slot -> list of snapshots in write order
        objs = {}
        last_content = {}
        handle = None
        target = fname
        if case["how"] == "path":
            target = pathlib.Path(fname)
        elif case["how"] == "handle":
            handle = h5py.File(fname, "a")
            target = handle
        try:
            for step in case["history"]:
                obj, grouped = build(clsname, step["content"])
                slot = step["slot"]
                g = groups[slot]
                snap = snapshot(obj)
                obj.to_hdf5(target, g, True) if slot == 0 else obj.to_hdf5(filename=target, groupname=g, overwrite=True)
                # writing must not change the object
                report(ctx, "hdf5.write_mutated_object", diff(snap, snapshot(obj)))
                written[slot].append(snap)
                objs[slot] = obj
                last_content[slot] = step["content"]
                for gname in grouped:
                    ctx.label("grouped_" + gname)
                ctx.label("non_ascii_label", has_non_ascii(step["content"]))
                ctx.label("dtype_widths:" + (step["content"].get("dt") or {}).get("profile", "default"))
        finally:
            if handle is not None:
                handle.close()
        if case.get("foreign_mat") and fam == "geno":
            # typed reader: the same calls stored by another tool as 64-bit integers still load as an int8 matrix
            with h5py.File(fname, "a") as fh:
                for slot in (0, 1):
                    if written[slot]:
                        dn = ("" if groups[slot] is None else groups[slot].rstrip("/") + "/") + "mat"
                        data = fh[dn][()]
                        del fh[dn]
                        fh.create_dataset(dn, data=data.astype("int64"))
            ctx.label("foreign_int64_mat")
        ctx.label("group:none", groups[0] is None and written[0] != [])
        ctx.label("group:nested", any(groups[s] is not None and groups[s].strip("/").count("/") >= 1 and written[s] for s in (0, 1)))
        ctx.label("group:trailing_slash", case["trail_slash"] and any(groups[s] is not None and written[s] for s in (0, 1)))
        ctx.label("two_group_paths", bool(written[0]) and bool(written[1]))

        for slot in (0, 1):
            if not written[slot]:
                continue
            last = written[slot][-1]
            absent, present = optional_profile(last)
            ctx.nontrivial(bool(absent & _OPTIONAL) and bool(present & _OPTIONAL))
            # input-side signature of F-C16-a: a field that an earlier write to this path stored and the last object
            # does not have (None field, or a hyper-parameter key that is gone)
            stale = set()
            for prev in written[slot][:-1]:
                pa, pp = optional_profile(prev)
                stale |= (pp & absent)
                if _hyper_keys(prev) - _hyper_keys(last):
                    stale.add("hyperparams")
            ctx.label("overwrite_richer_with_poorer", bool(stale))
            ctx.nontrivial(bool(stale))
            known_stale = ctx.known("F-C16-a", bool(stale))
            kw = {}
            if fam == "ge":
                kw["gpmod"] = objs[slot].gpmod
            rtarget = fname if case["how"] != "path" else pathlib.Path(fname)
            rh = None
            if case["how"] == "handle":
                rh = h5py.File(fname, "r")
                rtarget = rh
            try:
                try:
                    back = cls.from_hdf5(rtarget, groups[slot], **kw)
                except (ValueError, TypeError, KeyError, IndexError) as e:
                    if known_stale:
                        continue        # stale datasets of another length make the constructor refuse: same finding
                    if stale:
                        ctx.fail("hdf5.overwrite.stale_field_left_behind",
                                 "from_hdf5 raised %s: %s after overwriting an object that had %s with one that has not"
                                 % (type(e).__name__, str(e)[:200], sorted(stale)))
                        continue
                    raise
            finally:
                if rh is not None:
                    rh.close()
            sback = snapshot(back)
            mm = mismatches(last, sback)
            if fam == "ge":
                mm = [m for m in mm if _top(m[0]) != "rng"]
            if not (case.get("foreign_mat") and fam == "geno"):
                mm = mm + [m for m in width_mismatches(last, sback) if not any(m[0] == x[0] for x in mm)]
            _width_labels(ctx, written[slot])
            str_hyper = fam == "gmod" and any(isinstance(v, str) for k, v in (last_content[slot]["hyper"] or []))
            ctx.label("str_hyperparameter", str_hyper)
            if ctx.known("F-C16-d", str_hyper):
                mm = [m for m in mm if not (m[0].startswith("hyperparams[") and m[1] == "dtype")]
            stale_mm = [m for m in mm if _top(m[0]) in stale or (_top(m[0]) in _DERIVED_FROM and _DERIVED_FROM[_top(m[0])] & stale)]
            other_mm = [m for m in mm if m not in stale_mm]
            if stale_mm and not known_stale:
                ctx.fail("hdf5.overwrite.stale_field_left_behind",
                         "after %d writes with overwrite=True the object read back is not the last one written: %s"
                         % (len(written[slot]), "; ".join("%s: %s" % (m[0], m[2]) for m in stale_mm[:4])))
            report(ctx, "hdf5.readback", other_mm,
                   "(class %s, group %r)" % (clsname, groups[slot]))


# numeric arrays come back from HDF5 in the item size they were written with; the one reader that normalises on purpose is
# h5py_File_read_ndarray_int (nrep of the phenotyping protocol -> platform integer), so nrep is compared in value only
_WIDTH_NOT_KEPT = {"nrep"}


def width_mismatches(sa, sb):
    """top-level numeric arrays of two snapshots that agree in kind and shape but differ in item size"""
    out = []
    for k in sorted(set(sa["attrs"]) & set(sb["attrs"])):
        a, b = sa["attrs"][k], sb["attrs"][k]
        if k in _WIDTH_NOT_KEPT or not (isinstance(a, numpy.ndarray) and isinstance(b, numpy.ndarray)):
            continue
        if a.dtype.kind in "iuf" and a.dtype.kind == b.dtype.kind and a.shape == b.shape and a.dtype != b.dtype:
            out.append((k, "width", "written as %s, read back as %s" % (a.dtype, b.dtype)))
    return out


def _width_labels(ctx, snaps):
    """classify the last two writes to one location by the item sizes of the numeric fields both objects have"""
    if len(snaps) < 2:
        return
    prev, last = snaps[-2]["attrs"], snaps[-1]["attrs"]
    for k in sorted(set(prev) & set(last)):
        a, b = prev[k], last[k]
        if not (isinstance(a, numpy.ndarray) and isinstance(b, numpy.ndarray)):
            continue
        if a.dtype.kind not in "if" or a.dtype.kind != b.dtype.kind or a.dtype == b.dtype:
            continue
        shape = "same_shape" if a.shape == b.shape else "other_shape"
        order = "wide_over_narrow" if b.dtype.itemsize > a.dtype.itemsize else "narrow_over_wide"
        ctx.label("overwrite:%s:%s" % (order, shape))
        ctx.label("overwrite:%s:%s:%s" % (order, shape, "float" if a.dtype.kind == "f" else "int"))
        if order == "wide_over_narrow" and shape == "same_shape":
            with numpy.errstate(all="ignore"):
                fits = numpy.array_equal(b.astype(a.dtype).astype(b.dtype), b, equal_nan=b.dtype.kind == "f")
            ctx.label("overwrite:wide_over_narrow:same_shape:values_need_the_wider_type", not fits)
            ctx.label("overwrite:wide_over_narrow:same_shape:values_need_the_wider_type:" + CATEGORY.get(k, "derived"), not fits)


_OPTIONAL = {"taxa", "taxa_grp", "trait", "vrnt_chrgrp", "vrnt_phypos", "vrnt_name", "vrnt_genpos", "vrnt_xoprob",
             "vrnt_hapgrp", "vrnt_hapalt", "vrnt_hapref", "vrnt_mask", "taxa_grp_name", "vrnt_chrgrp_name"}
_DERIVED_FROM = {}      # attribute -> set of attributes it is computed from (none needed so far)


# ======================================================================================================
#  frames : pandas / csv / dict forms / egmap
# ======================================================================================================

def _reordered(clsname, obj, c):
    """expected result of a long-format round trip: taxa and traits sorted by name (harness-side reconstruction)"""
    ent = MATRIX[clsname]
    mat = obj.mat
    taxa, trait, grp = obj.taxa, obj.trait, obj.taxa_grp
    tord = numpy.arange(obj.ntaxa) if taxa is None else numpy.array(sorted(range(len(taxa)), key=lambda i: taxa[i]), dtype=int)
    rord = numpy.arange(obj.ntrait) if trait is None else numpy.array(sorted(range(len(trait)), key=lambda i: trait[i]), dtype=int)
    for ax, ch in enumerate(ent["shape"]):
        mat = numpy.take(mat, tord if ch == "n" else rord, axis=ax)
    kw = {"mat": mat}
    if taxa is not None:
        kw["taxa"] = taxa[tord]
    if grp is not None:
        kw["taxa_grp"] = grp[tord]
    if trait is not None:
        kw["trait"] = trait[rord]
    return ent["cls"](**kw)


_GRPMETA = ("taxa_grp_name", "taxa_grp_stix", "taxa_grp_spix", "taxa_grp_len")


def _frame_roundtrip(case, ctx, d, clsname, obj, c, fmt, filenames):
    """returns (expected object or snapshot, read-back object, skip set, ftol, extra) or None"""
    cls = ALL[clsname]["cls"]
    fam = ALL[clsname]["family"]
    cols = list(case["cols"])
    dflt = case["default_cols"]
    sep = case["sep"]
    # pandas' default C float parser keeps 17 decimal digits *including leading zeros* (0.000821618143501158 ->
    # 0.0008216181435011): short dyadic values are transported exactly, arbitrary doubles to ~1e-13 relative
    csvtol = 0.0
    if fmt in ("csv", "csv_dict", "egmap") and c["float_mode"] != "dyadic":
        csvtol = 1e-12
    skip = set()

    if fam == "bv":
        tc = ("taxa" if dflt else cols[0]) if obj.taxa is not None else None
        gc = ("taxa_grp" if dflt else cols[1]) if obj.taxa_grp is not None else None
        passback = case["bv_mode"] == "passback"
        wkw = dict(taxa_col=tc, taxa_grp_col=gc, trait_cols="all", unscale=not passback)
        rkw = dict(taxa_col=tc, taxa_grp_col=gc, trait_cols="infer")
        if passback:
            rkw.update(location=obj.location.copy(), scale=obj.scale.copy())
        if fmt == "pandas":
            df = obj.to_pandas(**wkw)
            back = cls.from_pandas(df, **rkw)
        else:
            obj.to_csv(filenames[0], sep=sep, **wkw)
            back = cls.from_csv(filenames[0], sep=sep, **rkw)
        return {"kind": "bv", "back": back, "passback": passback, "csv": fmt == "csv"}

    if fam == "cmat":
        tc = "taxa" if dflt else cols[0]
        gc = "taxa_grp" if dflt else cols[1]
        if fmt == "pandas":
            back = cls.from_pandas(obj.to_pandas(taxa_col=tc, taxa_grp_col=gc), taxa_col=tc, taxa_grp_col=gc)
        else:
            obj.to_csv(filenames[0], taxa_col=tc, taxa_grp_col=gc, sep=sep)
            back = cls.from_csv(filenames[0], sep=sep, taxa_col=tc, taxa_grp_col=gc)
        skip |= set(_GRPMETA)
        if obj.taxa is None:
            skip.add("taxa")
        return {"kind": "eq", "expected": obj, "back": back, "skip": skip, "ftol": csvtol}

    if fam == "var":
        params = [k for k in inspect.signature(cls.to_pandas).parameters if k.endswith("_col")]
        kw = {}
        for i, k in enumerate(params):
            if k.endswith("_grp_col"):
                kw[k] = None if obj.taxa_grp is None else (k[:-4] if dflt else cols[i])
            else:
                kw[k] = k[:-4] if dflt else cols[i]
        with quiet():
            if fmt == "pandas":
                back = cls.from_pandas(obj.to_pandas(**kw), **kw)
            else:
                obj.to_csv(filenames[0], sep=sep, **kw)
                back = cls.from_csv(filenames[0], sep=sep, **kw)
        skip |= set(_GRPMETA)
        if obj.taxa is None:
            skip.add("taxa")
        if obj.trait is None:
            skip.add("trait")
        return {"kind": "eq", "expected": _reordered(clsname, obj, c), "back": back, "skip": skip, "ftol": csvtol}

    if fam == "sqtt":
        nsq = 2
        kw = {"taxa_colnames": True if dflt else cols[0:nsq],
              "taxa_grp_colnames": None if obj.taxa_grp is None else (True if dflt else cols[2:2 + nsq]),
              "trait_colnames": True if dflt else cols[4], "value_colname": "value" if dflt else cols[5]}
        with quiet():
            if fmt == "pandas":
                back = cls.from_pandas(obj.to_pandas(**kw), ntaxaaxes=nsq, **kw)
            else:
                obj.to_csv(filenames[0], sep=sep, **kw)
                back = cls.from_csv(filenames[0], ntaxaaxes=nsq, sep=sep, **kw)
        skip |= set(_GRPMETA)
        if obj.taxa is None:
            skip.add("taxa")
        if obj.trait is None:
            skip.add("trait")
        return {"kind": "eq", "expected": _reordered(clsname, obj, c), "back": back, "skip": skip, "ftol": csvtol}

    if fam == "gmap":
        units = case["units"]
        utol = 4 * EPS if units in ("cM", "centiMorgans") else 0.0
        ext = clsname == "ExtendedGeneticMap"
        if fmt == "egmap":
            obj.to_egmap(filenames[0])
            back = cls.from_egmap(filenames[0])
            return {"kind": "eq", "expected": obj, "back": back, "skip": skip, "ftol": csvtol, "egmap": True}
        kw = {"vrnt_chrgrp_col": "chr" if dflt else cols[0], "vrnt_phypos_col": "pos" if dflt else cols[1],
              "vrnt_genpos_col": "cM" if dflt else cols[2]}
        wkw = dict(kw)
        rkw = dict(kw)
        if ext:
            wkw["vrnt_stop_col"] = rkw["vrnt_stop_col"] = "stop" if dflt else cols[3]
            wkw["vrnt_name_col"] = "name" if dflt else cols[4]
            wkw["vrnt_fncode_col"] = "fncode" if dflt else cols[5]
            rkw["vrnt_name_col"] = wkw["vrnt_name_col"] if obj.vrnt_name is not None else None
            rkw["vrnt_fncode_col"] = wkw["vrnt_fncode_col"] if obj.vrnt_fncode is not None else None
        if fmt == "pandas":
            back = cls.from_pandas(obj.to_pandas(vrnt_genpos_units=units, **wkw), vrnt_genpos_units=units, **rkw)
        else:
            obj.to_csv(filenames[0], vrnt_genpos_units=units, sep=sep, **wkw)
            back = cls.from_csv(filenames[0], vrnt_genpos_units=units, sep=sep, **rkw)
        return {"kind": "eq", "expected": obj, "back": back, "skip": skip, "ftol": max(csvtol, utol)}

    if fam == "gmod":
        keys = ["beta", "u_misc", "u_a"] + (["u_d"] if clsname == "DenseAdditiveDominanceLinearGenomicModel" else [])
        rkw = dict(trait_cols="infer", model_name=obj.model_name, hyperparams=copy.deepcopy(obj.hyperparams))
        if fmt == "pandas_dict":
            back = cls.from_pandas_dict(obj.to_pandas_dict(trait_cols="trait"), **rkw)
        else:
            fn = {k: filenames[i] for i, k in enumerate(keys)}
            obj.to_csv_dict(fn, trait_cols="trait", sep=sep)
            back = cls.from_csv_dict(fn, sep=sep, **rkw)
        if obj.trait is None:
            skip.add("trait")
        return {"kind": "eq", "expected": obj, "back": back, "skip": skip, "ftol": csvtol}
    raise AssertionError(fam)


def check_frames(case, ctx):
    clsname = case["cls"]
    fmt = case["format"]
    fam = ALL[clsname]["family"]
    ctx.label("class:" + clsname)
    ctx.label("family:%s/%s" % (fam, fmt))
    ctx.label("writes:%d" % len(case["history"]))
    with workdir() as d:
        ext = {"csv": ".csv", "csv_dict": ".csv", "egmap": ".egmap"}.get(fmt, ".x")
        filenames = [os.path.join(d, "%s%d%s" % (case["fname"], i, ext)) for i in range(4)]
        res = None
        for c in case["history"]:
            obj, grouped = build(clsname, c, frame=True)
            before = snapshot(obj)
            res = _frame_roundtrip(case, ctx, d, clsname, obj, c, fmt, filenames)
            report(ctx, "frames.write_mutated_object", diff(before, snapshot(obj)))
        c = case["history"][-1]
        ctx.label("non_ascii_label", has_non_ascii(c))
        ctx.label("default_column_names", case["default_cols"])
        absent, present = optional_profile(before)
        ctx.nontrivial((bool(absent & _OPTIONAL) and bool(present & _OPTIONAL)) or has_non_ascii(c))
        back = res["back"]
        prefix = "frames.%s.%s" % (fam, "csv" if fmt in ("csv", "csv_dict") else fmt)
        ctx.check(type(back) is type(obj), prefix + ".class", "%s vs %s" % (type(back).__name__, type(obj).__name__))
        if res["kind"] == "bv":
            ctx.label("bv:" + ("passback" if res["passback"] else "unscale"))
            for name in ("taxa", "taxa_grp") + (("trait",) if obj.trait is not None else ()):
                mm = diff(snapshot(getattr(obj, name)), snapshot(getattr(back, name)), path=name)
                report(ctx, prefix, mm)
            # the exported numbers (unscaled values, or the raw matrix in pass-back mode) must come back as unscale()
            x0, x1 = (obj.mat if res["passback"] else obj.unscale()), back.unscale()
            ok = x0.shape == x1.shape
            if ok:
                for j in range(x0.shape[1]):
                    tol = (64 * EPS + (1e-12 if res["csv"] and c["float_mode"] != "dyadic" else 0.0)) * max(
                        1e-300, float(numpy.max(numpy.abs(x0[:, j]))))
                    ok = ok and bool(numpy.all(numpy.abs(x0[:, j] - x1[:, j]) <= tol))
            ctx.check(ok, prefix + ".data.value", lambda: "unscale() %s vs %s" % (_brief(x0), _brief(x1)))
            if res["passback"] and not ctx.known("F-C16-b", True):
                mm = []
                for name in ("location", "scale", "mat"):
                    mm += diff(snapshot(getattr(obj, name)), snapshot(getattr(back, name)), ftol=8 * EPS if res["csv"] else 0.0, path=name)
                if mm:
                    ctx.fail("frames.bv.location_scale_arguments_ignored",
                             "to_pandas(unscale=False) then from_pandas(location=L, scale=S): " +
                             "; ".join("%s: %s" % (m[0], m[2]) for m in mm[:3]))
            return
        skip = set(res["skip"])
        if res.get("egmap"):
            lost = [n for n in ("vrnt_name", "vrnt_fncode") if getattr(obj, n) is not None]
            if ctx.known("F-C16-c", bool(lost)):
                skip |= set(lost)
            ctx.label("egmap_with_names", bool(lost))
        mm = mismatches(res["expected"], back, res["ftol"], skip)
        if res.get("egmap"):
            lab = [m for m in mm if _top(m[0]) in ("vrnt_name", "vrnt_fncode")]
            if lab:
                ctx.fail("frames.gmap.egmap.marker_names_lost", "; ".join("%s: %s" % (m[0], m[2]) for m in lab[:3]))
            mm = [m for m in mm if m not in lab]
        report(ctx, prefix, mm, "(class %s)" % clsname)


# ======================================================================================================
#  vcf
# ======================================================================================================

def vcf_text(case):
    lines = ["##fileformat=VCFv4.2"]
    if case["contig_header"]:
        for cg in case["contigs"]:
            lines.append("##contig=<ID=%d%s>" % (cg, ",length=2147483647" if case["contig_length"] else ""))
    lines.append('##INFO=<ID=DP,Number=1,Type=Integer,Description="Total Depth">')
    lines.append('##INFO=<ID=AF,Number=A,Type=Float,Description="Allele Frequency">')
    lines.append('##FILTER=<ID=q10,Description="Quality below 10">')
    lines.append('##FORMAT=<ID=GT,Number=1,Type=String,Description="Genotype">')
    lines.append('##FORMAT=<ID=DP,Number=1,Type=Integer,Description="Read Depth">')
    lines.append("\t".join(["#CHROM", "POS", "ID", "REF", "ALT", "QUAL", "FILTER", "INFO", "FORMAT"] + case["samples"]))
    recs = list(case["records"])
    if case["sorted"]:
        order = {cg: i for i, cg in enumerate(case["contigs"])}
        recs = sorted(recs, key=lambda r: (order[r["chrom"]], r["pos"]))
    alts = ["G", "T", "C"]
    for r in recs:
        alt = ",".join((a if a != r["ref"] else "N" + a) for a in alts[: r["nalt"]])
        info = r["info"]
        if r["nalt"] != 1 and "AF=" in info:
            info = "DP=3"
        f = "GT:DP" if r["extra_fmt"] else "GT"
        calls = ["%d|%d%s" % (a, b, ":%d" % (7 + i) if r["extra_fmt"] else "") for i, (a, b) in enumerate(r["gt"])]
        lines.append("\t".join([str(r["chrom"]), str(r["pos"]), r["id"], r["ref"], alt, r["qual"], r["filter"], info, f] + calls))
    return "\n".join(lines) + "\n", recs


def check_vcf(case, ctx):
    PG = MATRIX["DensePhasedGenotypeMatrix"]["cls"]
    UG = MATRIX["DenseGenotypeMatrix"]["cls"]
    text, recs = vcf_text(case)
    n, p = len(case["samples"]), len(recs)
    ctx.label("samples:%s" % ("1" if n == 1 else "2-10"))
    ctx.label("multiallelic", any(r["nalt"] > 1 for r in recs))
    ctx.label("missing_id", any(r["id"] == "." for r in recs))
    ctx.label("unsorted_records", not case["sorted"] and recs != sorted(recs, key=lambda r: (r["chrom"], r["pos"])))
    ctx.label("non_ascii_sample", any(ord(ch) > 127 for s in case["samples"] for ch in s))
    ctx.label("contigs:%d" % len(set(r["chrom"] for r in recs)))
    ctx.nontrivial(p >= 2 and n >= 2 and len(set(tuple(map(tuple, r["gt"])) for r in recs)) >= 2)
    with workdir() as d:
        fname = os.path.join(d, case["fname"] + ".vcf")
        with open(fname, "w", encoding="utf-8", newline="") as fh:
            fh.write(text)
        for cls, phased in ((PG, True), (UG, False)):
            tag = "vcf.phased" if phased else "vcf.unphased"
            for auto in (False, True):
                with quiet_fd2():
                    g = cls.from_vcf(fname, auto_group_vrnt=auto)
                ctx.check(type(g) is cls, tag + ".class")
                ctx.check(g.taxa is not None and g.taxa.dtype == object and g.taxa.tolist() == case["samples"],
                          tag + ".sample_names", lambda: "%r vs %r" % (None if g.taxa is None else g.taxa.tolist(), case["samples"]))
                ctx.check(g.mat.dtype == numpy.dtype("int8"), tag + ".mat_dtype", str(g.mat.dtype))
                want_shape = (2, n, p) if phased else (n, p)
                if not ctx.check(g.mat.shape == want_shape, tag + ".mat_shape", "%s vs %s" % (g.mat.shape, want_shape)):
                    continue
                ctx.check(g.ploidy == 2, tag + ".ploidy", str(g.ploidy))
                got = []
                for j in range(p):
                    col = g.mat[:, :, j] if phased else g.mat[:, j]
                    got.append((int(g.vrnt_chrgrp[j]), int(g.vrnt_phypos[j]), g.vrnt_name[j],
                                tuple(map(int, numpy.asarray(col).ravel()))))
                want = []
                for r in recs:
                    if phased:
                        calls = tuple([a for a, b in r["gt"]] + [b for a, b in r["gt"]])
                    else:
                        calls = tuple(a + b for a, b in r["gt"])
                    want.append((r["chrom"], r["pos"], r["id"], calls))
                ctx.check(g.vrnt_chrgrp.dtype.kind == "i" and g.vrnt_phypos.dtype.kind == "i" and g.vrnt_name.dtype == object,
                          tag + ".label_dtypes")
                ctx.check(all(type(x[2]) is str for x in got), tag + ".id_type")

                def norm(lst, with_id=True):
                    return [(a, b, (c if c != "." else None) if with_id else None, e) for a, b, c, e in lst]
                # identifiers: '.' is VCF's "missing"; what it maps to is not specified -> not compared
                got_n = [(a, b, (c if w[2] != "." else None), e) for (a, b, c, e), w in zip(got, want)] if not auto else None
                if not auto:
                    want_n = norm(want)
                    for j in range(p):
                        ctx.check(got_n[j][0:2] == want_n[j][0:2], tag + ".coordinates", lambda: "record %d: %r vs %r" % (j, got_n[j][0:2], want_n[j][0:2]))
                        ctx.check(got_n[j][2] == want_n[j][2], tag + ".identifiers", lambda: "record %d: %r vs %r" % (j, got_n[j][2], want_n[j][2]))
                        ctx.check(got_n[j][3] == want_n[j][3], tag + ".allele_calls", lambda: "record %d: %r vs %r" % (j, got_n[j][3], want_n[j][3]))
                    ctx.check(g.vrnt_chrgrp_name is None and g.vrnt_chrgrp_stix is None, tag + ".ungrouped_has_metadata")
                else:
                    # grouped import: a permutation of the records, sorted by (chromosome, position), with metadata
                    key = lambda x: (x[0], x[1], x[3], "" if x[2] is None else x[2])
                    idless = lambda lst, ref: sorted(((a, b, None if (a, b, e) in ref else c, e) for a, b, c, e in lst), key=key)
                    missing = set((a, b, e) for a, b, c, e in want if c == ".")
                    ctx.check(idless(got, missing) == idless(want, missing), tag + ".grouped.records_permuted",
                              lambda: "%r vs %r" % (idless(got, missing), idless(want, missing)))
                    ctx.check([x[0:2] for x in got] == sorted(x[0:2] for x in got), tag + ".grouped.sorted")
                    chrs = sorted(set(r["chrom"] for r in recs))
                    ok = (g.vrnt_chrgrp_name is not None and g.vrnt_chrgrp_name.tolist() == chrs)
                    if ok:
                        for k, ch in enumerate(chrs):
                            s, e, ln = int(g.vrnt_chrgrp_stix[k]), int(g.vrnt_chrgrp_spix[k]), int(g.vrnt_chrgrp_len[k])
                            ok = ok and e - s == ln and all(int(v) == ch for v in g.vrnt_chrgrp[s:e]) and ln == sum(1 for r in recs if r["chrom"] == ch)
                    ctx.check(ok, tag + ".grouped.metadata")


# ======================================================================================================
#  copy
# ======================================================================================================

def _arrays(x, path="", out=None, depth=0):
    """(path, ndarray) for every array reachable from the public attributes of x"""
    if out is None:
        out = []
    if isinstance(x, numpy.ndarray):
        out.append((path, x))
    elif isinstance(x, dict):
        for k, v in x.items():
            _arrays(v, "%s[%r]" % (path, k), out, depth + 1)
    elif isinstance(x, (list, tuple)):
        for i, v in enumerate(x):
            _arrays(v, "%s[%d]" % (path, i), out, depth + 1)
    elif isinstance(x, interp1d):
        out.append((path + ".x", x.x))
        out.append((path + ".y", x.y))
    elif x is not None and _is_pybrops_obj(x) and depth < 4:
        for name in public_names(x):
            try:
                v = getattr(x, name)
            except Exception:
                continue
            if callable(v) and not isinstance(v, interp1d):
                continue
            _arrays(v, (path + "." if path else "") + name, out, depth + 1)
    return out


def _mutate(x, depth=0):
    """change every mutable piece of state reachable from x in place; returns number of mutations"""
    k = 0
    if isinstance(x, numpy.ndarray):
        if x.size and x.flags.writeable:
            if x.dtype.kind in "iu":
                x[...] = x + 1
            elif x.dtype.kind == "f":
                y = x + 1.0
                x[...] = numpy.where(y == x, x / 2.0, y)    # y == x: |x| beyond the integer range of the (single-precision) type
                x[numpy.isnan(x)] = 0.0
            elif x.dtype.kind == "b":
                x[...] = ~x
            elif x.dtype.kind == "O":
                flat = x.reshape(-1)            # label arrays are 1-d and contiguous: a view
                for i in range(flat.shape[0]):
                    flat[i] = str(flat[i]) + "_mut"
            k += 1
    elif isinstance(x, dict):
        for v in list(x.values()):
            k += _mutate(v, depth + 1)
        x["__added_by_mutation__"] = 1
        k += 1
    elif isinstance(x, interp1d):
        k += _mutate(x.x) + _mutate(x.y)
    elif x is not None and _is_pybrops_obj(x) and depth < 4:
        for name in public_names(x):
            try:
                v = getattr(x, name)
            except Exception:
                continue
            if isinstance(v, (numpy.ndarray, dict, interp1d)) or (v is not None and _is_pybrops_obj(v)):
                k += _mutate(v, depth + 1)
    return k


_MAIN_DATA = ("mat", "beta", "u_a", "u_d", "u_misc")


def _edit_source(obj, how, raw):
    """one legal element-wise change of a main data array of the SOURCE, in place or through the public setter.
    Values stay inside the class's domain (0 <-> 1 for allele counts, x + 1 for floats).  Returns the field or None."""
    names = []
    for name in _MAIN_DATA:
        v = getattr(obj, name, None)
        if isinstance(v, numpy.ndarray) and v.size and v.dtype.kind in "if":
            names.append(name)
    if not names:
        return None
    name = names[raw % len(names)]
    arr = getattr(obj, name)
    if how == "setter":
        prop = inspect.getattr_static(type(obj), name, None)
        if not isinstance(prop, property) or prop.fset is None:
            return None
        arr = arr.copy()
    elif not arr.flags.writeable:
        return None
    k = (raw // 7) % arr.size
    ix = numpy.unravel_index(k, arr.shape)
    v = arr[ix]
    if arr.dtype.kind == "i":
        arr[ix] = 1 - int(v) if int(v) in (0, 1) else 0
    else:
        new = arr.dtype.type(float(v) + 1.0) if numpy.isfinite(v) else arr.dtype.type(0.5)
        if new == v:                        # |v| beyond the integer range of the (single-precision) type
            new = arr.dtype.type(float(v) / 2.0)
        arr[ix] = new
    if how == "setter":
        setattr(obj, name, arr)
    return name


def _one_copy(ctx, obj, snap, name, dup, clsname, prefix, edit):
    """clauses for ONE copy ``dup`` of ``obj`` (whose state at the moment of the copy is ``snap``)"""
    deep = "deepcopy" in name
    ctx.check(dup is not obj, prefix + ".same_object")
    ctx.check(type(dup) is type(obj), prefix + ".class", "%s vs %s" % (type(dup).__name__, type(obj).__name__))
    report(ctx, prefix + ".equal", mismatches(snap, dup), "(%s of %s)" % (name, clsname))
    report(ctx, prefix + ".source_changed", diff(snap, snapshot(obj)), "(%s of %s)" % (name, clsname))
    # whether a copy shares the protocol's random generator is not asserted here (C08 decides what re-seeding requires)
    if not deep:
        return 0
    src = _arrays(obj)
    for pth, arr in _arrays(dup):
        for spth, sarr in src:
            if arr.size and sarr.size and numpy.shares_memory(arr, sarr):
                ctx.fail(prefix + ".shares_memory", "%s of the deep copy shares memory with %s of the source (%s)" % (pth, spth, clsname))
    if not edit:
        return 0
    nmut = _mutate(dup)
    mm = diff(snap, snapshot(obj))
    if mm:
        ctx.fail(prefix + ".mutation_leaks_into_source", "; ".join("%s: %s" % (m[0], m[2]) for m in mm[:4]) + " (%s)" % clsname)
    after = snapshot(dup)
    ctx.check(bool(diff(snap, after)) or nmut == 0, "copy.deep.mutation_not_observable",
              "harness: mutating the copy changed nothing observable")
    return nmut


def check_copy(case, ctx):
    clsname = case["cls"]
    c = case["content"]
    fam = ALL[clsname]["family"]
    obj, grouped = build(clsname, c)
    ctx.label("class:" + clsname)
    ctx.label("family:" + fam)
    ctx.label("dtype_widths:" + (c.get("dt") or {}).get("profile", "default"))
    for gname in grouped:
        ctx.label("grouped_" + gname)
    snap = snapshot(obj)
    absent, present = optional_profile(snap)
    ctx.nontrivial(bool(absent & _OPTIONAL) and bool(present & _OPTIONAL) or fam in ("gmap", "gmod", "ge"))
    makers = {"copy.copy": lambda: copy.copy(obj), "copy.deepcopy": lambda: copy.deepcopy(obj)}
    if hasattr(obj, "copy"):
        makers["method.copy"] = lambda: obj.copy()
    if hasattr(obj, "deepcopy"):
        makers["method.deepcopy"] = lambda: obj.deepcopy()
        if "memo" in inspect.signature(obj.deepcopy).parameters:
            makers["method.deepcopy(None)"] = lambda: obj.deepcopy(None)
            makers["method.deepcopy({})"] = lambda: obj.deepcopy(memo={})
    # ---- every entry point once on the fresh object; each deep copy is edited in place afterwards
    edited = set()          # entry points one of whose earlier deep copies was edited in place
    for name in ("copy.copy", "copy.deepcopy", "method.copy", "method.deepcopy"):
        if name not in makers:
            continue
        deep = name.endswith("deepcopy")
        nmut = _one_copy(ctx, obj, snap, name, makers[name](), clsname, "copy.deep" if deep else "copy.shallow", True)
        if deep:
            ctx.label("mutations>=3", nmut >= 3)
            edited.add(name)
    # ---- history on the SAME source: more copies (any entry point, in any order), earlier deep copies edited in place
    # in between, the source itself edited in between.  A copy must equal the source as it is when the copy is made,
    # whatever was copied from it, and done to those copies, before.
    for op, edit, raw in case.get("history", []):
        if op.startswith("edit_source"):
            field = _edit_source(obj, op.split(":")[1], raw)
            if field is not None:
                ctx.label("history:source_edited_between_copies")
                now = snapshot(obj)
                ctx.check(bool(diff(snap, now)), "copy.harness.source_edit_not_observable", "harness: editing %s changed nothing" % field)
                snap = now
            continue
        if op not in makers:
            continue
        deep = "deepcopy" in op
        base = op.split("(")[0]
        ctx.label("history:repeat_" + op)
        ctx.label("history:deep_copy_again_after_editing_earlier_copy", deep and base in edited)
        _one_copy(ctx, obj, snap, op, makers[op](), clsname, "copy.deep.again" if deep else "copy.shallow.again", edit)
        if deep and edit:
            edited.add(base)


# ======================================================================================================

SUBCHECKS = [
    SubCheck("hdf5", check_hdf5, hdf5_case(), quick=260, thorough=1500, shards_quick=6,
             rule="history of 1-4 generated objects of one class written with overwrite=True to 1-2 generated group paths "
                  "of one file (str/Path/open handle), read back; half of the later writes to a location keep the array "
                  "sizes of the object stored there before; numeric fields in drawn widths (float32/float64 data, "
                  "location, scale; int8..int64 group ids, chromosome numbers, positions, haplotype groups, replicate "
                  "counts) with values near the top of the drawn type; non-trivial = last object has >=1 optional array "
                  "present and >=1 absent, or the history overwrites a richer object with a poorer one; distinct by sha1",
             required_labels=("overwrite_richer_with_poorer", "non_ascii_label", "group:nested", "group:none",
                              "grouped_taxa", "grouped_vrnt", "family:geno", "family:bv", "family:cmat", "family:var",
                              "family:gmod", "family:ge",
                              "overwrite:wide_over_narrow:same_shape:values_need_the_wider_type",
                              "overwrite:wide_over_narrow:same_shape:float", "overwrite:wide_over_narrow:same_shape:int",
                              "overwrite:narrow_over_wide:same_shape", "overwrite:wide_over_narrow:other_shape",
                              "overwrite:narrow_over_wide:other_shape")),
    SubCheck("frames", check_frames, frames_case(), quick=260, thorough=1500, shards_quick=5,
             rule="generated object written to pandas / CSV / *_dict / egmap with generated column names, separator, "
                  "units and read back with the same options; CSV files overwritten 1-3 times; non-trivial = mixed "
                  "optional presence or a non-ASCII label; distinct by sha1",
             required_labels=("non_ascii_label", "family:bv/pandas", "family:bv/csv", "family:cmat/pandas",
                              "family:cmat/csv", "family:var/pandas", "family:var/csv", "family:gmap/pandas",
                              "family:gmap/csv", "family:gmod/pandas_dict", "family:gmod/csv_dict")),
    SubCheck("vcf", check_vcf, vcf_case(), quick=250, thorough=2500, shards_quick=2,
             rule="VCF text from a grammar (1-4 integer contigs, 1-10 samples, 1-8 records, phased diploid GT with allele "
                  "indices 0-3, ids possibly '.', optional extra FORMAT fields, sorted or unsorted), imported by both "
                  "genotype classes with and without auto grouping; non-trivial = >=2 samples, >=2 records, >=2 distinct "
                  "call columns; distinct by sha1",
             required_labels=("multiallelic", "missing_id", "unsorted_records", "non_ascii_sample")),
    SubCheck("copy", check_copy, copy_case(), quick=260, thorough=1500, shards_quick=3,
             rule="generated object of every persistable class; copy.copy, copy.deepcopy, .copy(), .deepcopy(); deep copy "
                  "mutated in every array / dict; then a generated history of 1-5 further operations on the same source "
                  "(copies through any entry point incl. deepcopy(None) / deepcopy(memo={}), each deep copy optionally "
                  "edited in place, the source edited in place or through a setter); "
                  "non-trivial = mixed optional presence (matrices) or map/model/protocol",
             required_labels=("family:geno", "family:bv", "family:cmat", "family:var", "family:gmap", "family:gmod",
                              "family:ge", "grouped_taxa", "grouped_vrnt", "mutations>=3",
                              "history:deep_copy_again_after_editing_earlier_copy", "history:repeat_method.deepcopy",
                              "history:repeat_copy.deepcopy", "history:source_edited_between_copies")),
]
